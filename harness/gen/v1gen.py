"""SMIv1-expressible modules and their mechanical SMIv2 transliteration (C16).

An abstract module is a list of declarations; `render(mod, 'v1')` prints it in SMIv1 (RFC 1155/1212/1215 macros,
Counter / Gauge / NetworkAddress, ACCESS, STATUS mandatory, TRAP-TYPE), `render(mod, 'v2')` prints the transliteration
(SNMPv2-SMI imports, Counter32 / Gauge32 / IpAddress, MAX-ACCESS, STATUS current, NOTIFICATION-TYPE under enterprise.0)."""

V1_ROOTS = {'enterprises': ('RFC1155-SMI', (1, 3, 6, 1, 4, 1)), 'experimental': ('RFC1155-SMI', (1, 3, 6, 1, 3)),
            'mgmt': ('RFC1155-SMI', (1, 3, 6, 1, 2)), 'private': ('RFC1155-SMI', (1, 3, 6, 1, 4)),
            'mib-2': ('RFC1213-MIB', (1, 3, 6, 1, 2, 1)), 'internet': ('RFC1155-SMI', (1, 3, 6, 1))}
V1_ROOT_ALT = {'enterprises': 'RFC1065-SMI', 'mib-2': 'RFC1158-MIB', 'experimental': 'RFC1065-SMI'}
# v1 spelling -> (v1 import module or None, v2 spelling, v2 import module or None, pysnmp class)
BASE_TYPES = {
    'INTEGER': (None, 'INTEGER', None, 'Integer32'),
    'OCTET STRING': (None, 'OCTET STRING', None, 'OctetString'),
    'OBJECT IDENTIFIER': (None, 'OBJECT IDENTIFIER', None, 'ObjectIdentifier'),
    'Counter': ('RFC1155-SMI', 'Counter32', 'SNMPv2-SMI', 'Counter32'),
    'Gauge': ('RFC1155-SMI', 'Gauge32', 'SNMPv2-SMI', 'Gauge32'),
    'TimeTicks': ('RFC1155-SMI', 'TimeTicks', 'SNMPv2-SMI', 'TimeTicks'),
    'IpAddress': ('RFC1155-SMI', 'IpAddress', 'SNMPv2-SMI', 'IpAddress'),
    'NetworkAddress': ('RFC1155-SMI', 'IpAddress', 'SNMPv2-SMI', 'IpAddress'),
    'Opaque': ('RFC1155-SMI', 'Opaque', 'SNMPv2-SMI', 'Opaque'),
    'DisplayString': ('RFC1213-MIB', 'DisplayString', 'SNMPv2-TC', 'DisplayString'),
    'PhysAddress': ('RFC1213-MIB', 'PhysAddress', 'SNMPv2-TC', 'PhysAddress'),
}
INT_LIKE = ('INTEGER', 'Counter', 'Gauge', 'TimeTicks')
STR_LIKE = ('OCTET STRING', 'DisplayString', 'PhysAddress', 'Opaque')


class V1Gen(object):
    def __init__(self, rng, name='ACME-V1-MIB', size=8, index_by_type=False, alt_homes=False):
        self.rng = rng
        self.name = name
        self.size = size
        self.index_by_type = index_by_type
        self.alt_homes = alt_homes
        self.n = 0
        self.decls = []
        self.nodes = []          # (name, oid tuple) usable as OID parents
        self.types = []          # user types: (name, base)
        self.objects = []        # accessible scalars / columns: names
        self.truth = {}

    def fresh(self, prefix):
        self.n += 1
        return '%s%d' % (prefix, self.n)

    def pick_parent(self):
        rng = self.rng
        name, oid = rng.choice(self.nodes)
        arcs = [rng.choice([0, 1, 2, 3, 7, 10, 99, 100, 2 ** 16])]
        if rng.random() < 0.2:
            arcs.append(rng.randint(0, 20))
        return name, arcs, oid + tuple(arcs)

    def syntax(self):
        rng = self.rng
        if self.types and rng.random() < 0.25:
            t = rng.choice(self.types)
            return {'name': t[0], 'base': t[1], 'user': True}
        base = rng.choice(list(BASE_TYPES))
        s = {'name': base, 'base': base}
        r = rng.random()
        if base == 'INTEGER' and r < 0.35:
            k = rng.randint(1, 4)
            vals = rng.sample(range(0, 12), k)
            s['enum'] = [(self.fresh('lbl'), v) for v in sorted(vals)]
        elif base in ('INTEGER', 'Gauge') and r < 0.6:
            a = rng.choice([0, 1, -5 if base == 'INTEGER' else 0])
            s['range'] = (a, a + rng.choice([0, 10, 255, 65535]))
        elif base in ('OCTET STRING', 'DisplayString') and r < 0.6:
            a = rng.choice([0, 1, 4])
            s['size'] = (a, a + rng.choice([0, 8, 255]))
        return s

    def build(self):
        rng = self.rng
        roots = rng.sample(list(V1_ROOTS), rng.randint(1, 2))
        self.roots = roots
        for r in roots:
            self.nodes.append((r, V1_ROOTS[r][1]))
        for _ in range(self.size):
            k = rng.random()
            if k < 0.2 or len(self.nodes) < 2:
                pn, arcs, oid = self.pick_parent()
                nm = self.fresh('node')
                self.decls.append({'kind': 'oid', 'name': nm, 'parent': pn, 'arcs': arcs})
                self.nodes.append((nm, oid))
                self.truth[nm] = {'class': 'objectidentity', 'oid': oid}
            elif k < 0.32:
                s = self.syntax()
                while s.get('user'):
                    s = self.syntax()
                nm = self.fresh('AcmeType')
                self.decls.append({'kind': 'type', 'name': nm, 'syntax': s})
                self.types.append((nm, s['base']))
                self.truth[nm] = {'class': 'type', 'base': BASE_TYPES[s['base']][3]}
            elif k < 0.62:
                self.scalar()
            elif k < 0.82:
                self.table()
            else:
                self.trap()
        if not any(d['kind'] == 'trap' for d in self.decls):
            self.trap()
        # the `fooTraps OBJECT IDENTIFIER ::= { foo 0 }` idiom: a trap whose enterprise already ends in a zero arc
        pn, poid = rng.choice(self.nodes)
        zn = self.fresh('acmeTraps')
        self.decls.append({'kind': 'oid', 'name': zn, 'parent': pn, 'arcs': [0]})
        self.nodes.append((zn, poid + (0,)))
        self.truth[zn] = {'class': 'objectidentity', 'oid': poid + (0,)}
        self.trap(enterprise=(zn, poid + (0,)))
        if not any(d['kind'] == 'object' and d.get('role') == 'table' for d in self.decls):
            self.table()
        return self

    def access(self, column=False):
        return self.rng.choice(['read-only', 'read-write', 'write-only', 'not-accessible'] if not column else ['read-only', 'read-write', 'not-accessible'])

    def obj(self, name, syntax, access, parent, arcs, oid, role, **extra):
        d = dict({'kind': 'object', 'name': name, 'syntax': syntax, 'access': access, 'status': self.rng.choice(['mandatory', 'optional', 'obsolete', 'deprecated']),
                  'descr': self.rng.choice([None, 'x', 'two words']), 'parent': parent, 'arcs': arcs, 'role': role}, **extra)
        if role in ('table', 'row') and d['descr'] is None:
            d['descr'] = 'x'
        self.decls.append(d)
        self.nodes.append((name, oid))
        t = {'class': 'objecttype', 'oid': oid, 'nodetype': {'scalar': 'scalar', 'table': 'table', 'row': 'row', 'column': 'column'}[role], 'maxaccess': access}
        if isinstance(syntax, dict):
            t['pyclass'] = BASE_TYPES[syntax['base']][3] if not syntax.get('user') else syntax['name']
        self.truth[name] = t
        return d

    def scalar(self):
        pn, arcs, oid = self.pick_parent()
        nm = self.fresh('acmeScalar')
        s = self.syntax()
        d = self.obj(nm, s, self.access(), pn, arcs, oid, 'scalar')
        if s.get('enum') and self.rng.random() < 0.5:
            d['defval'] = self.rng.choice(s['enum'])[0]
        elif s['base'] in ('INTEGER', 'Gauge') and not s.get('enum') and self.rng.random() < 0.4:
            lo = s.get('range', (0, 10))[0]
            d['defval'] = str(lo)
        if d['access'] != 'not-accessible':
            self.objects.append(nm)

    def table(self):
        rng = self.rng
        pn, arcs, oid = self.pick_parent()
        tn = self.fresh('acmeTable')
        en = self.fresh('acmeEntry')
        seq = self.fresh('AcmeEntry')
        self.obj(tn, ('SEQUENCE OF', seq), 'not-accessible', pn, arcs, oid, 'table')
        eoid = oid + (1,)
        ncols = rng.randint(1, 4)
        cols = []
        for i in range(ncols):
            s = self.syntax()
            cols.append((self.fresh('acmeCol'), s))
        nidx = rng.randint(1, min(2, ncols))
        index = [c[0] for c in cols[:nidx]]
        if self.index_by_type:
            index[rng.randrange(len(index))] = rng.choice(['INTEGER', 'OCTET STRING', 'IpAddress', 'NetworkAddress'])
        row = self.obj(en, ('ROW', seq), 'not-accessible', tn, [1], eoid, 'row', index=index)
        self.truth[en]['indices'] = list(index)
        self.decls.append({'kind': 'sequence', 'name': seq, 'members': [(c, s) for c, s in cols]})
        # declaration order: sequence before or after the columns
        for i, (c, s) in enumerate(cols):
            self.obj(c, s, self.access(column=True), en, [i + 1], eoid + (i + 1,), 'column')
            if self.truth[c]['maxaccess'] != 'not-accessible':
                self.objects.append(c)

    def trap(self, enterprise=None):
        rng = self.rng
        ent, eoid = enterprise or rng.choice(self.nodes)
        nm = self.fresh(rng.choice(['acmeTrap', 'acmeTrap', 'acme-trap-']))      # SMIv1 names often carry hyphens
        num = rng.choice([0, 1, 2, 5, 6, 255, 2 ** 31 - 1])
        objs = rng.sample(self.objects, min(len(self.objects), rng.randint(0, 3))) if self.objects else []
        # ENTERPRISE takes an object identifier value: a name, or a name followed by further arcs
        arcs = tuple(rng.choice([1, 2, 7, 0]) for _ in range(rng.choice([0, 0, 0, 1, 2]))) if enterprise is None else ()
        if arcs:
            ent, eoid = '%s %s' % (ent, ' '.join(map(str, arcs))), eoid + arcs
        self.decls.append({'kind': 'trap', 'name': nm, 'enterprise': ent, 'number': num, 'variables': objs,
                           'descr': rng.choice([None, 'trap text']), 'reference': rng.choice([None, None, 'ref'])})
        self.truth[nm] = {'class': 'notificationtype', 'oid': eoid + (0, num), 'objects': list(objs)}


def syntax_text(s, dialect):
    if isinstance(s, tuple):
        return '%s %s' % (s[0], s[1]) if s[0] == 'SEQUENCE OF' else s[1]
    if s.get('user'):
        return s['name']
    name = s['name'] if dialect == 'v1' else BASE_TYPES[s['name']][1]
    if 'enum' in s:
        return name + ' { ' + ', '.join('%s(%d)' % e for e in s['enum']) + ' }'
    if 'range' in s:
        return name + ' (%d..%d)' % s['range']
    if 'size' in s:
        return name + ' (SIZE (%d..%d))' % s['size']
    return name


def used_base_types(mod):
    out = []
    for d in mod.decls:
        syns = []
        if d['kind'] in ('type', 'object') and isinstance(d['syntax'], dict):
            syns.append(d['syntax'])
        if d['kind'] == 'sequence':
            syns += [s for _, s in d['members']]
        if d['kind'] == 'object' and d.get('index'):
            for i in d['index']:
                if i in ('IpAddress', 'NetworkAddress'):
                    syns.append({'name': i, 'base': i})
        for s in syns:
            if not s.get('user') and s['name'] not in out:
                out.append(s['name'])
    return out


def render(mod, dialect):
    v1 = dialect == 'v1'
    imports = {}

    def imp(module, sym):
        if module:
            imports.setdefault(module, [])
            if sym not in imports[module]:
                imports[module].append(sym)
    for r in mod.roots:
        home = V1_ROOTS[r][0]
        if v1 and mod.alt_homes and r in V1_ROOT_ALT:
            home = V1_ROOT_ALT[r]
        imp(home if v1 else 'SNMPv2-SMI', r)
    for b in used_base_types(mod):
        t = BASE_TYPES[b]
        imp(t[0] if v1 else t[2], b if v1 else t[1])
    has_obj = any(d['kind'] == 'object' for d in mod.decls)
    has_trap = any(d['kind'] == 'trap' for d in mod.decls)
    if has_obj:
        imp('RFC-1212' if v1 else 'SNMPv2-SMI', 'OBJECT-TYPE')
    if has_trap:
        imp('RFC-1215' if v1 else 'SNMPv2-SMI', 'TRAP-TYPE' if v1 else 'NOTIFICATION-TYPE')
    lines = ['%s DEFINITIONS ::= BEGIN' % mod.name]
    lines.append('IMPORTS ' + ' '.join('%s FROM %s' % (', '.join(syms), m) for m, syms in imports.items()) + ';')
    for d in mod.decls:
        k = d['kind']
        if k == 'oid':
            lines.append('%s OBJECT IDENTIFIER ::= { %s %s }' % (d['name'], d['parent'], ' '.join(map(str, d['arcs']))))
        elif k == 'type':
            lines.append('%s ::= %s' % (d['name'], syntax_text(d['syntax'], dialect)))
        elif k == 'sequence':
            bare = lambda s: {kk: vv for kk, vv in s.items() if kk not in ('enum', 'range', 'size')}
            lines.append('%s ::= SEQUENCE { %s }' % (d['name'], ', '.join('%s %s' % (c, syntax_text(bare(s), dialect)) for c, s in d['members'])))
        elif k == 'object':
            parts = [d['name'], 'OBJECT-TYPE', 'SYNTAX', syntax_text(d['syntax'], dialect)]
            parts += ['ACCESS' if v1 else 'MAX-ACCESS', d['access']]
            parts += ['STATUS', d['status'] if v1 else {'mandatory': 'current', 'optional': 'current'}.get(d['status'], d['status'])]
            if d['descr'] is not None or not v1:
                parts += ['DESCRIPTION', '"%s"' % (d['descr'] or '')]
            if d.get('index'):
                parts += ['INDEX', '{ ' + ', '.join((i if v1 else BASE_TYPES.get(i, (0, i))[1]) if i in BASE_TYPES else i for i in d['index']) + ' }']
            if d.get('defval') is not None:
                parts += ['DEFVAL', '{ %s }' % d['defval']]
            parts += ['::=', '{ %s %s }' % (d['parent'], ' '.join(map(str, d['arcs'])))]
            lines.append(' '.join(parts))
        elif k == 'trap':
            if v1:
                parts = [d['name'], 'TRAP-TYPE', 'ENTERPRISE', d['enterprise']]
                if d['variables']:
                    parts += ['VARIABLES', '{ ' + ', '.join(d['variables']) + ' }']
                if d['descr'] is not None:
                    parts += ['DESCRIPTION', '"%s"' % d['descr']]
                if d['reference'] is not None:
                    parts += ['REFERENCE', '"%s"' % d['reference']]
                parts += ['::=', str(d['number'])]
            else:
                parts = [d['name'], 'NOTIFICATION-TYPE']
                if d['variables']:
                    parts += ['OBJECTS', '{ ' + ', '.join(d['variables']) + ' }']
                parts += ['STATUS', 'current', 'DESCRIPTION', '"%s"' % (d['descr'] or '')]
                if d['reference'] is not None:
                    parts += ['REFERENCE', '"%s"' % d['reference']]
                parts += ['::=', '{ %s 0 %d }' % (d['enterprise'], d['number'])]
            lines.append(' '.join(parts))
    lines.append('END')
    return '\n'.join(lines) + '\n'
