"""Generator of MIB module sets with ground truth, and a printer to SMIv2 text with random layout.

A module set is a dict {module name: module}; a module is
  {'name', 'imports': {module: [symbols]}, 'decls': [decl…]}
and every decl a dict with 'kind' and 'name' (see the gen_* functions).  The generator keeps the
ground truth: numeric OID of every node, node type of every OBJECT-TYPE, lists as written.
"""
import itertools

RESERVED = set('''ACCESS AGENT-CAPABILITIES APPLICATION AUGMENTS BEGIN BITS CONTACT-INFO CREATION-REQUIRES Counter32 Counter64
DEFINITIONS DEFVAL DESCRIPTION DISPLAY-HINT END ENTERPRISE EXTENDS FROM GROUP Gauge32 IDENTIFIER IMPLICIT IMPLIED IMPORTS
INCLUDES INDEX INSTALL-ERRORS INTEGER Integer32 IpAddress LAST-UPDATED MANDATORY-GROUPS MAX-ACCESS MIN-ACCESS MODULE
MODULE-COMPLIANCE MODULE-IDENTITY NOTIFICATION-GROUP NOTIFICATION-TYPE NOTIFICATIONS OBJECT OBJECT-GROUP OBJECT-IDENTITY
OBJECT-TYPE OBJECTS OCTET OF ORGANIZATION Opaque PIB-ACCESS PIB-DEFINITIONS PIB-INDEX PIB-MIN-ACCESS PIB-REFERENCES PIB-TAG
POLICY-ACCESS PRODUCT-RELEASE REFERENCE REVISION SEQUENCE SIZE STATUS STRING SUBJECT-CATEGORIES SUPPORTS SYNTAX
TEXTUAL-CONVENTION TimeTicks TRAP-TYPE UNIQUENESS UNITS UNIVERSAL Unsigned32 VALUE VARIABLES VARIATION WRITE-SYNTAX
Counter Gauge NetworkAddress MACRO EXPORTS CHOICE'''.split())
PY_KEYWORDS = set('''False None True and as assert async await break class continue def del elif else except finally for from
global if import in is lambda nonlocal not or pass raise return try while with yield'''.split())
AVOID = {'meta', 'imports', 'iso'}

BASE_OIDS = {'iso': [1], 'org': [1, 3], 'dod': [1, 3, 6], 'internet': [1, 3, 6, 1], 'directory': [1, 3, 6, 1, 1],
             'mgmt': [1, 3, 6, 1, 2], 'mib-2': [1, 3, 6, 1, 2, 1], 'transmission': [1, 3, 6, 1, 2, 1, 10],
             'experimental': [1, 3, 6, 1, 3], 'private': [1, 3, 6, 1, 4], 'enterprises': [1, 3, 6, 1, 4, 1],
             'snmpModules': [1, 3, 6, 1, 6, 3]}

INT_TYPES = ['Integer32', 'INTEGER', 'Unsigned32', 'Gauge32', 'Counter32', 'Counter64', 'TimeTicks']
STR_TYPES = ['OCTET STRING', 'DisplayString', 'Opaque']
OTHER_TYPES = ['OBJECT IDENTIFIER', 'IpAddress', 'BITS']
SMI_IMPORTABLE = {'Integer32', 'Unsigned32', 'Gauge32', 'Counter32', 'Counter64', 'TimeTicks', 'IpAddress', 'Opaque'}


class Names:
    keywords = False         # also hand out Python keywords (legal MIB identifiers)
    digit_names = False      # also hand out value names that start with digits (3com, 802dot1x: legal for the lexer)

    def __init__(self, rng):
        self.rng = rng
        self.used = set()
        self.n = itertools.count(1)
        self.local = set()       # names declared in the module being generated
        self.imported = set()    # names imported into it
        self.reusable = set()    # value names declared by earlier modules
        self.reusable_types = set()

    def next_module(self):
        self.reusable |= {x for x in self.local if x[0].islower()}
        self.reusable_types |= {x for x in self.local if x[0].isupper()}
        self.local = set()
        self.imported = set()

    def fresh(self, upper=False, hyphen_ok=True):
        r = self.rng
        # sometimes reuse, in this module, a name another module declares (same-named symbols in different modules)
        pool = self.reusable_types if upper else self.reusable
        if pool and r.random() < 0.2:
            cand = r.choice(sorted(pool))
            if cand not in self.local and cand not in self.imported and (hyphen_ok or '-' not in cand):
                self.local.add(cand)
                return cand
        if self.keywords and r.random() < 0.25:
            cands = sorted(k for k in PY_KEYWORDS if k[0].isupper() == bool(upper) and k not in self.used)
            if cands:
                s = r.choice(cands)
                self.used.add(s)
                self.local.add(s)
                return s
        if r.random() < 0.08:
            # a name that differs from an earlier one only in the case of its letters (distinct names in SMI), or a type
            # name spelled like an SMI base type in another case
            if upper:
                cands = [c for c in ('IPAddress', 'TimeTICKS', 'CounteR32', 'UnSigned32', 'OpaquE', 'GauGe32', 'InteGer32', 'Counter64x') if c not in self.used]
            else:
                cands = sorted(c[0] + c[1:].swapcase() for c in self.used if c[0].islower() and '-' not in c and c[1:].swapcase() != c[1:]
                               and (c[0] + c[1:].swapcase()) not in self.used)
            cands = [c for c in cands if c not in RESERVED and c not in PY_KEYWORDS and c not in AVOID]
            if cands:
                s = r.choice(cands)
                self.used.add(s)
                self.local.add(s)
                return s
        while True:
            stem = r.choice(['acme', 'widget', 'if', 'sys', 'node', 'x', 'foo', 'barBaz', 'q9', 'tempSensor', 'a'])
            s = stem + (r.choice(['', 'Entry', 'Table', 'Index', 'Count', 'State', 'Name']) if r.random() < 0.5 else '')
            if hyphen_ok and r.random() < 0.25:
                s += '-' + r.choice(['ext', 'v2', 'x1', 'mib'])
            s += str(next(self.n))
            if upper:
                s = s[0].upper() + s[1:]
            elif self.digit_names and r.random() < 0.12:
                s = r.choice(['3', '802', '1', '00']) + s
            if s in self.used or s in RESERVED or s in PY_KEYWORDS or s in AVOID:
                continue
            self.used.add(s)
            self.local.add(s)
            return s


def render_num(rng, v, allow_exotic=True):
    """one of the spellings of an integer the grammar admits inside constraints"""
    if allow_exotic and v >= 0 and rng.random() < 0.2:
        z = '0' * rng.choice([0, 0, 1, 2, 3])       # leading zeros are part of the literal as written
        if rng.random() < 0.5:
            return "'%s%X'H" % (z, v) if rng.random() < 0.5 else "'%s%x'h" % (z, v)
        return "'%s%s'B" % (z, bin(v)[2:])
    return str(v)


RECORD_WORDS = ['oid', 'oid', 'oid', 'oid', 'name', 'class', 'syntax', 'type', 'default', 'value', 'status', 'module', 'object', 'format', 'enumeration', 'bits',
                'range', 'size', 'constraints', 'min', 'max', 'maxaccess', 'nodetype', 'indices', 'objects', 'units']


def gen_syntax(rng, types, depth=0):
    """returns a syntax dict: base type name + optional refinement"""
    r = rng.random()
    if types and r < 0.25:
        t = rng.choice(types)
        return {'base': t['name'], 'kind': t['root'], 'user': True, 'tmodule': t.get('module'), 'resolved': t.get('resolved')}
    base = rng.choice(INT_TYPES + STR_TYPES + OTHER_TYPES)
    s = {'base': base, 'kind': 'int' if base in INT_TYPES else 'str' if base in STR_TYPES else base}
    if base == 'INTEGER' and rng.random() < 0.6:
        s['enum'] = [(rng.choice(['up', 'down', 'testing', 'unknown', 'other', 'ok', 'failed']) + str(i), v)
                     for i, v in enumerate(sorted(rng.sample(range(-3, 40), rng.randint(1, 5))))]
        if rng.random() < 0.15:
            # a label spelled like a key of the records the code generators pass around
            s['enum'][0] = (rng.choice(RECORD_WORDS), s['enum'][0][1])
    elif base in INT_TYPES and base not in ('Counter32', 'Counter64', 'TimeTicks') and rng.random() < 0.5:
        lo_ok = -2147483648 if base in ('Integer32', 'INTEGER') else 0
        hi_ok = 2147483647 if base in ('Integer32', 'INTEGER') else 4294967295
        pts = sorted(rng.sample([lo_ok, hi_ok, 0, 1, 255, 65535, 100, 7, -1 if lo_ok < 0 else 2, 2147483647, 2147483646,
                                 -2147483647 if lo_ok < 0 else 3], rng.randint(1, 4)))
        pts = [p for p in pts if lo_ok <= p <= hi_ok] or [0]
        rs = []
        i = 0
        while i < len(pts):
            if i + 1 < len(pts) and rng.random() < 0.7:
                rs.append((pts[i], pts[i + 1]))
                i += 2
            else:
                rs.append((pts[i],))
                i += 1
        s['ranges'] = rs
    elif base in ('OCTET STRING', 'DisplayString', 'Opaque') and rng.random() < 0.5 and base != 'Opaque':
        pts = sorted(rng.sample([0, 1, 4, 6, 8, 32, 255, 64], rng.randint(1, 3)))
        rs, i = [], 0
        while i < len(pts):
            if i + 1 < len(pts) and rng.random() < 0.7:
                rs.append((pts[i], pts[i + 1]))
                i += 2
            else:
                rs.append((pts[i],))
                i += 1
        s['sizes'] = rs
    elif base == 'BITS':
        s['bits'] = [(rng.choice(['alpha', 'beta', 'gamma', 'delta']) + str(i), p)
                     for i, p in enumerate(rng.sample(range(0, 16), rng.randint(1, 4)))]
        if rng.random() < 0.15:
            s['bits'][0] = (rng.choice(RECORD_WORDS), s['bits'][0][1])
    return s


def syntax_text(rng, s):
    t = s['base']
    if 'enum' in s:
        t += ' { ' + ', '.join('%s(%d)' % lv for lv in s['enum']) + ' }'
    if 'bits' in s:
        t += ' { ' + ', '.join('%s(%d)' % lv for lv in s['bits']) + ' }'
    if 'ranges' in s:
        t += ' (' + ' | '.join('..'.join(render_num(rng, v) for v in r) for r in s['ranges']) + ')'
    if 'sizes' in s:
        t += ' (SIZE (' + ' | '.join('..'.join(render_num(rng, v) for v in r) for r in s['sizes']) + '))'
    return t


TEXT_SAMPLES = ['A plain description.', 'Two  spaces   and a\n        line break.', 'Quote-free text with (parens), commas; semicolons.',
                'x', 'Tabs\tand\ttabs.', 'Trailing space ', "Apostrophe's here."]


NASTY_TEXTS = ['back\\slash C:\\new\\table \\u0027 \\x41 \\N{DASH} end', "it's 'quoted' '' double-apostrophe",
               'caf\u00e9 \u2603 snowman', 'W' * 130, '  leading and trailing  ', 'line one\n\n\nline four',
               'percent %s %d {braces} {{x}}', 'ends with backslash\\', 'tab\there', '<html> & </nope>', 'a\\\\b', 'form\x0cfeed and vt\x0btab', 'nel\x85 ls\u2028 ps\u2029 fs\x1c gs\x1d rs\x1e',
               'astral \U0001d6c0 char']


class SetGen:
    """draws one module set"""

    nasty = False

    def __init__(self, rng, n_modules=None, size=None):
        self.rng = rng
        self.names = Names(rng)
        self.modules = {}
        self.truth = {}       # (module, name) -> dict(oid=[…], kind=…, …)
        self.all_types = []
        self.cur_types = []
        self.cur_module = None
        self.n_modules = n_modules or rng.randint(1, 3)
        self.size = size or rng.randint(2, 10)

    def text(self):
        if self.nasty and self.rng.random() < 0.5:
            return self.rng.choice(NASTY_TEXTS)
        return self.rng.choice(TEXT_SAMPLES)

    def build(self):
        rng = self.rng
        mods = ['%s%d-MIB' % (rng.choice(['ACME', 'TEST', 'Vendor-X']), i) for i in range(self.n_modules)]
        nodes = []      # (module, name, oid) usable as parents
        for mi, mname in enumerate(mods):
            m = {'name': mname, 'imports': {}, 'decls': []}
            self.modules[mname] = m
            self.cur_module = mname
            types = []
            self.names.next_module()
            self.cur_types = types

            def imp(frm, sym):
                self.names.imported.add(sym)
                m['imports'].setdefault(frm, [])
                if sym not in m['imports'][frm]:
                    m['imports'][frm].append(sym)

            def pick_parent():
                """returns (oid parts as written, numeric oid)"""
                cands = [(None, k, v) for k, v in BASE_OIDS.items() if k in ('enterprises', 'mib-2', 'experimental', 'snmpModules')]
                cands += [n for n in nodes if n[0] == mname or
                          (rng.random() < 0.6 and n[1] not in self.names.local and
                           not any(n[1] in syms and frm != n[0] for frm, syms in m['imports'].items()))]
                pm, pn, poid = rng.choice(cands)
                if pm is None:
                    imp('SNMPv2-SMI', pn)
                elif pm != mname:
                    imp(pm, pn)
                # (sub-identifiers range over 0..4294967295: the upper half of that range included)
                arc = rng.choice([1, 2, 3, 4, 48, 480, 5, 10, 99, 0, 65535, 2147483647, 2147483648, 3000000000, 4294967295]) \
                    if rng.random() < 0.5 else len(nodes) + 1
                used = {tuple(t['oid']) for t in self.truth.values() if 'oid' in t}
                while tuple(poid + [arc]) in used:
                    arc = arc + 1 if arc < 4294967295 else len(nodes) + 1
                parts = [('ref', pn)]
                # occasionally spell intermediate arcs inline: { parent 7 3 } or { parent sub(7) 3 }
                def label(n):
                    # the name in name(number) is a label only: it may be spelled like any other node, known or not
                    known = [x[1] for x in nodes if x[0] == mname] + [sym for syms in m['imports'].values() for sym in syms if sym[:1].islower()]
                    return rng.choice(known) if known and rng.random() < 0.5 else 'sub%d' % n
                if rng.random() < 0.2:
                    mid = rng.randint(1, 9)
                    parts.append(('num', mid) if rng.random() < 0.5 else ('named', label(mid), mid))
                    poid = poid + [mid]
                parts.append(('num', arc) if rng.random() < 0.9 else ('named', label(arc), arc))
                return parts, poid + [arc]

            def add(decl, oid=None, **truth):
                m['decls'].append(decl)
                t = dict(kind=decl['kind'], module=mname, **truth)
                if oid is not None:
                    t['oid'] = oid
                    nodes.append((mname, decl['name'], oid))
                self.truth[(mname, decl['name'])] = t

            # module identity first (its position is shuffled later)
            if rng.random() < 0.85:
                parts, oid = pick_parent()
                imp('SNMPv2-SMI', 'MODULE-IDENTITY')
                def stamp():
                    # ExtUTCTime: YYYYMMDDHHMMZ, or the short form YYMMDDHHMMZ whose year is 19YY (RFC 2578 section 2)
                    r = rng.random()
                    if r < 0.5:
                        return '20%02d0%d0%d0000Z' % (rng.randint(0, 20), rng.randint(1, 9), rng.randint(1, 9))
                    rest = '%02d%02d%02d%02dZ' % (rng.randint(1, 12), rng.randint(1, 28), rng.randint(0, 23), rng.randint(0, 59))
                    if r < 0.75:
                        return '%02d' % rng.randint(0, 99) + rest
                    return '%04d' % rng.randint(1900, 2037) + rest
                revs = [(stamp(), self.text()) for _ in range(rng.randint(0, 3))]
                if revs and rng.random() < 0.2:
                    revs.append((rng.choice(revs)[0], self.text()))          # two revisions of the same minute are two revisions
                if rng.random() < 0.1:
                    revs += [('201902300000Z', self.text()), ('201813010000Z', self.text())]     # no such dates: both stay, as the dummy date
                revs.sort(reverse=True)
                add({'kind': 'moduleIdentity', 'name': self.names.fresh(hyphen_ok=False),
                     # (the clause takes any quoted string; a time stamp, usually)
                     'lastUpdated': '202001010000Z' if rng.random() < 0.8 else rng.choice([stamp(), '2020\\0101', 'unknown\\', "it's 2020", '']),
                     'organization': self.text(), 'contact': self.text(), 'description': self.text(), 'revisions': revs,
                     'oidparts': parts}, oid)
            for _ in range(self.size):
                r = rng.random()
                if r < 0.2:
                    parts, oid = pick_parent()
                    add({'kind': 'valueDecl', 'name': self.names.fresh(), 'oidparts': parts}, oid)
                elif r < 0.3:
                    parts, oid = pick_parent()
                    imp('SNMPv2-SMI', 'OBJECT-IDENTITY')
                    add({'kind': 'objectIdentity', 'name': self.names.fresh(), 'status': rng.choice(['current', 'deprecated', 'obsolete']),
                         'description': self.text(), 'reference': self.text() if rng.random() < 0.5 else None, 'oidparts': parts}, oid)
                elif r < 0.42:
                    # type declaration or textual convention, possibly derived from an earlier one
                    vt = self.visible_types(mname)
                    tc = rng.random() < 0.5
                    if self.pysnmp_safe and tc:
                        # the recorded template defect: a TEXTUAL-CONVENTION based on one (directly or through plain types)
                        vt = [t for t in vt if not t.get('tcish')]
                    syn = gen_syntax(rng, vt)
                    while self.pysnmp_safe and tc and syn['base'] == 'DisplayString':
                        syn = gen_syntax(rng, vt)
                    if syn['base'] in SMI_IMPORTABLE:
                        imp('SNMPv2-SMI', syn['base'])
                    if syn['base'] == 'DisplayString':
                        imp('SNMPv2-TC', 'DisplayString')
                    name = self.names.fresh(upper=True, hyphen_ok=False)
                    if syn.get('user') and syn['base'] == name:
                        continue
                    if tc:
                        imp('SNMPv2-TC', 'TEXTUAL-CONVENTION')
                    d = {'kind': 'textualConvention' if tc else 'typeDecl', 'name': name, 'syntax': syn,
                         'displayHint': rng.choice([None, '255a', '1x:', 'd-2']) if tc else None,
                         'status': 'current', 'description': self.text(), 'reference': None}
                    self.use_type(mname, imp, syn)
                    resolved = syn.get('resolved') if syn.get('user') else syn
                    add(d, None, syntax=syn, chain_base=resolved)
                    based_on = [t for t in vt if t['name'] == syn['base'] and t.get('module') == syn.get('tmodule')] if syn.get('user') else []
                    ent = {'name': name, 'root': syn.get('kind'), 'module': mname, 'resolved': resolved, 'tc': tc,
                           'tcish': tc or syn['base'] == 'DisplayString' or any(t.get('tcish') for t in based_on),
                           'parent': syn['base'] if syn.get('user') and syn.get('tmodule') in (None, mname) else None}
                    types.append(ent)
                    self.all_types.append(ent)
                elif r < 0.62:
                    self.scalar(mname, add, imp, pick_parent, types, nodes)
                elif r < 0.75:
                    self.table(mname, add, imp, pick_parent, types, nodes)
                elif r < 0.85:
                    self.notification(mname, add, imp, pick_parent, nodes)
                elif r < 0.95:
                    self.group(mname, add, imp, pick_parent, nodes)
                else:
                    self.compliance(mname, add, imp, pick_parent, nodes)
            if rng.random() < 0.6:
                # (a compliance statement needs groups to speak about: by now there usually are some, here or elsewhere)
                self.compliance(mname, add, imp, pick_parent, nodes)
            if self.chains and rng.random() < 0.8:
                self.add_chain(mname, m, add, imp, pick_parent)
            if self.chains and mi > 0 and rng.random() < 0.5:
                self.add_clash(mname, m, add, imp, pick_parent)
            if self.families and rng.random() < 0.4:
                self.add_family(mname, m, add, imp, pick_parent)
            if self.exotic_defvals and rng.random() < 0.5:
                self.add_enum_refinement(mname, m, add, imp, pick_parent)
            rng.shuffle(m['decls']) if rng.random() < 0.7 else None
        return self

    chains = True

    def add_clash(self, mname, m, add, imp, pick_parent):
        """this module imports a type whose chain, in its home module, passes through a type that has the
        same name as a local type of this module with another base (same-named types in different modules)"""
        rng = self.rng
        cands = [t for t in self.all_types if t['module'] != mname and t.get('parent') and t.get('resolved')
                 and self.importable(mname, t['module'], t['name']) and t['parent'] not in self.names.local
                 and t['parent'] not in self.names.imported and t['name'] not in self.names.local]
        if not cands:
            return
        ty = rng.choice(cands)
        other_kind = 'str' if ty['resolved'].get('kind') == 'int' else 'int'
        base = gen_syntax(rng, [])
        while base.get('kind') != other_kind or 'enum' in base:
            base = gen_syntax(rng, [])
        if base['base'] in SMI_IMPORTABLE:
            imp('SNMPv2-SMI', base['base'])
        if base['base'] == 'DisplayString':
            imp('SNMPv2-TC', 'DisplayString')
        self.names.local.add(ty['parent'])
        add({'kind': 'typeDecl', 'name': ty['parent'], 'syntax': base, 'displayHint': None, 'status': 'current',
             'description': self.text(), 'reference': None}, None, syntax=base, chain_base=base)
        ent = {'name': ty['parent'], 'root': base.get('kind'), 'module': mname, 'resolved': base, 'parent': None}
        self.cur_types.append(ent)
        self.all_types.append(ent)
        imp(ty['module'], ty['name'])
        imp('SNMPv2-SMI', 'OBJECT-TYPE')
        uses = [({'base': ty['parent'], 'kind': base.get('kind'), 'user': True}, base),
                ({'base': ty['name'], 'kind': ty['root'], 'user': True, 'tmodule': ty['module']}, ty['resolved'])]
        rng.shuffle(uses)
        for syn, resolved in uses:
            parts, oid = pick_parent()
            dv = self.defval(resolved) if 'bits' not in resolved else None
            add({'kind': 'objectType', 'name': self.names.fresh(), 'syntax': syn, 'units': None, 'access': 'read-only',
                 'status': 'current', 'description': self.text(), 'reference': None, 'oidparts': parts, 'defval': dv}, oid,
                nodetype='scalar', syntax=syn, chain_base=resolved)

    families = True
    pysnmp_safe = False      # avoid the recorded pysnmp-template defect (a TEXTUAL-CONVENTION based on a TEXTUAL-CONVENTION)

    def add_enum_refinement(self, mname, m, add, imp, pick_parent):
        """E ::= INTEGER { all labels }, E2 ::= E { some of them }, and an object of type E2 whose DEFVAL is one of those:
        E2 has exactly the labels written for it, wherever the object stands relative to the types"""
        rng = self.rng
        e1 = self.names.fresh(upper=True, hyphen_ok=False)
        e2 = self.names.fresh(upper=True, hyphen_ok=False)
        labels = [('lab%s%d' % (rng.choice('abc'), i), v) for i, v in enumerate(sorted(rng.sample(range(0, 30), rng.randint(3, 5))))]
        sub = sorted(rng.sample(labels, rng.randint(1, len(labels) - 1)), key=lambda x: x[1])
        full = {'base': 'INTEGER', 'kind': 'int', 'enum': labels}
        add({'kind': 'typeDecl', 'name': e1, 'syntax': full, 'displayHint': None, 'status': 'current', 'description': self.text(),
             'reference': None}, None, syntax=full, chain_base=full)
        syn2 = {'base': e1, 'kind': 'int', 'user': True, 'enum': sub}
        res2 = {'base': 'INTEGER', 'kind': 'int', 'enum': sub}
        add({'kind': 'typeDecl', 'name': e2, 'syntax': syn2, 'displayHint': None, 'status': 'current', 'description': self.text(),
             'reference': None}, None, syntax=syn2, chain_base=res2)
        parts, oid = pick_parent()
        imp('SNMPv2-SMI', 'OBJECT-TYPE')
        syn = {'base': e2, 'kind': 'int', 'user': True}
        add({'kind': 'objectType', 'name': self.names.fresh(), 'syntax': syn, 'units': None, 'access': 'read-only',
             'status': 'current', 'description': self.text(), 'reference': None, 'oidparts': parts,
             'defval': ('enum', rng.choice(sub)[0])}, oid, nodetype='scalar', syntax=syn, chain_base=res2)

    def add_family(self, mname, m, add, imp, pick_parent):
        """T1 ::= Tb, …, Tk ::= Tb declared before Tb ::= <base>: several forward references that become resolvable
        at the same moment (the symbol pass must register them in source order whatever the hash seed)"""
        rng = self.rng
        k = rng.randint(2, 4)
        tb = self.names.fresh(upper=True, hyphen_ok=False)
        tnames = [self.names.fresh(upper=True, hyphen_ok=False) for _ in range(k)]
        base = gen_syntax(rng, [])
        while base['base'] == 'BITS' or 'enum' in base:
            base = gen_syntax(rng, [])
        if base['base'] in SMI_IMPORTABLE:
            imp('SNMPv2-SMI', base['base'])
        if base['base'] == 'DisplayString':
            imp('SNMPv2-TC', 'DisplayString')
        while self.pysnmp_safe and base['base'] == 'DisplayString':
            base = gen_syntax(rng, [])
            while base['base'] == 'BITS' or 'enum' in base:
                base = gen_syntax(rng, [])
        for tn in tnames + [tb]:
            syn = base if tn == tb else {'base': tb, 'kind': base['kind'], 'user': True}
            tc = rng.random() < 0.6 and not (self.pysnmp_safe and tn == tb)
            if tc:
                imp('SNMPv2-TC', 'TEXTUAL-CONVENTION')
            add({'kind': 'textualConvention' if tc else 'typeDecl', 'name': tn, 'syntax': syn, 'displayHint': None,
                 'status': 'current', 'description': self.text(), 'reference': None}, None, syntax=syn, chain_base=base)

    def add_chain(self, mname, m, add, imp, pick_parent):
        """T1 ::= T2, …, Tk ::= <base>, plus an object of type T1: exercises chains of forward references"""
        rng = self.rng
        k = rng.randint(2, 5)
        tnames = [self.names.fresh(upper=True, hyphen_ok=False) for _ in range(k)]
        base = gen_syntax(rng, [])
        while base['base'] == 'BITS' or 'enum' in base:
            base = gen_syntax(rng, [])
        if base['base'] in SMI_IMPORTABLE:
            imp('SNMPv2-SMI', base['base'])
        if base['base'] == 'DisplayString':
            imp('SNMPv2-TC', 'DisplayString')
        for i, tn in enumerate(tnames):
            syn = base if i == k - 1 else {'base': tnames[i + 1], 'kind': base['kind'], 'user': True}
            tc = rng.random() < 0.4 and not (self.pysnmp_safe and (i > 0 or (i == k - 1 and base['base'] == 'DisplayString')))
            if tc:
                imp('SNMPv2-TC', 'TEXTUAL-CONVENTION')
            add({'kind': 'textualConvention' if tc else 'typeDecl', 'name': tn, 'syntax': syn, 'displayHint': None,
                 'status': 'current', 'description': self.text(), 'reference': None}, None, syntax=syn, chain_base=base)
        parts, oid = pick_parent()
        imp('SNMPv2-SMI', 'OBJECT-TYPE')
        syn = {'base': tnames[0], 'kind': base['kind'], 'user': True}
        add({'kind': 'objectType', 'name': self.names.fresh(), 'syntax': syn, 'units': None, 'access': 'read-only',
             'status': 'current', 'description': self.text(), 'reference': None, 'oidparts': parts, 'defval': None}, oid,
            nodetype='scalar', syntax=syn, chain_base=base)

    def importable(self, mname, frm, sym):
        if frm == mname:
            return True
        if sym in self.names.local:
            return False
        imports = self.modules[mname]['imports']
        return not any(sym in syms and f != frm for f, syms in imports.items())

    def visible_types(self, mname):
        local = list(self.cur_types)
        foreign = [t for t in self.all_types if t['module'] != mname and self.importable(mname, t['module'], t['name'])
                   and not any(l['name'] == t['name'] for l in local)]
        return local + (foreign if self.rng.random() < 0.5 else [])

    def use_type(self, mname, imp, syn):
        if syn.get('user') and syn.get('tmodule') and syn['tmodule'] != mname:
            imp(syn['tmodule'], syn['base'])

    def obj_syntax(self, imp, types):
        if types:
            types = self.visible_types(self.cur_module)
        syn = gen_syntax(self.rng, types)
        self.use_type(self.cur_module, imp, syn)
        if syn['base'] in SMI_IMPORTABLE:
            imp('SNMPv2-SMI', syn['base'])
        if syn['base'] == 'DisplayString':
            imp('SNMPv2-TC', 'DisplayString')
        return syn

    def scalar(self, mname, add, imp, pick_parent, types, nodes):
        rng = self.rng
        parts, oid = pick_parent()
        imp('SNMPv2-SMI', 'OBJECT-TYPE')
        syn = self.obj_syntax(imp, types)
        d = {'kind': 'objectType', 'name': self.names.fresh(), 'syntax': syn,
             'units': rng.choice([None, 'seconds', 'milli seconds']),
             'access': rng.choice(['read-only', 'read-write', 'not-accessible', 'accessible-for-notify', 'read-create']),
             'status': rng.choice(['current', 'deprecated', 'obsolete']), 'description': self.text(),
             'reference': self.text() if rng.random() < 0.3 else None, 'oidparts': parts, 'defval': None}
        resolved = syn.get('resolved') if syn.get('user') else syn
        if rng.random() < (0.7 if self.exotic_defvals else 0.35) and resolved and 'bits' not in (resolved if syn.get('user') else {}):
            local = [n[1] for n in nodes if n[0] == mname]
            d['defval'] = self.defval(resolved, local)
            if self.exotic_defvals and not syn.get('user') and 'enum' in syn and rng.random() < 0.6:
                # an enumeration label spelled like a node this module imports: still a label, never that node's OID
                imported = [sym for frm, syms in self.modules[mname]['imports'].items() for sym in syms
                            if sym[:1].islower() and '-' not in sym and sym not in [e[0] for e in syn['enum']]]
                if imported:
                    k = rng.randrange(len(syn['enum']))
                    syn['enum'][k] = (rng.choice(imported), syn['enum'][k][1])
                    d['defval'] = ('enum', syn['enum'][k][0])
            foreign = [n for n in nodes if n[0] != mname and self.importable(mname, n[0], n[1])]
            if self.exotic_defvals and resolved.get('base') == 'OBJECT IDENTIFIER' and foreign and rng.random() < 0.5:
                fm, fn = rng.choice(foreign)[:2]            # DEFVAL { name } naming a node of another module
                imp(fm, fn)
                d['defval'] = ('oid', fn)
                d['defval_module'] = fm
        add(d, oid, nodetype='scalar', syntax=syn, chain_base=resolved)

    exotic_defvals = False

    def defval(self, syn, nodes=()):
        rng = self.rng
        if 'enum' in syn:
            return ('enum', rng.choice(syn['enum'])[0])
        if 'bits' in syn:
            if self.exotic_defvals:
                return ('bits', [b[0] for b in rng.sample(syn['bits'], rng.randint(1, len(syn['bits'])))])
            return None
        if syn['base'] == 'OBJECT IDENTIFIER' and nodes and self.exotic_defvals:
            return ('oid', rng.choice(nodes))
        if syn['kind'] == 'int':
            lo = syn['ranges'][0][0] if 'ranges' in syn else 0
            if self.exotic_defvals and 'ranges' not in syn and syn.get('base') in ('Unsigned32', 'Gauge32', 'Counter32', 'TimeTicks') \
                    and rng.random() < 0.5:
                # all 32 bits spelled out, top bit set: must stay a large positive number
                v = rng.choice([0x80000000, 0xFFFFFFFF, 0xDEADBEEF, 0x7FFFFFFF])
                return rng.choice([('hex', v), ('bin', v), ('num', v)])
            return rng.choice([('num', lo), ('hex', max(lo, 0)), ('bin', max(lo, 0))])
        if syn['kind'] == 'str':
            opts = [('str', 'abc'), ('hexstr', 'DEADBEEF'), ('binstr', '00001111'), ('binstr', '0000000000000001'),
                    ('hexstr', '00ff'), ('str', 'with space')]
            if self.exotic_defvals:
                # literals that are not a whole number of octets, with leading zeros: every digit is part of the value
                opts += [('str', ''), ('hexstr', '0ABCD'), ('hexstr', '000'), ('hexstr', '0'), ('binstr', '000000001'), ('binstr', '000011110000'),
                         ('binstr', '0'), ('hexstr', '00000'), ('binstr', '0000'),
                         # blanks are characters of a string value like any other
                         ('str', ' padded '), ('str', ' '), ('str', 'trailing  '), ('str', '  leading'),
                         # ... and so are backslashes and apostrophes
                         ('str', 'C:\\new\\table'), ('str', 'ends\\'), ('str', "it's"), ('str', '\\x41\\u0041')]
            return rng.choice(opts)
        return None

    def table(self, mname, add, imp, pick_parent, types, nodes):
        rng = self.rng
        imp('SNMPv2-SMI', 'OBJECT-TYPE')
        parts, toid = pick_parent()
        tname = self.names.fresh(hyphen_ok=False)
        ename = self.names.fresh(hyphen_ok=False)
        seqname = self.names.fresh(upper=True, hyphen_ok=False)
        ncols = rng.randint(1, 4)
        cols = []
        for ci in range(ncols):
            syn = self.obj_syntax(imp, [])
            if 'enum' in syn or 'bits' in syn or 'ranges' in syn or 'sizes' in syn:
                seq_syn = syn['base']
            else:
                seq_syn = syn['base']
            cols.append({'name': self.names.fresh(hyphen_ok=(rng.random() < 0.3)), 'syntax': syn, 'seq': seq_syn})   # (hyphens are legal in SMIv1 descriptors and met in the field)
        add({'kind': 'objectType', 'name': tname, 'syntax': {'seqof': seqname}, 'units': None, 'access': 'not-accessible',
             'status': 'current', 'description': self.text(), 'reference': None, 'oidparts': parts, 'defval': None}, toid,
            nodetype='table')
        eoid = toid + [1]
        # index: own columns and, sometimes, columns of an earlier table (possibly in another module)
        own = rng.sample(cols, rng.randint(1, min(2, len(cols))))
        index = [{'name': c['name'], 'module': mname, 'implied': False} for c in own]
        foreign = [t for k, t in self.truth.items() if t.get('nodetype') == 'column' and self.importable(mname, t['module'], t['name'])]
        if foreign and rng.random() < 0.4:
            f = rng.choice(foreign)
            index.insert(0, {'name': f['name'], 'module': f['module'], 'implied': False})
            if f['module'] != mname:
                imp(f['module'], f['name'])
        if rng.random() < 0.25:
            index[-1]['implied'] = True
        if len(index) > 1 and rng.random() < 0.1:
            index[rng.randrange(len(index) - 1)]['implied'] = True      # the grammar takes IMPLIED on any element
        augments = None
        rows = [t for k, t in self.truth.items() if t.get('nodetype') == 'row' and
                (t['module'] == mname or self.importable(mname, t['module'], t['name']))]
        if rows and rng.random() < 0.25:
            base = rng.choice(rows)                                      # a row of this module or of an earlier one
            augments = base['name']
            if base['module'] != mname:
                imp(base['module'], base['name'])
            index = None
        add({'kind': 'objectType', 'name': ename, 'syntax': {'base': seqname, 'rowref': True}, 'units': None, 'access': 'not-accessible',
             'status': 'current', 'description': self.text(), 'reference': None,
             'oidparts': [('ref', tname), ('num', 1)], 'defval': None, 'index': index, 'augments': augments}, eoid,
            nodetype='row', index=index, augments=augments, name=ename)
        add({'kind': 'sequenceDecl', 'name': seqname, 'fields': [(c['name'], c['seq']) for c in cols]}, None)
        for ci, c in enumerate(cols):
            add({'kind': 'objectType', 'name': c['name'], 'syntax': c['syntax'], 'units': None,
                 'access': rng.choice(['read-only', 'read-create', 'not-accessible']), 'status': 'current',
                 'description': self.text(), 'reference': None, 'oidparts': [('ref', ename), ('num', ci + 1)], 'defval': None},
                eoid + [ci + 1], nodetype='column', syntax=c['syntax'], name=c['name'])

    def some_objects(self, mname, imp, kinds, n):
        rng = self.rng
        pool = [(k, t) for k, t in self.truth.items() if t['kind'] in kinds and t.get('nodetype') in (None, 'scalar', 'column')
                and self.importable(mname, k[0], k[1])]
        picks = rng.sample(pool, min(len(pool), n)) if pool else []
        out = []
        for (pm, pn), t in picks:
            if not self.importable(mname, pm, pn) or any(o['name'] == pn for o in out):
                continue
            if pm != mname:
                imp(pm, pn)
            out.append({'name': pn, 'module': pm})
        return out

    def notification(self, mname, add, imp, pick_parent, nodes):
        rng = self.rng
        parts, oid = pick_parent()
        imp('SNMPv2-SMI', 'NOTIFICATION-TYPE')
        objs = self.some_objects(mname, imp, ('objectType',), rng.randint(0, 3))
        add({'kind': 'notificationType', 'name': self.names.fresh(), 'objects': objs, 'status': 'current',
             'description': self.text(), 'reference': None, 'oidparts': parts}, oid, objects=objs)

    def group_name(self, mname):
        """sometimes the name of a group another module defines, or that name in another case (groups of several
        modules meet in compliance statements)"""
        rng, names = self.rng, self.names
        if rng.random() < 0.3:
            theirs = sorted({k[1] for k, t in self.truth.items() if t['kind'] in ('objectGroup', 'notificationGroup') and k[0] != mname})
            cands = theirs + [c[0] + c[1:].swapcase() for c in theirs if '-' not in c and c[1:].swapcase() != c[1:]
                              and (c[0] + c[1:].swapcase()) not in names.used]
            cands = [c for c in cands if c not in names.local and c not in names.imported and c not in RESERVED
                     and c not in PY_KEYWORDS and c not in AVOID]
            if cands:
                s = rng.choice(cands)
                names.used.add(s)
                names.local.add(s)
                return s
        return names.fresh()

    def group(self, mname, add, imp, pick_parent, nodes):
        rng = self.rng
        if rng.random() < 0.6:
            objs = self.some_objects(mname, imp, ('objectType',), rng.randint(1, 4))
            if not objs:
                return
            parts, oid = pick_parent()
            imp('SNMPv2-CONF', 'OBJECT-GROUP')
            add({'kind': 'objectGroup', 'name': self.group_name(mname), 'objects': objs, 'status': 'current',
                 'description': self.text(), 'reference': None, 'oidparts': parts}, oid, objects=objs)
        else:
            objs = self.some_objects(mname, imp, ('notificationType',), rng.randint(1, 3))
            if not objs:
                return
            parts, oid = pick_parent()
            imp('SNMPv2-CONF', 'NOTIFICATION-GROUP')
            add({'kind': 'notificationGroup', 'name': self.group_name(mname), 'objects': objs, 'status': 'current',
                 'description': self.text(), 'reference': None, 'oidparts': parts}, oid, objects=objs)

    def compliance(self, mname, add, imp, pick_parent, nodes):
        rng = self.rng
        # a MODULE clause names the home of its groups, so they need no IMPORTS entry (RFC 2580, 5.4.1): half of the
        # statements do without, and may then name same-named groups of different modules
        plain = rng.random() < 0.5
        groups = [(k, t) for k, t in self.truth.items() if t['kind'] in ('objectGroup', 'notificationGroup')
                  and (plain or self.importable(mname, k[0], k[1]))]
        if not groups:
            return
        parts, oid = pick_parent()
        imp('SNMPv2-CONF', 'MODULE-COMPLIANCE')
        if plain and rng.random() < 0.5:
            # prefer groups whose names meet (equal, or equal but for the case of letters)
            low = {}
            for g in groups:
                low.setdefault(g[0][1].lower(), []).append(g)
            twins = [g for gs in low.values() if len(gs) > 1 for g in gs]
            groups = twins + [g for g in groups if g not in twins]
            mand = groups[:rng.choice([1, 2, 3])]
        else:
            mand = rng.sample(groups, min(len(groups), rng.choice([0, 1, 1, 2, 2])))    # no MANDATORY-GROUPS at all is legal
        cond = [g for g in groups if g not in mand][:2]
        seen = set()
        keep = []
        for (pm, pn), t in mand + cond:
            if plain:
                keep.append(((pm, pn), t))
                continue
            if not self.importable(mname, pm, pn) or pn in seen:
                continue
            seen.add(pn)
            keep.append(((pm, pn), t))
            if pm != mname:
                imp(pm, pn)
        mand = [x for x in mand if x in keep]
        cond = [x for x in cond if x in keep]
        if not mand and not cond:
            return
        # one MODULE clause per home module of the groups: the local ones under an unnamed clause (or one naming this
        # module), the imported ones under `MODULE <home>`; clause order is random, so named clauses may precede the unnamed
        homes = []
        for (pm, pn), t in mand + cond:
            if pm not in homes:
                homes.append(pm)
        rng.shuffle(homes)
        if mname in homes and len(homes) > 1 and rng.random() < 0.5:
            # the clause for this module after a clause that names another module (an unnamed clause after a named one)
            homes.remove(mname)
            homes.insert(rng.randint(1, len(homes)), mname)
        clauses = []
        for h in homes:
            cm = [{'name': k[1], 'module': k[0]} for k, t in mand if k[0] == h]
            cc = [{'name': k[1], 'module': k[0]} for k, t in cond if k[0] == h]
            label = None if (h == mname and rng.random() < 0.8) else h
            clauses.append({'module': label, 'mandatory': cm, 'conditional': cc})
        add({'kind': 'moduleCompliance', 'name': self.names.fresh(), 'status': 'current', 'description': self.text(),
             'reference': None, 'mandatory': [{'name': k[1], 'module': k[0]} for k, t in mand],
             'conditional': [{'name': k[1], 'module': k[0]} for k, t in cond], 'clauses': clauses, 'oidparts': parts}, oid,
            mandatory=[k[1] for k, t in mand], conditional=[k[1] for k, t in cond])


# ---------------------------------------------------------------------------------------
# printer

class Layout:
    """produces the separators between tokens"""

    def __init__(self, rng, wild=False):
        self.rng = rng
        self.wild = wild
        self.eol = rng.choice(['\n', '\n', '\r\n', '\r']) if wild else '\n'

    def sp(self):
        if not self.wild:
            return ' '
        r = self.rng.random()
        if r < 0.6:
            return ' '
        if r < 0.7:
            return '\t'
        if r < 0.8:
            return '  ' + self.eol + '   '
        if r < 0.9:
            return ' --' + self.comment() + self.eol + ' '
        return self.eol + self.eol

    COMMENTS = [' a comment', ' c', '', '-', '--', '-- ruler', '---- x OBJECT IDENTIFIER ::= { iso 2 }', ' -- inner -- dashes --',
                '----------', '-----------', ' "quote', " it's", ' END', ' ; } ::=', ' MACRO', ' \t tab', " 'FF'h 99999999999999999999999"]

    def comment(self):
        """the body of a comment: anything up to the end of the line, further hyphens included"""
        return self.rng.choice(self.COMMENTS)

    def nl(self):
        if not self.wild:
            return self.eol
        r = self.rng.choice([0, 1, 2])
        return self.eol if r == 0 else self.eol + self.eol if r == 1 else ' --' + self.comment() + self.eol


def q(s):
    return '"' + s + '"'


def oid_text(parts):
    out = []
    for p in parts:
        if p[0] == 'ref':
            out.append(p[1])
        elif p[0] == 'num':
            out.append(str(p[1]))
        else:
            out.append('%s(%d)' % (p[1], p[2]))
    return '{ ' + ' '.join(out) + ' }'


def defval_text(dv):
    k, v = dv
    if k == 'num':
        return str(v)
    if k == 'hex':
        return "'%X'H" % v
    if k == 'bin':
        return "'%s'B" % bin(v)[2:]
    if k == 'enum':
        return v
    if k == 'str':
        return q(v)
    if k == 'hexstr':
        return "'%s'H" % v
    if k == 'binstr':
        return "'%s'B" % v
    if k == 'oid':
        return v
    if k == 'bits':
        return '{ ' + ', '.join(v) + ' }'
    raise ValueError(dv)


def print_module(m, rng, wild=False, positions=None, blocks=False, spell_seed=0):
    """returns SMIv2 text; tokens are joined by layout separators.
    positions: optional list that receives (token text, offset, 1-based line) per printed token;
    blocks: sprinkle EXPORTS / MACRO / CHOICE filler blocks with random bodies."""
    L = Layout(rng, wild)
    srng = __import__('random').Random('%s/%s' % (m['name'], spell_seed))   # token spellings do not depend on the layout
    toks = []

    def t(*xs):
        toks.extend(xs)

    t(m['name'], 'DEFINITIONS', '::=', 'BEGIN')
    if blocks and rng.random() < 0.6:
        t('EXPORTS ' + filler(rng, ';') + ';')
    if m['imports']:
        t('IMPORTS')
        items = list(m['imports'].items())
        # sometimes a module's symbols come in two FROM clauses with another module's clause between them: still one import list
        irng = __import__('random').Random('%s/%s/%r' % (m['name'], spell_seed, items))    # does not depend on the layout
        for k in range(len(items) - 1):
            if len(items[k][1]) >= 2 and irng.random() < 0.2:
                frm, syms = items[k]
                cut = irng.randint(1, len(syms) - 1)
                items[k] = (frm, syms[:cut])
                items.insert(k + 2, (frm, syms[cut:]))
                break
        for frm, syms in items:
            for i, s in enumerate(syms):
                t(s + (',' if i < len(syms) - 1 else ''))
            t('FROM', frm)
        toks[-1] = toks[-1] + ';'
    for d in m['decls']:
        k = d['kind']
        if blocks and rng.random() < 0.25:
            if rng.random() < 0.5:
                t(rng.choice(['OBJECT-TYPE', 'MODULE-IDENTITY', 'NOTIFICATION-TYPE', 'TEXTUAL-CONVENTION', 'OBJECT-GROUP']), 'MACRO ::= BEGIN ' + filler(rng, 'END') + ' END')
            else:
                t('Filler%d' % rng.randint(0, 99999), '::=', 'CHOICE { ' + filler(rng, '}') + ' }')
            toks.append(None)
        if k == 'valueDecl':
            t(d['name'], 'OBJECT', 'IDENTIFIER', '::=', oid_text(d['oidparts']))
        elif k == 'moduleIdentity':
            t(d['name'], 'MODULE-IDENTITY', 'LAST-UPDATED', q(d['lastUpdated']), 'ORGANIZATION', q(d['organization']),
              'CONTACT-INFO', q(d['contact']), 'DESCRIPTION', q(d['description']))
            for date, descr in d['revisions']:
                t('REVISION', q(date), 'DESCRIPTION', q(descr))
            t('::=', oid_text(d['oidparts']))
        elif k == 'objectIdentity':
            t(d['name'], 'OBJECT-IDENTITY', 'STATUS', d['status'], 'DESCRIPTION', q(d['description']))
            if d['reference']:
                t('REFERENCE', q(d['reference']))
            t('::=', oid_text(d['oidparts']))
        elif k in ('typeDecl', 'textualConvention'):
            if k == 'typeDecl':
                t(d['name'], '::=', syntax_text(srng, d['syntax']))
            else:
                t(d['name'], '::=', 'TEXTUAL-CONVENTION')
                if d['displayHint']:
                    t('DISPLAY-HINT', q(d['displayHint']))
                t('STATUS', d['status'], 'DESCRIPTION', q(d['description']), 'SYNTAX', syntax_text(srng, d['syntax']))
        elif k == 'sequenceDecl':
            t(d['name'], '::=', 'SEQUENCE', '{', ', '.join('%s %s' % f for f in d['fields']), '}')
        elif k == 'objectType':
            syn = d['syntax']
            t(d['name'], 'OBJECT-TYPE', 'SYNTAX')
            if 'seqof' in syn:
                t('SEQUENCE', 'OF', syn['seqof'])
            else:
                t(syntax_text(srng, syn))
            if d['units']:
                t('UNITS', q(d['units']))
            t('MAX-ACCESS', d['access'], 'STATUS', d['status'], 'DESCRIPTION', q(d['description']))
            if d['reference']:
                t('REFERENCE', q(d['reference']))
            if d.get('index'):
                t('INDEX', '{', ', '.join(('IMPLIED ' if i['implied'] else '') + i['name'] for i in d['index']), '}')
            if d.get('augments'):
                t('AUGMENTS', '{', d['augments'], '}')
            if d['defval']:
                t('DEFVAL', '{', defval_text(d['defval']), '}')
            t('::=', oid_text(d['oidparts']))
        elif k == 'notificationType':
            t(d['name'], 'NOTIFICATION-TYPE')
            if d['objects']:
                t('OBJECTS', '{', ', '.join(o['name'] for o in d['objects']), '}')
            t('STATUS', d['status'], 'DESCRIPTION', q(d['description']), '::=', oid_text(d['oidparts']))
        elif k == 'objectGroup':
            t(d['name'], 'OBJECT-GROUP', 'OBJECTS', '{', ', '.join(o['name'] for o in d['objects']), '}',
              'STATUS', d['status'], 'DESCRIPTION', q(d['description']), '::=', oid_text(d['oidparts']))
        elif k == 'notificationGroup':
            t(d['name'], 'NOTIFICATION-GROUP', 'NOTIFICATIONS', '{', ', '.join(o['name'] for o in d['objects']), '}',
              'STATUS', d['status'], 'DESCRIPTION', q(d['description']), '::=', oid_text(d['oidparts']))
        elif k == 'moduleCompliance':
            t(d['name'], 'MODULE-COMPLIANCE', 'STATUS', d['status'], 'DESCRIPTION', q(d['description']))
            for cl in d['clauses']:
                t('MODULE')
                if cl['module']:
                    t(cl['module'])
                if cl['mandatory']:
                    t('MANDATORY-GROUPS', '{', ', '.join(g['name'] for g in cl['mandatory']), '}')
                for g in cl['conditional']:
                    t('GROUP', g['name'], 'DESCRIPTION', q('conditional'))
            t('::=', oid_text(d['oidparts']))
        else:
            raise ValueError(k)
        toks.append(None)   # declaration boundary
    t('END')
    out = []
    offset, line = 0, 1

    def emit(x):
        nonlocal offset, line
        out.append(x)
        offset += len(x)
        line += x.count('\n') + x.count('\r') - x.count('\r\n')
    for tok in toks:
        if tok is None:
            emit(L.nl())
        else:
            if positions is not None:
                positions.append((tok, offset, line))
            emit(tok)
            emit(L.sp())
    emit(L.eol)
    return ''.join(out)


def filler(rng, terminator):
    """random body of an EXPORTS / MACRO / CHOICE block, not containing its terminator"""
    words = ['TYPE', 'NOTATION', '::=', 'value', '(', ')', 'a,', 'b', '"str"', '|', '--c', '\n', '\r\n', '{', '[', '$', '\'', 'ENDx' if terminator != 'END' else 'EN',
             '12', '-', 'x-y', '\t']
    out = []
    for _ in range(rng.randint(0, 12)):
        w = rng.choice(words)
        if terminator in w:
            continue
        out.append(w)
    s = ' '.join(out)
    while terminator in s:
        s = s.replace(terminator, '')
    return s



def jname(s):
    """the name under which the outputs know a MIB symbol: hyphens become underscores, Python keywords get a prefix"""
    if s in PY_KEYWORDS:
        s = 'pysmi_' + s
    return s.replace('-', '_')


def dotted(oid):
    return '.'.join(str(x) for x in oid)
