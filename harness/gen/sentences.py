"""Grammar-directed sentence generation: for a production list (as exported from PLY by grammar.build) produce,
for every production, a shortest sentence whose derivation uses it, plus random derivations; render token types
as lexemes of the SMI lexer.  Used by C17 (and the search after a broken simulation theorem): the sentences of the
smaller dialect's grammar are exactly what the larger dialect must keep accepting with the same tree."""
import random

INF = 10 ** 9


class Grammar(object):
    def __init__(self, prods, start='mibFile'):
        # prods: list of (lhs, rhs list, funcname) — entry 0 (S' -> start) already stripped by the caller
        self.prods = [(l, list(r)) for l, r, f in prods]
        self.start = start
        self.nts = set(l for l, r in self.prods)
        self.by_lhs = {}
        for i, (l, r) in enumerate(self.prods):
            self.by_lhs.setdefault(l, []).append(i)
        self._min()
        self._ctx()

    def _min(self):
        """minlen[X] = length of a shortest terminal string derivable from X; best[X] = production achieving it"""
        self.minlen = {nt: INF for nt in self.nts}
        self.best = {}
        changed = True
        while changed:
            changed = False
            for i, (l, r) in enumerate(self.prods):
                n = 0
                for x in r:
                    n += self.minlen[x] if x in self.nts else 1
                    if n >= INF:
                        break
                if n < self.minlen[l]:
                    self.minlen[l] = n
                    self.best[l] = i
                    changed = True

    def _ctx(self):
        """ctx[A] = (cost, production index, position) of a cheapest way to reach A from the start symbol"""
        import heapq
        self.ctx = {self.start: (0, None, None)}
        heap = [(0, self.start)]
        while heap:
            c, a = heapq.heappop(heap)
            if c > self.ctx[a][0]:
                continue
            for i in self.by_lhs.get(a, []):
                l, r = self.prods[i]
                tot = sum(self.minlen[x] if x in self.nts else 1 for x in r)
                if tot >= INF:
                    continue
                for k, x in enumerate(r):
                    if x in self.nts:
                        cost = c + tot - self.minlen[x]
                        if x not in self.ctx or cost < self.ctx[x][0]:
                            self.ctx[x] = (cost, i, k)
                            heapq.heappush(heap, (cost, x))

    def productive(self, i):
        l, r = self.prods[i]
        return l in self.ctx and all((x not in self.nts) or self.minlen[x] < INF for x in r)

    def expand_min(self, x):
        if x not in self.nts:
            return [x]
        out = []
        for y in self.prods[self.best[x]][1]:
            out += self.expand_min(y)
        return out

    def expand_random(self, x, rng, depth):
        if x not in self.nts:
            return [x]
        if depth <= 0:
            return self.expand_min(x)
        cands = [i for i in self.by_lhs[x] if all((y not in self.nts) or self.minlen[y] < INF for y in self.prods[i][1])]
        i = rng.choice(cands)
        out = []
        for y in self.prods[i][1]:
            out += self.expand_random(y, rng, depth - 1)
        return out

    def wrap(self, a, middle):
        """embed a terminal string derived from nonterminal `a` into a shortest sentence"""
        while a != self.start:
            _, i, k = self.ctx[a]
            l, r = self.prods[i]
            left, right = [], []
            for j, x in enumerate(r):
                if j < k:
                    left += self.expand_min(x)
                elif j > k:
                    right += self.expand_min(x)
            middle = left + middle + right
            a = l
        return middle

    def sentence_for(self, i, rng=None, depth=0):
        """a sentence whose derivation uses production i (children expanded minimally, or randomly to `depth`)"""
        l, r = self.prods[i]
        mid = []
        for x in r:
            mid += self.expand_random(x, rng, depth) if rng is not None and depth > 0 else self.expand_min(x)
        return self.wrap(l, mid)


LEXEMES = {
    'UPPERCASE_IDENTIFIER': ['Abc', 'Zy-9', 'FOO-MIB', 'X'],
    'LOWERCASE_IDENTIFIER': ['abc', 'zy-9', 'fooBar', 'x1'],
    'NUMBER': ['1', '0', '42', '4294967295'],
    'NEGATIVENUMBER': ['-1', '-42'],
    'NUMBER64': ['4294967296', '18446744073709551615'],
    'NEGATIVENUMBER64': ['-4294967296'],
    'BIN_STRING': ["'01'B", "''b"],
    'HEX_STRING': ["'0a'H", "'FF'h"],
    'QUOTED_STRING': ['"text"', '""', '"two\nlines"'],
    'DOT_DOT': ['..'],
    'COLON_COLON_EQUAL': ['::='],
    'MACRO': ['MACRO ::= BEGIN anything at all '],
    'EXPORTS': ['EXPORTS a, b;'],
    'CHOICE': ['CHOICE { a INTEGER, b OCTET STRING }'],
}


def lexeme_table(variant):
    """token type -> list of lexemes, from the real lexer's reserved table"""
    from pysmi.lexer.smi import lexerFactory
    cls = lexerFactory(**({'supportSmiV1Keywords': True} if variant == 'v1' else {}))
    table = dict((k, list(v)) for k, v in LEXEMES.items())
    for word, tok in cls.reserved.items():
        table.setdefault(tok, []).append(word)
    return table


def render(tokens, table, rng=None, first_only=True):
    """token types -> text; literals are themselves"""
    out = []
    for t in tokens:
        if t in table:
            c = table[t]
            out.append(c[0] if (rng is None or first_only) else rng.choice(c))
        elif len(t) == 1:
            out.append(t)
        else:
            return None          # a terminal the lexer cannot produce (never, with PLY's own checks)
    return ' '.join(out)
