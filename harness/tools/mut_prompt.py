import json,sys
pid=sys.argv[1]
props={json.loads(l)['id']:json.loads(l) for l in open('/verif/properties.jsonl')}
p=props[pid]
files=', '.join(p['anchors']['files'])
print(f"""You are helping test a verification effort by producing realistic, subtle bugs ("seeded changes") in the Python project etingof/pysmi (a pure-Python SNMP MIB compiler).

Work ONLY inside the scratch git worktree at /tmp/mut-{pid} (a checkout of the project). Do NOT read, list or touch anything under /verif or /repo. Do not use the network (there is none). Python with all deps: /venv/bin/python (run with `cd /tmp/mut-{pid} && PYTHONPATH=/tmp/mut-{pid} /venv/bin/python ...` so that the worktree's pysmi is imported; verify with `python -c "import pysmi; print(pysmi.__file__)"`). The existing test suite is run with: `cd /tmp/mut-{pid} && PYTHONPATH=/tmp/mut-{pid} /venv/bin/python -m pytest -q -p no:cacheprovider --timeout=900 --continue-on-collection-errors` (86 tests pass; tests/test_objecttype_smiv2_pysnmp.py fails to import at baseline - that is expected).

The semantic property that the project is supposed to satisfy:

---
{pid}: {p['title']}

{p['statement']}

Quantified over: {p['quantifier']['text']}
---
(The relevant code is mostly in: {files}.)

Your task: produce TWO different, independent changes to the project source (each as a separate patch against the clean worktree HEAD) that each BREAK this property while the project still imports/compiles and the existing test suite still passes (86 passed). Each change should look like a plausible refactor/optimisation/bugfix-gone-wrong a real developer could make, and should need something SPECIFIC to manifest (a particular interleaving, a fault at a particular point, a multi-step sequence of operations, an unusual input, a particular option combination, or two cooperating sites that each look fine alone) - NOT something that ordinary use would expose at once (e.g. don't just make a function crash or return empty for every input). Note the unmodified code may itself have some pre-existing deviations from the property; your demo must pass on the unmodified code, so pick a scenario where the unmodified code behaves correctly.

For each change deliver, in /tmp/mut-{pid}/out/<n>/ (n = 1, 2):
 - patch.diff : `git diff` of the change against HEAD (source files only; must apply cleanly with `git apply`)
 - demo.py : a small standalone program that exits 0 on the unmodified code and exits non-zero (assertion failure showing the property violation) with the change applied. It must import pysmi from the current working directory / PYTHONPATH, not from a hard-coded path, and must not need the network. It may create temp dirs.
 - notes.md : what the change is, why it breaks the property, and what specific conditions it needs to manifest.
After writing each patch, verify yourself: (a) with the patch applied the test suite still gives 86 passed; (b) demo.py fails with the patch and passes without it. Then `git checkout -- .` (keep the out/ directory, which is untracked) so the worktree is clean at the end. Report back a short summary of the two changes.""")
