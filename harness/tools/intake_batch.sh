#!/bin/sh
# intake_batch.sh <jobs file> <out dir> [parallel]: each line of the jobs file is "<prop> <n> <new id> <checks…>".
# For every line: copy /tmp/mut-<prop>/out/<n> to seeded/_incoming/<new id>, confirm the change on a scratch worktree
# of /repo (demo passes before, fails after, suite passes), then run the named checks against a scratch worktree with
# the change applied (VERIF_REPO) from a scratch copy of /verif.  /repo and the working copy's evidence are untouched,
# so this can run beside other work.  One log per id in <out dir>.
JOBS="$1"; OUT="$2"; PAR="${3:-4}"
mkdir -p "$OUT" /verif/seeded/_incoming
one() {
  P="$1"; N="$2"; ID="$3"; shift 3
  D=/verif/seeded/_incoming/$ID
  rm -rf "$D"; cp -r /tmp/mut-$P/out/$N "$D" || { echo "$ID: no such output" > "$OUT/$ID.log"; return; }
  W=$(mktemp -d /tmp/intake-XXXXXX)
  {
    /verif/harness/tools/confirm_mutant.sh "$D" 2>&1 | tail -3
    git -C /repo worktree add -q --detach "$W/repo" HEAD
    cp -a /verif "$W/verif"
    if git -C "$W/repo" apply "$D/patch.diff"; then
      for c in "$@"; do
        R=$(cd "$W/verif" && VERIF_REPO="$W/repo" ./check "$c" 2>&1 | grep -E "^VIOLATION|tier=|INFRA|Traceback")
        echo "$R" | sed "s/^/[$c] /"
        # keep the replay file the check wrote, for inspection
        F=$(echo "$R" | sed -n 's/^VIOLATION.*replay=\([^ ]*\).*/\1/p' | head -1)
        [ -n "$F" ] && mkdir -p "$OUT/$ID.replays" && cp "$W/verif/$F" "$OUT/$ID.replays/$c.json"
      done
    else echo "PATCH DOES NOT APPLY"; fi
    git -C /repo worktree remove --force "$W/repo"; rm -rf "$W"
  } > "$OUT/$ID.log" 2>&1
  echo "done $ID"
}
N=0
while read line; do
  [ -z "$line" ] && continue
  one $line &
  N=$((N+1))
  if [ $((N % PAR)) -eq 0 ]; then wait; fi
done < "$JOBS"
wait
git -C /repo worktree prune
