#!/bin/sh
# run_on_mutant.sh <patch.diff> <check ids…> : apply to /repo, run the checks, always revert.
P="$1"; shift
cd /repo && git status --short | grep -q . && { echo "/repo not clean"; exit 2; }
git -C /repo apply "$P" || { echo "PATCH DOES NOT APPLY"; git -C /repo checkout -f HEAD -- . ; exit 2; }
git -C /repo reset -q
for c in "$@"; do (cd /verif && ./check $c ${TIER:+--tier $TIER} | grep -E "VIOLATION|KNOWN|tier=" ); done
git -C /repo checkout -- . ; git -C /repo status --short
