#!/bin/sh
# intake_mutant.sh <property id> <n> <new id> [checks…]: copy /tmp/mut-<prop>/out/<n> to seeded/_incoming/<new id>, confirm it, run checks
P="$1"; N="$2"; ID="$3"; shift 3
D=/verif/seeded/_incoming/$ID
mkdir -p /verif/seeded/_incoming && rm -rf "$D" && cp -r /tmp/mut-$P/out/$N "$D" || exit 2
/verif/harness/tools/confirm_mutant.sh "$D" 2>&1 | tail -3
for c in "$@"; do /verif/harness/tools/run_on_mutant.sh "$D/patch.diff" $c 2>&1 | grep -v "^KNOWN" | tail -2; done
