#!/bin/sh
# regress_mutants.sh [ids…] : re-run every seeded change against the checks recorded in its meta.json (caught_by),
# on a scratch copy of /verif and a scratch worktree of /repo (so that it can run beside other work), and report
# which are still caught with a concrete failing input.  Everything scratch is removed at the end.
set -u
W=$(mktemp -d /tmp/regress-XXXXXX)
git -C /repo worktree add -q --detach "$W/repo" HEAD || exit 2
cp -a /verif "$W/verif"
cd "$W/verif"
IDS="$*"
[ -z "$IDS" ] && IDS=$(ls seeded | grep -v '^_')
for id in $IDS; do
  D="$W/verif/seeded/$id"
  [ -f "$D/patch.diff" ] || continue
  if grep -q '"obsolete"' "$D/meta.json"; then echo "$id: obsolete (see meta.json)"; continue; fi
  CHECKS=$(/venv/bin/python -c "import json,sys;print(' '.join(json.load(open('$D/meta.json'))['caught_by']))")
  if ! git -C "$W/repo" apply "$D/patch.diff" 2>/dev/null; then echo "$id: PATCH DOES NOT APPLY"; git -C "$W/repo" checkout -q -- . ; continue; fi
  for c in $CHECKS; do
    OUT=$(VERIF_REPO="$W/repo" ./check "$c" 2>&1 | grep -E "^VIOLATION|tier=")
    case "$OUT" in
      *no-failing-input-found*) echo "$id $c: caught, NO failing input" ;;
      *VIOLATION*) echo "$id $c: caught with failing input" ;;
      *) echo "$id $c: MISSED  $OUT" ;;
    esac
  done
  git -C "$W/repo" checkout -q -- .
done
cd /
git -C /repo worktree remove --force "$W/repo"
rm -rf "$W"
