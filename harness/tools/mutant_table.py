#!/usr/bin/env python3
"""mutant_table.py : rewrite the table of seeded changes in DESIGN.md (section 0.6) from seeded/*/meta.json."""
import glob, json, os, re
ROOT = os.path.dirname(os.path.dirname(os.path.dirname(os.path.abspath(__file__))))
rows = []
for f in sorted(glob.glob(os.path.join(ROOT, 'seeded', '*', 'meta.json')), key=lambda p: (p.split('/')[-2].split('-')[0], int(p.split('/')[-2].split('-')[1]))):
    m = json.load(open(f))
    rows.append('| %s | %s | %s | %s |' % (m['id'], m['breaks_property'], ', '.join(m['caught_by']), (' '.join(m['needs_to_manifest'].split()) + (' — OBSOLETE: ' + ' '.join(m['obsolete'].split()) if m.get('obsolete') else '')).replace('|', '/')))
p = os.path.join(ROOT, 'DESIGN.md')
s = open(p).read()
head = '| change | breaks | caught by | what it needs to manifest |\n|---|---|---|---|\n'
a = s.index(head) + len(head)
b = s.index('\n\n', a)
s = s[:a] + '\n'.join(rows) + s[b:]
s = re.sub(r'\(\d+ confirmed seeded changes', '(%d confirmed seeded changes' % len(rows), s)
open(p, 'w').write(s)
print(len(rows), 'rows')
