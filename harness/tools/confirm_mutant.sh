#!/bin/sh
# confirm_mutant.sh <dir with patch.diff demo.py> : confirm on a scratch worktree of /repo HEAD that the
# demo passes without the patch, fails with it, and that the baseline suite still passes with it.
D="$1"; W=$(mktemp -d /tmp/confirm-XXXXXX); rmdir "$W"
git -C /repo worktree add -q --detach "$W" HEAD || exit 2
cd "$W"
PYTHONPATH="$W" /venv/bin/python "$D/demo.py" >/dev/null 2>&1; echo "demo clean rc=$?"
if git apply --3way "$D/patch.diff" 2>/dev/null || git apply "$D/patch.diff"; then
  PYTHONPATH="$W" /venv/bin/python "$D/demo.py" >/dev/null 2>&1; echo "demo patched rc=$?"
  PYTHONPATH="$W" /venv/bin/python -m pytest -q -p no:cacheprovider --timeout=900 --continue-on-collection-errors 2>&1 | tail -1
else
  echo "PATCH DOES NOT APPLY"
fi
cd /; git -C /repo worktree remove --force "$W"
