#!/bin/sh
# harvest_corpus.sh [ids…] : for every seeded change (default: all) run the checks that catch it against a scratch
# worktree with the change applied; where a check reports a concrete failing input, keep it as corpus/<check>/<id>.json
# provided that replaying it on the unchanged tree passes (a corpus entry must never fail where the property holds).
# Scratch copies only; /repo and the working copy's evidence stay untouched.
set -u
W=$(mktemp -d /tmp/harvest-XXXXXX)
git -C /repo worktree add -q --detach "$W/repo" HEAD || exit 2
cp -a /verif "$W/verif"
cd "$W/verif"
IDS="$*"
[ -z "$IDS" ] && IDS=$(ls seeded | grep -v '^_')
for id in $IDS; do
  D="$W/verif/seeded/$id"
  [ -f "$D/patch.diff" ] || continue
  CHECKS=$(/venv/bin/python -c "import json;print(' '.join(json.load(open('$D/meta.json'))['caught_by']))")
  if ! git -C "$W/repo" apply "$D/patch.diff" 2>/dev/null; then echo "$id: PATCH DOES NOT APPLY"; git -C "$W/repo" checkout -q -- . ; continue; fi
  for c in $CHECKS; do
    OUT=$(VERIF_REPO="$W/repo" ./check "$c" 2>&1 | grep -E "^VIOLATION")
    F=$(echo "$OUT" | sed -n 's/^VIOLATION.*replay=\([^ ]*\).*/\1/p' | head -1)
    case "$OUT" in
      *no-failing-input-found*|"") echo "$id $c: no failing input to keep" ;;
      *) mkdir -p "/verif/corpus/$c"
         /venv/bin/python - "$W/verif/$F" "/verif/corpus/$c/$id.json" "$id" <<'PY'
import json, sys
src, dst, mid = sys.argv[1:4]
d = json.load(open(src))
if d.get('kind') == 'failing-input' and d.get('input') is not None and not str(d.get('key', '')).startswith('corpus/'):
    json.dump({'origin': 'seeded change ' + mid, 'key': d.get('key'), 'what': d.get('what'), 'input': d['input']}, open(dst, 'w'), indent=1)
    print(mid, 'kept', d.get('key'))
else:
    print(mid, 'not kept', d.get('kind'), d.get('key'))
PY
         ;;
    esac
  done
  git -C "$W/repo" checkout -q -- .
done
# every kept entry must pass on the unchanged tree
cd /verif
for f in corpus/*/*.json; do
  [ -f "$f" ] || continue
  c=$(basename $(dirname "$f"))
  R=$(cd /verif/harness && /venv/bin/python - "$c" "/verif/$f" <<'PY'
import sys, json, importlib
sys.path.insert(0, '.')
import common
common.ensure_repo_on_path()
pid, f = sys.argv[1:3]
mod = importlib.import_module('props.' + pid.lower())
e = json.load(open(f))
try:
    out = mod.replay({'input': e['input'], 'key': e.get('key')})
    print('FAILS' if out.get('fails') else 'passes')
except Exception as ex:
    print('RAISES %r' % ex)
PY
)
  case "$R" in passes) ;; *) echo "$f: on the unchanged tree the replay $R - dropped"; rm -f "$f" ;; esac
done
cd /
git -C /repo worktree remove --force "$W/repo"
rm -rf "$W"
echo "harvest done"
