#!/bin/sh
# sweep.sh <out log> : on a scratch copy of /verif (so that evidence/ of the working copy is left alone) run every check
# with several seeds in the quick tier and once in the thorough tier against the unchanged /repo; report anything but a clean pass.
OUT="${1:-/tmp/sweep.log}"
W=$(mktemp -d /tmp/sweep-XXXXXX)
cp -a /verif "$W/verif"
cd "$W/verif"
: > "$OUT"
IDS=$(python3 -c "import json;print(' '.join(c['property_id'] for c in json.load(open('MANIFEST.json'))['checks']))")
for seed in 1 2 3 4 5; do
  for id in $IDS; do
    R=$(VERIF_SEED=$seed timeout 3000 ./check $id 2>&1 | grep -E "VIOLATION|INFRASTRUCTURE|Traceback|tier=" | grep -v "^KNOWN" | tr '\n' ' ')
    case "$R" in *VIOLATION*|*INFRA*|*Traceback*) echo "seed=$seed $id: $R" >> "$OUT";; esac
  done
  echo "seed $seed done" >> "$OUT"
done
for id in $IDS; do
  R=$(timeout 7200 ./check $id --tier thorough 2>&1 | grep -E "VIOLATION|INFRASTRUCTURE|Traceback|tier=" | tr '\n' ' ')
  echo "thorough $id: $R" >> "$OUT"
done
echo "sweep done" >> "$OUT"
cd /; rm -rf "$W"
