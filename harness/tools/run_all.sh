#!/bin/sh
# run every registered quick check on the current tree and validate evidence + manifest
cd /verif || exit 2
/venv/bin/python harness/mkmanifest.py
rc=0
for c in $(python3 -c "import json;print(' '.join(c['property_id'] for c in json.load(open('MANIFEST.json'))['checks']))"); do
  ./check $c ${TIER:+--tier $TIER} | grep -E "VIOLATION|KNOWN|tier=" ; 
done
python3-vt - <<'PY'
import json,jsonschema,glob
m=json.load(open('/verif/MANIFEST.json'))
jsonschema.validate(m, json.load(open('/root/.vp/MANIFEST.schema.json')))
es=json.load(open('/root/.vp/EVIDENCE.schema.json'))
for c in m['checks']:
    e=json.load(open('/verif/'+c['evidence_file']))
    jsonschema.validate(e, es)
    cov=e['coverage']
    assert cov['obligations']==cov['discharged'], (c['property_id'], 'undischarged')
    assert e.get('violations',0)==0, (c['property_id'],'violations')
print('manifest + %d evidence files valid'%len(m['checks']))
PY
