#!/bin/sh
# preflight.sh [seeds…] : before a commit, run every quick check with a few other seeds (default 1 2 3) on a scratch copy of
# /verif against the unchanged /repo, several at a time, and print every run that is not a clean pass.
SEEDS="${*:-1 2 3}"
W=$(mktemp -d /tmp/preflight-XXXXXX)
cp -a /verif "$W/verif"
cd "$W/verif" || exit 2
(cd lean && lake build > /dev/null 2>&1)
IDS=$(python3 -c "import json;print(' '.join(c['property_id'] for c in json.load(open('MANIFEST.json'))['checks']))")
for seed in $SEEDS; do for id in $IDS; do echo "$seed $id"; done; done | \
  xargs -P 6 -L 1 sh -c 'R=$(VERIF_SEED=$0 timeout 3000 ./check $1 2>&1 | grep -E "^VIOLATION|INFRASTRUCTURE|Traceback|tier=" | tr "\n" " "); case "$R" in *VIOLATION*|*INFRA*|*Traceback*) echo "seed=$0 $1: $R";; *tier=*) ;; *) echo "seed=$0 $1: no verdict: $R";; esac'
echo "preflight done ($SEEDS)"
cd /; rm -rf "$W"
