#!/usr/bin/env python3
"""repin.py : rewrite lean/Pysmi/Pins/SkelC*.lean from the *current* Generated/Skeletons.lean.
To be run by hand, after a structural change of a modelled method has been looked at and the model adjusted: the pins are
the record of what the hand-written models were written against, not something a check run may update."""
import os, re
ROOT = os.path.dirname(os.path.dirname(os.path.dirname(os.path.abspath(__file__))))
OWN = {
    'C01': ['symtableGenCode', 'regPostponed', 'genNumericOid'],
    'C02': ['parserParse', 'parserError'],
    'C03': ['intermediateGenCode', 'genRevisions'],
    'C04': ['pysnmpGenCode'],
    'C05': ['genDefVal', 'getBaseType'],
    'C06': ['genObjects', 'genTableIndex', 'genCompliances', 'genObjectType'],
    'C10': ['anyFileSearcher', 'pyFileSearcher', 'stubSearcher'],
    'C11': ['lexerNumber'],
    'C12': ['lexerReset'],
    'C13': ['fileWriterPut', 'fileWriterGet', 'pyFileWriterPut'],
    'C14': ['fileReaderGet', 'fileReaderVariants', 'zipReaderGet'],
    'C15': ['pyblock', 'pyline'],
    'C16': ['intermediateGenImports', 'symtableGenImports', 'genTrapType'],
    'C17': ['parserFactory', 'lexerFactory'],
    'C18': ['jsonGenIndex', 'buildIndex'],
    'C19': ['anyFileBorrower'],
    'C20': ['mibdumpScript', 'mibcopyScript'],
}
HDR = '''import Pysmi.Generated.Skeletons
/-!
# Pins (%s): the control skeletons the hand-written models and oracles were written against

`Generated/Skeletons.lean` is rewritten from the source on every run (calls other than logging, string plumbing and pure
builtins, raises with their exception class, returns, loops, branches, handlers - in source order; for the scripts also the
exit status of every `sys.exit`).  A structural change of one of these methods breaks its pin - which is not by itself a
violation: the check then searches model and code for a failing input and reports what it finds.
(Literals written by harness/tools/repin.py when the models were last brought in line with the source.)
-/
namespace Pysmi.Pins.Skel%s
open Pysmi.Generated.Skeletons

'''
src = open(os.path.join(ROOT, 'lean/Pysmi/Generated/Skeletons.lean')).read()
defs = {name: (doc, lit) for doc, name, lit in re.findall(r"/-- (.*?) -/\ndef (\w+) : List String := (\[.*?\])\n", src)}
for pid, names in OWN.items():
    body = HDR % (pid, pid)
    for n in names:
        doc, lit = defs[n]
        items = re.findall(r'"(?:[^"\\]|\\.)*"', lit)
        lines, cur = [], '   '
        for it in items:
            if len(cur) + len(it) + 2 > 118:
                lines.append(cur)
                cur = '   '
            cur += ' ' + it + ','
        lines.append(cur.rstrip(','))
        body += '/-- %s -/\ntheorem pin_%s : %s = [\n%s] := by decide\n\n' % (doc, n, n, '\n'.join(lines))
    body += 'end Pysmi.Pins.Skel%s\n' % pid
    open(os.path.join(ROOT, 'lean/Pysmi/Pins/Skel%s.lean' % pid), 'w').write(body)
print('rewrote', len(OWN), 'pin files')
