#!/bin/sh
# try_mutant.sh <patch.diff> <check ids…> : run checks against a scratch worktree of /repo with the change applied,
# from a scratch copy of /verif (evidence of the working copy and /repo itself stay untouched).  TIER=thorough optional.
P="$1"; shift
W=$(mktemp -d /tmp/try-XXXXXX)
git -C /repo worktree add -q --detach "$W/repo" HEAD || exit 2
cp -a /verif "$W/verif"
if git -C "$W/repo" apply "$P"; then
  for c in "$@"; do
    R=$(cd "$W/verif" && VERIF_REPO="$W/repo" ./check "$c" ${TIER:+--tier $TIER} 2>&1 | grep -E "^VIOLATION|tier=|INFRA|Traceback")
    echo "$R" | sed "s/^/[$c] /"
    F=$(echo "$R" | sed -n 's/^VIOLATION.*replay=\([^ ]*\).*/\1/p' | head -1)
    [ -n "$F" ] && cp "$W/verif/$F" "/tmp/try-last-$c.json"
  done
else echo "PATCH DOES NOT APPLY"; fi
git -C /repo worktree remove --force "$W/repo"; rm -rf "$W"
