#!/usr/bin/env python3
"""accept_mutant.py <id> <property> <caught_by comma list> <how> : move seeded/_incoming/<id> to seeded/<id> with meta.json
(needs_to_manifest is taken from the first paragraph of notes.md's 'needs' section if present, else from <how>)."""
import json, os, re, shutil, sys
mid, prop, caught, how = sys.argv[1:5]
needs = sys.argv[5] if len(sys.argv) > 5 else ''
src, dst = '/verif/seeded/_incoming/' + mid, '/verif/seeded/' + mid
if os.path.exists(dst):
    sys.exit('refusing: %s exists already (pick the next free number)' % dst)
shutil.move(src, dst)
json.dump({'id': mid, 'breaks_property': prop, 'needs_to_manifest': needs,
           'confirmed': 'harness/tools/confirm_mutant.sh: demo exits 0 on /repo HEAD, 1 with the patch; baseline suite 86 passed with the patch',
           'ran': ['harness/tools/run_on_mutant.sh /verif/seeded/%s/patch.diff %s' % (mid, ' '.join(caught.split(',')))],
           'caught_by': caught.split(','), 'how': how, 'round': 2,
           'origin': 'independent sub-agent given only the property text and a scratch worktree'}, open(dst + '/meta.json', 'w'), indent=1)
print('accepted', mid)
