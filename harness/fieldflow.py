"""Static field-lifecycle analysis of pysmi's stateful classes (for C12).

For a class and its entry method (genCode / parse) it lists, from the Python source in /repo:
  reads   - every instance attribute loaded anywhere in the methods reachable from the entry method
  writes  - every instance attribute assigned, augmented, deleted, subscripted-stored or mutated through a
            mutating method call (clear/add/append/update/pop/extend/remove/insert/setdefault/sort/popitem/discard)
            in those methods
  resets  - attributes (or `attr[const]` slots) unconditionally re-initialised in the straight-line prefix of the
            entry method, before the first statement that may read them
(mutation through a local bound to an attribute, `x = self.X; x[k] = v`, counts as a write of X)
and the places where a set is iterated (set-typed attribute, local bound to set(...)/set display/comprehension, or a
direct set(...) call) without an enclosing sorted(...).

A slot written only as `self.X[const] = v` and read only as `self.X[const]` is tracked as the field "X[const]".
The result is rendered into Lean (Generated/Fields.lean) by translate.py and pinned / decided there."""
import ast
import inspect
import textwrap

MUTATORS = {'clear', 'add', 'append', 'update', 'pop', 'extend', 'remove', 'insert', 'setdefault', 'sort', 'popitem', 'discard',
            'reverse', '__setitem__', '__delitem__'}


def _const_key(node):
    if isinstance(node, ast.Constant) and isinstance(node.value, (str, int)):
        return repr(node.value)
    return None


def _self_attr(node):
    """'X' for self.X, 'X[k]' for self.X[const], else None"""
    if isinstance(node, ast.Attribute) and isinstance(node.value, ast.Name) and node.value.id == 'self':
        return node.attr
    if isinstance(node, ast.Subscript):
        base = _self_attr(node.value)
        k = _const_key(node.slice)
        if base is not None and '[' not in base and k is not None:
            return '%s[%s]' % (base, k)
    return None


class MethodFacts(object):
    def __init__(self):
        self.reads = set()
        self.writes = set()
        self.calls = set()       # self.<method>() names
        self.set_iters = []      # (lineno, expr text)


def _set_typed_locals(fn):
    names = set()
    for node in ast.walk(fn):
        if isinstance(node, ast.Assign) and len(node.targets) == 1 and isinstance(node.targets[0], ast.Name):
            if _is_set_expr(node.value, names, set()):
                names.add(node.targets[0].id)
    return names


def _is_set_expr(e, local_sets, set_attrs):
    if isinstance(e, (ast.Set, ast.SetComp)):
        return True
    if isinstance(e, ast.Call) and isinstance(e.func, ast.Name) and e.func.id in ('set', 'frozenset'):
        return True
    if isinstance(e, ast.Name) and e.id in local_sets:
        return True
    a = _self_attr(e)
    if a is not None and a in set_attrs:
        return True
    if isinstance(e, ast.BinOp) and isinstance(e.op, (ast.Sub, ast.BitOr, ast.BitAnd, ast.BitXor)):
        return _is_set_expr(e.left, local_sets, set_attrs) or _is_set_expr(e.right, local_sets, set_attrs)
    if isinstance(e, ast.Call) and isinstance(e.func, ast.Attribute) and e.func.attr in ('union', 'intersection', 'difference', 'symmetric_difference', 'copy') \
            and _is_set_expr(e.func.value, local_sets, set_attrs):
        return True
    return False


def analyse_function(fn, set_attrs):
    f = MethodFacts()
    local_sets = _set_typed_locals(fn)
    # locals bound to an instance attribute (`out = self._out`): mutating the local mutates the field
    aliases = {}
    for node in ast.walk(fn):
        if isinstance(node, ast.Assign) and len(node.targets) == 1 and isinstance(node.targets[0], ast.Name):
            a = _self_attr(node.value)
            if a is not None and '[' not in a:
                aliases[node.targets[0].id] = a
    parents = {}
    for node in ast.walk(fn):
        for ch in ast.iter_child_nodes(node):
            parents[ch] = node
    for node in ast.walk(fn):
        a = _self_attr(node)
        if a is not None and isinstance(node, (ast.Attribute, ast.Subscript)):
            par = parents.get(node)
            # self.X inside self.X[const]: accounted for by the subscript node
            if isinstance(node, ast.Attribute) and isinstance(par, ast.Subscript) and par.value is node and _self_attr(par) is not None:
                continue
            ctx = node.ctx
            if isinstance(ctx, (ast.Store, ast.Del)):
                f.writes.add(a)
                if isinstance(par, ast.AugAssign) and par.target is node:
                    f.reads.add(a)
            else:
                # a method call on self is not a field read
                if isinstance(par, ast.Call) and par.func is node and isinstance(node, ast.Attribute):
                    f.calls.add(node.attr)
                    continue
                f.reads.add(a)
                # mutation through the object: self.X.append(..), self.X[k] = v, self.X[k] += v, del self.X[k]
                if isinstance(par, ast.Attribute) and par.value is node and par.attr in MUTATORS:
                    pp = parents.get(par)
                    if isinstance(pp, ast.Call) and pp.func is par:
                        f.writes.add(a)
                if isinstance(par, ast.Subscript) and par.value is node and isinstance(par.ctx, (ast.Store, ast.Del)):
                    f.writes.add(a)
        if isinstance(node, ast.Name) and node.id in aliases and isinstance(node.ctx, ast.Load):
            par = parents.get(node)
            if isinstance(par, ast.Attribute) and par.value is node and par.attr in MUTATORS:
                pp = parents.get(par)
                if isinstance(pp, ast.Call) and pp.func is par:
                    f.writes.add(aliases[node.id])
            if isinstance(par, ast.Subscript) and par.value is node and isinstance(par.ctx, (ast.Store, ast.Del)):
                f.writes.add(aliases[node.id])
            if isinstance(par, ast.AugAssign) and par.target is node:
                f.writes.add(aliases[node.id])
        if isinstance(node, (ast.For, ast.comprehension)):
            it = node.iter
            if _is_set_expr(it, local_sets, set_attrs):
                f.set_iters.append((getattr(it, 'lineno', 0), ast.unparse(it)))
        if isinstance(node, ast.Call) and isinstance(node.func, ast.Name) and node.func.id in ('list', 'tuple', 'enumerate') and node.args \
                and _is_set_expr(node.args[0], local_sets, set_attrs):
            f.set_iters.append((node.lineno, ast.unparse(node)))
        if isinstance(node, ast.Call) and isinstance(node.func, ast.Attribute) and node.func.attr == 'join' and node.args \
                and _is_set_expr(node.args[0], local_sets, set_attrs):
            f.set_iters.append((node.lineno, ast.unparse(node)))
    return f


def class_functions(cls):
    """name -> ast.FunctionDef for every function defined in the class or its bases (most derived wins)"""
    out = {}
    for k in reversed(cls.__mro__):
        if k is object:
            continue
        try:
            src = textwrap.dedent(inspect.getsource(k))
        except (OSError, TypeError):
            continue
        tree = ast.parse(src)
        for node in tree.body[0].body:
            if isinstance(node, ast.FunctionDef):
                out[node.name] = node
    return out


def set_typed_attrs(funcs):
    """attributes assigned set() / set displays anywhere in the class (chiefly __init__ and the entry method)"""
    names = set()
    for fn in funcs.values():
        for node in ast.walk(fn):
            if isinstance(node, ast.Assign):
                for t in node.targets:
                    a = _self_attr(t)
                    if a is not None and _is_set_expr(node.value, set(), set()):
                        names.add(a)
    return names


def leading_super_call(fn, entry):
    """name of the base class if the entry method starts with `x = Base.entry(self, ...)`"""
    for st in fn.body:
        if isinstance(st, ast.Expr) and isinstance(st.value, ast.Constant):
            continue
        if isinstance(st, ast.Assign) and isinstance(st.value, ast.Call) and isinstance(st.value.func, ast.Attribute) \
                and st.value.func.attr == entry and isinstance(st.value.func.value, ast.Name):
            return st.value.func.value.id
        return None
    return None


def reset_prefix(fn, all_reads_of):
    """attributes re-initialised in the straight-line prefix of the entry method: statements `self.X = e`,
    `self.X[const] = e`, `self.X.clear()` or tuple-unpacking into them, where e does not read X; the prefix ends at
    the first statement of any other form (the first one that could depend on the old value of a field not yet reset)."""
    resets = []
    for st in fn.body:
        if isinstance(st, ast.Expr) and isinstance(st.value, ast.Constant):
            continue            # docstring
        targets = None
        value = None
        if isinstance(st, ast.Assign):
            targets = []
            for t in st.targets:
                targets += list(t.elts) if isinstance(t, (ast.Tuple, ast.List)) else [t]
            value = st.value
        elif isinstance(st, ast.Expr) and isinstance(st.value, ast.Call) and isinstance(st.value.func, ast.Attribute) \
                and st.value.func.attr == 'clear' and _self_attr(st.value.func.value) is not None and not st.value.args:
            resets.append(_self_attr(st.value.func.value))
            continue
        else:
            break
        value_reads = set(_self_attr(n) for n in ast.walk(value)) - {None}
        ok = True
        for t in targets:
            a = _self_attr(t)
            if a is None:
                if not isinstance(t, ast.Name):
                    ok = False
                continue
            if a in value_reads or a.split('[')[0] in value_reads:
                ok = False
        if not ok:
            break
        # the value may read fields that are not yet reset: that ends the prefix only if such a field is written anywhere
        for t in targets:
            a = _self_attr(t)
            if a is not None:
                resets.append(a)
    return resets


def analyse_class(cls, entry, config_methods=()):
    """facts for one stateful class: reads/writes over the methods reachable from `entry` (handler tables make every
    gen* method reachable, so all methods except __init__ and the configuration methods are taken)"""
    funcs = class_functions(cls)
    set_attrs = set_typed_attrs(funcs)
    reads, writes, set_iters = set(), set(), []
    extra = {}
    k0 = cls
    fn0 = funcs[entry]
    while True:           # bodies of the base-class entry methods reached through Base.entry(self, ...)
        bn = leading_super_call(fn0, entry)
        if bn is None:
            break
        nxt = [k for k in k0.__mro__[1:] if k.__name__ == bn]
        if not nxt:
            break
        k0 = nxt[0]
        fn0 = class_functions(k0)[entry]
        extra['%s.%s' % (bn, entry)] = fn0
    for name, fn in sorted(list(funcs.items()) + list(extra.items())):
        if name == '__init__' or name in config_methods:
            continue
        f = analyse_function(fn, set_attrs)
        reads |= f.reads
        writes |= f.writes
        set_iters += [(name, expr) for _, expr in f.set_iters]
    # slots: X[const] is a field of its own when X is never read or written whole (outside __init__)
    def whole(a):
        return a.split('[')[0]
    whole_used = set(a for a in reads | writes if '[' not in a)
    norm = lambda s: set((whole(a) if whole(a) in whole_used else a) for a in s)
    entry_fn = funcs[entry]
    base_name = leading_super_call(entry_fn, entry)
    if base_name is not None:
        for k in cls.__mro__[1:]:
            if k.__name__ == base_name:
                entry_fn = class_functions(k)[entry]
                break
    resets = reset_prefix(entry_fn, None)
    init_fields = set()
    if '__init__' in funcs:
        fi = analyse_function(funcs['__init__'], set_attrs)
        init_fields = fi.writes
    # methods are not fields
    methods = set(funcs)
    reads = norm(reads) - methods
    writes = norm(writes) - methods
    resets_n = []
    for a in resets:
        if whole(a) in whole_used and '[' in a:
            continue          # a slot reset does not reset the whole object
        resets_n.append(a)
    return {
        'class': cls.__name__,
        'entry': entry,
        'reads': sorted(reads),
        'writes': sorted(writes),
        'resets': sorted(set(resets_n)),
        'init': sorted(norm(init_fields)),
        'set_iterations': sorted(set(set_iters)),
    }


def targets():
    from pysmi.codegen.symtable import SymtableCodeGen
    from pysmi.codegen.intermediate import IntermediateCodeGen
    from pysmi.codegen.pysnmp import PySnmpCodeGen
    from pysmi.codegen.jsondoc import JsonCodeGen
    from pysmi.parser.smi import SmiV2Parser
    from pysmi.compiler import MibCompiler
    return [
        ('symtable', SymtableCodeGen, 'genCode', ()),
        ('intermediate', IntermediateCodeGen, 'genCode', ()),
        ('pysnmp', PySnmpCodeGen, 'genCode', ()),
        ('jsondoc', JsonCodeGen, 'genCode', ()),
        ('parser', SmiV2Parser, 'parse', ()),
        ('compiler', MibCompiler, 'compile', ('addSources', 'addSearchers', 'addBorrowers', 'buildIndex')),
    ]


def analyse_all():
    return [(name, analyse_class(cls, entry, cfg)) for name, cls, entry, cfg in targets()]


if __name__ == '__main__':
    import json
    import sys
    sys.path.insert(0, '/repo')
    for name, facts in analyse_all():
        print(name, json.dumps(facts, indent=1))


# ---------------------------------------------------------------------------------------
# class-level state shared between the classes of a module (the lexer dialects are subclasses built at import time)

def shared_class_writes(source):
    """For a module's source: the places where a function or method stores into an object that lives at class level -
    `self.X[...] = v`, `self.X.append(...)`, `Cls.X[...] = v`, or the same through a local bound to `self.X` / `Cls.X`
    without a copy - where X is assigned in some class body of the module (to any value) and never assigned on `self`.
    Class bodies themselves may fill their tables freely (they run once, when the class is made).
    Returns sorted strings "<function>: <how> <X>"."""
    tree = ast.parse(source)
    classes = [n for n in tree.body if isinstance(n, ast.ClassDef)]
    cnames = {c.name for c in classes}
    class_attrs = set()
    for c in classes:
        for st in c.body:
            targets = []
            if isinstance(st, ast.Assign):
                targets = st.targets
            elif isinstance(st, (ast.AugAssign, ast.AnnAssign)):
                targets = [st.target]
            for t in targets:
                if isinstance(t, ast.Name):
                    class_attrs.add(t.id)
    funcs = []
    for c in classes:
        funcs += [(c.name + '.' + f.name, f) for f in c.body if isinstance(f, ast.FunctionDef)]
    funcs += [(f.name, f) for f in tree.body if isinstance(f, ast.FunctionDef)]
    # attributes (re)bound on the instance somewhere are instance state, not class state
    inst = set()
    for _, f in funcs:
        for n in ast.walk(f):
            if isinstance(n, (ast.Assign, ast.AugAssign)):
                for t in (n.targets if isinstance(n, ast.Assign) else [n.target]):
                    if isinstance(t, ast.Attribute) and isinstance(t.value, ast.Name) and t.value.id == 'self':
                        inst.add(t.attr)
    shared = class_attrs - inst

    def class_obj(e):
        """name of the class-level attribute an expression denotes (no copy in between), else None"""
        if isinstance(e, ast.Attribute) and isinstance(e.value, ast.Name) and (e.value.id == 'self' or e.value.id in cnames or e.value.id == 'cls'):
            return e.attr if e.attr in shared else None
        return None
    out = set()
    for fname, f in funcs:
        alias = {}
        for n in ast.walk(f):
            if isinstance(n, ast.Assign) and len(n.targets) == 1 and isinstance(n.targets[0], ast.Name):
                a = class_obj(n.value)
                if a:
                    alias[n.targets[0].id] = a

        def target_of(e):
            a = class_obj(e)
            if a:
                return a
            if isinstance(e, ast.Name) and e.id in alias:
                return alias[e.id]
            return None
        for n in ast.walk(f):
            if isinstance(n, (ast.Assign, ast.AugAssign, ast.Delete)):
                tgts = n.targets if isinstance(n, (ast.Assign, ast.Delete)) else [n.target]
                for t in tgts:
                    if isinstance(t, ast.Subscript):
                        a = target_of(t.value)
                        if a:
                            out.add('%s: stores into %s' % (fname, a))
                    if isinstance(t, ast.Attribute) and isinstance(t.value, ast.Name) and (t.value.id in cnames or t.value.id == 'cls') and t.attr in class_attrs:
                        out.add('%s: rebinds %s.%s' % (fname, t.value.id, t.attr))
            if isinstance(n, ast.Call) and isinstance(n.func, ast.Attribute) and n.func.attr in MUTATORS:
                a = target_of(n.func.value)
                if a:
                    out.add('%s: %s() on %s' % (fname, n.func.attr, a))
    return sorted(out)
