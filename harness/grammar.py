"""Translator for the parser: builds the PLY parser class for a set of relaxation options from /repo's
working tree and exports its productions, LALR tables, defaulted states and the bodies of the p_*
action functions (translated from their Python source into the small statement language the Lean
model interprets)."""
import ast
import inspect
import textwrap

OPTIONS = ['supportSmiV1Keywords', 'supportIndex', 'commaAtTheEndOfImport', 'commaAtTheEndOfSequence', 'mixOfCommasAndSpaces',
           'uppercaseIdentifier', 'lowcaseIdentifier', 'curlyBracesAroundEnterpriseInTrap', 'noCells']
NATIVE = {'p_importPart'}

_cache = {}


class Untranslatable(Exception):
    pass


def tr_expr(e):
    if isinstance(e, ast.Constant):
        v = e.value
        if v is None or isinstance(v, bool) or isinstance(v, int):
            return v
        if isinstance(v, str):
            return {'s': v}
        raise Untranslatable(ast.dump(e))
    if isinstance(e, ast.Name):
        if e.id == 'None':
            return None
        return {'v': e.id}
    if isinstance(e, ast.Subscript):
        if isinstance(e.value, ast.Name) and e.value.id == 'p' and isinstance(e.slice, ast.Constant) and isinstance(e.slice.value, int):
            return {'p': e.slice.value}
        if isinstance(e.slice, ast.Slice):
            if e.slice.step is not None:
                raise Untranslatable('slice step')
            return {'sl': [tr_expr(e.value), None if e.slice.lower is None else {'e': tr_expr(e.slice.lower)},
                           None if e.slice.upper is None else {'e': tr_expr(e.slice.upper)}]}
        return {'idx': [tr_expr(e.value), tr_expr(e.slice)]}
    if isinstance(e, ast.Tuple):
        return {'t': [tr_expr(x) for x in e.elts]}
    if isinstance(e, ast.List):
        return {'l': [tr_expr(x) for x in e.elts]}
    if isinstance(e, ast.BinOp) and isinstance(e.op, ast.Add):
        return {'add': [tr_expr(e.left), tr_expr(e.right)]}
    if isinstance(e, ast.BoolOp):
        key = 'and' if isinstance(e.op, ast.And) else 'or'
        vals = [tr_expr(v) for v in e.values]
        # Python: a and b and c == a and (b and c) with the same short-circuit results
        r = vals[-1]
        for v in reversed(vals[:-1]):
            r = {key: [v, r]}
        return r
    if isinstance(e, ast.IfExp):
        return {'ite': [tr_expr(e.test), tr_expr(e.body), tr_expr(e.orelse)]}
    if isinstance(e, ast.UnaryOp) and isinstance(e.op, ast.Not):
        return {'not': tr_expr(e.operand)}
    if isinstance(e, ast.UnaryOp) and isinstance(e.op, ast.USub) and isinstance(e.operand, ast.Constant):
        return -e.operand.value
    if isinstance(e, ast.Compare) and len(e.ops) == 1:
        a, b = tr_expr(e.left), tr_expr(e.comparators[0])
        if isinstance(e.ops[0], ast.Eq):
            return {'eq': [a, b]}
        if isinstance(e.ops[0], ast.NotEq):
            return {'ne': [a, b]}
        if isinstance(e.ops[0], (ast.Is, ast.IsNot)) and b is None:
            return {'isnone': a} if isinstance(e.ops[0], ast.Is) else {'not': {'isnone': a}}
        raise Untranslatable(ast.dump(e))
    if isinstance(e, ast.Call) and isinstance(e.func, ast.Name):
        if e.func.id == 'len' and len(e.args) == 1:
            if isinstance(e.args[0], ast.Name) and e.args[0].id == 'p':
                return {'v': 'n'}
            return {'len': tr_expr(e.args[0])}
        if e.func.id == 'isinstance' and len(e.args) == 2 and isinstance(e.args[1], ast.Name) and e.args[1].id == 'tuple':
            return {'istuple': tr_expr(e.args[0])}
    raise Untranslatable(ast.dump(e))


def tr_stmts(stmts):
    out = []
    for s in stmts:
        if isinstance(s, ast.Expr) and isinstance(s.value, ast.Constant):
            continue       # docstring
        if isinstance(s, ast.Pass):
            out.append('pass')
        elif isinstance(s, ast.Assign) and len(s.targets) == 1:
            t = s.targets[0]
            if isinstance(t, ast.Subscript) and isinstance(t.value, ast.Name) and t.value.id == 'p' and \
                    isinstance(t.slice, ast.Constant) and t.slice.value == 0:
                out.append({'p0': tr_expr(s.value)})
            elif isinstance(t, ast.Name):
                if t.id == 'n' and isinstance(s.value, ast.Call) and getattr(s.value.func, 'id', '') == 'len':
                    continue      # n = len(p): `n` is built in
                out.append({'as': [t.id, tr_expr(s.value)]})
            else:
                raise Untranslatable(ast.dump(s))
        elif isinstance(s, ast.AugAssign) and isinstance(s.op, ast.Add) and isinstance(s.target, ast.Name):
            out.append({'aug': [s.target.id, tr_expr(s.value)]})
        elif isinstance(s, ast.If):
            out.append({'if': [tr_expr(s.test), tr_stmts(s.body), tr_stmts(s.orelse)]})
        else:
            raise Untranslatable(ast.dump(s))
    return out


def translate_function(fn):
    src = textwrap.dedent(inspect.getsource(fn))
    tree = ast.parse(src)
    fdef = tree.body[0]
    return tr_stmts(fdef.body)


def option_key(options):
    # order-preserving: the class synthesis walks the keyword arguments in the order given
    return ','.join(k for k, v in options.items() if v) or 'smiV2'


def build(options):
    """options: dict of relaxation flags. Returns the export dict (cached per option set and process)."""
    key = option_key(options)
    if key in _cache:
        return _cache[key]
    from pysmi.parser.smi import parserFactory
    cls = parserFactory(**options)
    inst = cls()
    lr = inst.parser
    prods = []
    funcs = {}
    for pr in lr.productions:
        rhs = list(pr.prod) if hasattr(pr, 'prod') else []
        fname = pr.func if isinstance(pr.func, str) else getattr(pr.func, '__name__', None)
        prods.append([pr.name, rhs, fname or ''])
        if fname and fname not in funcs and fname not in NATIVE:
            fn = getattr(cls, fname)
            try:
                funcs[fname] = translate_function(fn)
            except Untranslatable as e:
                funcs[fname] = {'untranslatable': str(e)[:200]}
    export = {
        'key': key,
        'options': sorted(k for k, v in options.items() if v),
        'prods': prods,
        'action': [[int(st), [[sym, int(a)] for sym, a in acts.items()]] for st, acts in lr.action.items()],
        'goto': [[int(st), [[sym, int(g)] for sym, g in gts.items()]] for st, gts in lr.goto.items()],
        'defaulted': [[int(st), int(a)] for st, a in lr.defaulted_states.items()],
        'start': lr.productions[1].name if len(lr.productions) > 1 else '',
        'actions': funcs,
        'native': sorted(NATIVE),
        'lexer_variant': 'v1' if options.get('supportSmiV1Keywords') else 'v2',
        'parser': inst,
    }
    _cache[key] = export
    return export


def tables_request(export):
    return {'op': 'tables', 'key': export['key'], 'prods': export['prods'], 'action': export['action'], 'goto': export['goto'],
            'defaulted': export['defaulted'], 'start': export['start'], 'actions': export['actions'], 'native': export['native']}


def ast_to_json(v):
    """canonical JSON image of a Python syntax tree (the same encoding the driver prints)"""
    if v is None:
        return None
    if isinstance(v, bool):
        return v
    if isinstance(v, int):
        return v
    if isinstance(v, str):
        return {'s': [ord(c) for c in v]}
    if isinstance(v, tuple):
        return {'t': [ast_to_json(x) for x in v]}
    if isinstance(v, list):
        return {'l': [ast_to_json(x) for x in v]}
    if isinstance(v, dict):
        return {'d': [[ast_to_json(k), ast_to_json(x)] for k, x in v.items()]}
    return {'?': repr(v)}
