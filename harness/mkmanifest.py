#!/venv/bin/python
"""Regenerates MANIFEST.json from the property modules present under harness/props."""
import importlib
import json
import os
import sys

HERE = os.path.dirname(os.path.abspath(__file__))
sys.path.insert(0, HERE)
VERIF = os.path.dirname(HERE)

ids = [json.loads(l)['id'] for l in open(os.path.join(VERIF, 'properties.jsonl'))]
checks, na = [], []
for pid in ids:
    try:
        mod = importlib.import_module('props.' + pid.lower())
    except ModuleNotFoundError as e:
        if e.name != 'props.' + pid.lower():
            raise           # a dependency of the check is missing in this interpreter (run with /venv/bin/python): never drop a claim for that
        na.append({'property_id': pid, 'reason': 'check not built yet (see DESIGN.md section 6 for the planned model and theorems); not a claim that the technique cannot apply'})
        continue
    checks.append({
        'property_id': pid,
        'quick_cmd': './check %s --tier quick' % pid,
        'thorough_cmd': './check %s --tier thorough' % pid,
        'evidence_file': 'evidence/%s.json' % pid,
        'replay_cmd_template': './check %s --replay {path}' % pid,
        'engine': 'lean4-model+correspondence',
        'level_claimed': {'category': mod.LEVEL, 'text': mod.LEVEL_TEXT, 'design_ref': 'DESIGN.md section 6, ' + pid},
        'level_note': mod.LEVEL_NOTE,
        'technique': mod.TECHNIQUE,
    })
man = {
    'version': 1,
    'setup_cmd': 'cd lean && lake build Pysmi driver',
    'hooks': {
        'guard': 'ETINGOF_PYSMI_VERIF',
        'enable': 'no source hooks are needed: doubles are injected through public constructors/attributes and fault proxies are rebound at run time; checks set ETINGOF_PYSMI_VERIF=1 for uniformity',
        'baseline_off_cmd': 'cd /repo && /venv/bin/python -m pytest -ra -q -p no:cacheprovider --timeout=900 --continue-on-collection-errors',
        'source_commits': [],
        'add_only': True,
    },
    'engines': [{
        'name': 'lean4-model+correspondence',
        'path': 'lean/ (Lean 4 model, theorems, driver) + harness/ (translator, correspondence, oracles)',
        'serves_properties': [c['property_id'] for c in checks],
        'kind_free_text': 'machine-checked proof in Lean 4 about a hand-written executable model; tables regenerated from /repo on every run; model tied to /repo by differential correspondence through a JSON line protocol; oracle-driven search for a concrete failing input when a proof obligation or the correspondence breaks',
    }],
    'checks': checks,
    'not_applicable': na,
    'notes': 'fix: commits in /repo and known findings are listed in known_findings.json; see DESIGN.md section 7.',
}
with open(os.path.join(VERIF, 'MANIFEST.json'), 'w') as f:
    json.dump(man, f, indent=1)
print('MANIFEST.json: %d checks, %d not yet claimed' % (len(checks), len(na)))
