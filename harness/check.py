#!/venv/bin/python
"""./check <property-id> [--tier quick|thorough] [--replay PATH]

Exit 0: property held on everything explored.  Exit 1: a `VIOLATION property=<id> replay=<path>`
line was printed.  Exit 2: infrastructure failure (never a verdict).
"""
import argparse
import importlib
import json
import os
import random
import sys
import time
import traceback

sys.path.insert(0, os.path.dirname(os.path.abspath(__file__)))
import common  # noqa: E402
from common import Result, Lock  # noqa: E402


class Ctx:
    pass


def main():
    ap = argparse.ArgumentParser()
    ap.add_argument('pid')
    ap.add_argument('--tier', default=os.environ.get('VERIF_TIER') or 'quick')
    ap.add_argument('--replay')
    args = ap.parse_args()
    pid = args.pid.upper()
    tier = args.tier if args.tier in ('quick', 'thorough') else 'quick'
    try:
        seed = int(os.environ.get('VERIF_SEED', '0') or 0)
    except ValueError:
        seed = 0

    common.ensure_repo_on_path()
    mod = importlib.import_module('props.' + pid.lower())
    res = Result(pid, tier, seed)

    if args.replay:
        path = args.replay if os.path.isabs(args.replay) else os.path.join(common.VERIF, args.replay)
        with open(path) as f:
            payload = json.load(f)
        out = mod.replay(payload)
        print(json.dumps(out, indent=1, default=str))
        sys.exit(1 if out.get('fails') else 0)

    ctx = Ctx()
    ctx.res, ctx.tier, ctx.seed = res, tier, seed
    ctx.rng = random.Random(seed * 1000003 + 17)
    ctx.model = None
    broken = []          # names of theorems / pins / builds that no longer check

    # 1+2. translate and build
    with Lock():
        try:
            import translate
            tlog = translate.run()
            res.oblige('translate: Generated/*.lean rewritten from /repo', True, tlog)
        except Exception as e:  # translator cannot read the source: nothing is tied any more
            res.oblige('translate: Generated/*.lean rewritten from /repo', False, repr(e))
            broken.append('translate: ' + repr(e))
        ok, log = common.lake_build(mod.LAKE_TARGETS)
        res.oblige('lake build ' + ' '.join(mod.LAKE_TARGETS), ok, '' if ok else log[-3000:])
        if not ok:
            broken.append('lake build %s failed: %s' % (' '.join(mod.LAKE_TARGETS), log[-1500:]))
        dok, dlog = common.lake_build(['driver'])
        if dok:
            ctx.model = common.Model()
        else:
            res.oblige('lake build driver', False, dlog[-3000:])
            broken.append('lake build driver failed: ' + dlog[-1500:])
        # 3. audit
        hits = common.forbidden_scan()
        res.oblige('no sorry/admit/axiom/native_decide/bv_decide/implemented_by/unsafe in lean/', not hits, '; '.join(hits))
        if hits:
            broken.append('forbidden tokens: ' + '; '.join(hits))
        if ok:
            ax = common.audit_axioms(mod.MODULES, mod.THEOREMS)
            for t in mod.THEOREMS:
                a = ax.get(t)
                good = a is not None and set(a) <= common.ALLOWED_AXIOMS
                res.oblige('theorem %s (axioms: %s)' % (t, 'UNKNOWN' if a is None else ', '.join(a) or 'none'), good)
                if not good:
                    broken.append('theorem %s: axioms %s' % (t, a))
        else:
            for t in mod.THEOREMS:
                res.oblige('theorem %s' % t, False, 'build failed')

    # 3b. corpus: minimised failing inputs of earlier violations (seeded changes, repaired defects) are replayed first;
    # on a tree where the property holds every one of them passes
    cdir = os.path.join(common.VERIF, 'corpus', pid)
    n_corpus = 0
    if os.path.isdir(cdir) and hasattr(mod, 'replay'):
        for fn in sorted(os.listdir(cdir)):
            if not fn.endswith('.json'):
                continue
            try:
                entry = json.load(open(os.path.join(cdir, fn)))
                out = mod.replay({'input': entry['input'], 'key': entry.get('key')})
            except Exception as ex:
                res.notes.append('corpus entry %s could not be replayed: %r' % (fn, ex))
                continue
            n_corpus += 1
            if out.get('fails'):
                res.oracle_failures.append({'key': 'corpus/' + (entry.get('key') or '?'), 'what': 'corpus input %s (%s) fails again: %s' % (
                    fn, entry.get('origin', '?'), str(out.get('what', entry.get('what', '')))[:300]), 'input': entry['input']})
        res.count('corpus-replays', n_corpus)

    # 4+5. correspondence and oracle
    try:
        mod.run(ctx)
    except Exception as e:
        # the code under test behaved in a way the harness cannot digest (or the harness is at fault): either way the
        # property is no longer shown to hold on this tree - an unfulfilled obligation, followed by the search
        traceback.print_exc()
        last = traceback.format_exc().strip().split('\n')
        res.oblige('correspondence and oracle streams ran to completion', False, ' | '.join(last[-4:])[:1500])
        broken.append('the check could not complete its streams: %s: %s' % (type(e).__name__, str(e)[:300]))
    res.oblige('correspondence model vs implementation: no disagreement', not res.corr_failures,
               json.dumps(res.corr_failures[:2], default=str)[:1500])
    for c in res.corr_failures[:3]:
        broken.append('correspondence: ' + c.get('what', '?'))

    # 6. search on breakage
    known_keys_early = set(e['key'] for e in common.load_known_findings(pid) if e.get('status') == 'known')
    if broken and not [f for f in res.oracle_failures if f.get('key') not in known_keys_early] and hasattr(mod, 'search'):
        try:
            mod.search(ctx)
        except Exception:
            traceback.print_exc()

    # 7. known findings
    known = common.load_known_findings(pid)
    known_keys = {}
    for e in known:
        if e.get('status') == 'known':
            known_keys[e['key']] = e
    for e in known:
        if e.get('status') == 'known' and 'input' in e and hasattr(mod, 'replay'):
            try:
                out = mod.replay({'input': e['input'], 'key': e['key']})
            except Exception as ex:
                out = {'fails': True, 'what': 'replay raised %r' % ex}
            if out.get('fails'):
                line = 'KNOWN-FINDING: property=%s %s' % (pid, e['what'])
                print(line)
                res.known_printed.append(line)
            else:
                res.notes.append('known finding %s no longer reproduces' % e['key'])
        elif e.get('status') == 'fixed' and 'input' in e and hasattr(mod, 'replay'):
            try:
                out = mod.replay({'input': e['input'], 'key': e['key']})
            except Exception as ex:
                out = {'fails': True, 'what': 'replay raised %r' % ex}
            if out.get('fails'):
                res.oracle_failures.append({'key': e['key'] + '/returned', 'what': 'fixed finding returned: ' + e['what'],
                                            'input': e['input']})
    unlisted = [f for f in res.oracle_failures if f.get('key') not in known_keys]
    listed = [f for f in res.oracle_failures if f.get('key') in known_keys]
    for f in listed:
        line = 'KNOWN-FINDING: property=%s %s' % (pid, known_keys[f['key']]['what'])
        if line not in res.known_printed:
            print(line)
            res.known_printed.append(line)

    # 8. verdict + evidence
    violations = 0
    lines = []
    if unlisted:
        violations = len(unlisted)
        f = unlisted[0]
        rp = common.write_replay(pid, {'property': pid, 'kind': 'failing-input', 'key': f.get('key'),
                                       'what': f.get('what'), 'input': f.get('input'),
                                       'broken': broken, 'seed': seed, 'tier': tier,
                                       'others': [x.get('what') for x in unlisted[1:6]]})
        lines.append('VIOLATION property=%s replay=%s' % (pid, rp))
    elif broken:
        violations = 1
        rp = common.write_replay(pid, {'property': pid, 'kind': 'no-failing-input-found',
                                       'no_longer_checks': broken,
                                       'correspondence_diffs': res.corr_failures[:5],
                                       'seed': seed, 'tier': tier})
        lines.append('VIOLATION property=%s replay=%s no-failing-input-found' % (pid, rp))
    common.write_evidence(res, mod.LEVEL, mod.THEOREMS,
                          'cd lean && lake build %s driver && lake env lean <#print axioms …>  (run by ./check %s)' % (
                              ' '.join(mod.LAKE_TARGETS), pid),
                          mod.ASSUMPTIONS, violations)
    for l in lines:
        print(l)
    print('%s tier=%s seed=%d: %d obligations (%d discharged), %d cases (%d distinct non-trivial), '
          '%d correspondence diffs, %d oracle failures (%d unlisted), %.1fs' % (
              pid, tier, seed, len(res.obligations), sum(1 for o in res.obligations if o[1]),
              res.evaluations, len(res.distinct), len(res.corr_failures), len(res.oracle_failures),
              len(unlisted), time.time() - res.t0))
    sys.exit(1 if lines else 0)


if __name__ == '__main__':
    main()
