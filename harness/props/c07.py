"""C07 — compile() accounts for every module; statuses match effects; errors contained (decided on the Model/Compile.lean model of MibCompiler.compile)."""
from props import compile_common as cc

LEVEL = 'proof'
MODULES = ['Pysmi.Props.C07', 'Pysmi.Props.C07Accounted', 'Pysmi.Pins.Compile']
LAKE_TARGETS = ['Pysmi.Props.C07', 'Pysmi.Props.C07Accounted', 'Pysmi.Pins.Compile']
THEOREMS = [
    'Pysmi.Pins.Compile.pin_statuses',
    'Pysmi.Pins.Compile.pin_skeleton',
    'Pysmi.Compile.C07_total',
    'Pysmi.Compile.C07_one_status',
    'Pysmi.Compile.C07_failed_carry_error',
    'Pysmi.Compile.C07_put_once',
    'Pysmi.Compile.C07_written_iff_reported_partial',
    'Pysmi.Compile.inv_beforeGate',
    'Pysmi.Compile.C07_accounted_from',
    'Pysmi.Compile.C07_accounted',
    'Pysmi.Compile.gate_drained',
    'Pysmi.Compile.accCfg_aligned',
]
TECHNIQUE = 'Lean 4 theorems about a model of MibCompiler.compile over abstract component oracles; differential correspondence (status map + full call trace) against the real compile() driven by scripted doubles; oracle search'
LEVEL_TEXT = ("Proved in Lean for every configuration of component outcomes, import graph, option set (unbounded): compile returns whenever discovery terminates (C08) - every package error is consumed; distinct keys / one status each; failed entries carry the causing error; each module handed to the writer at most once with exactly its own generated/borrowed text; status compiled/borrowed iff the hand-over succeeded for modules with no stale earlier status (partial: the residue - a name that failed and was also obtained through another file - is a recorded finding). Every requested name and every name in the IMPORTS of every parsed module has a status in the result (C07_accounted: the pipeline invariant Acc is kept by every step of every phase, the working dictionaries are drained, and C08_closure settles the closure), under the hypothesis that every file holds the module it is named after; without that hypothesis C07_accounted_from still carries every name discovery settled to the result, and the residue (a requested alias that only names a file) is the recorded multi-module-file finding. The model is tied to compile() by differential runs comparing the full status map and call trace over scripted doubles.")
LEVEL_NOTE = ('Trusted: Lean kernel + standard axioms; the hand-written model of compile() (Model/Compile.lean), tied to '
              '/repo by the correspondence on every run; component doubles stand for readers/parser/generators/searchers/'
              'borrowers/writer (their real behaviour is the subject of other properties).')
ASSUMPTIONS = [
    'components signal failure only through the package error type (anything else propagates in code and is outside the property)',
    'component answers are functions of their arguments (scripted doubles)',
]


STATUSES = ('compiled', 'untouched', 'failed', 'unprocessed', 'missing', 'borrowed')
_WORD = None


def inject(rng, g, texts):
    """one defect into a generated module set: returns (kind, victim module, new texts).  Lexical, syntactic and
    semantic defects: a declaration dropped or duplicated, a name spelled differently at one of its occurrences (the
    definition or a reference: parent OIDs, SYNTAX types, OBJECTS / INDEX / AUGMENTS / DEFVAL / compliance names,
    IMPORTS symbols), an import removed, a whole module missing, a stray character, a truncated file."""
    import re
    global _WORD
    from gen import mibgen
    if _WORD is None:
        _WORD = re.compile(r"[A-Za-z][A-Za-z0-9-]*")
    out = dict(texts)
    if rng.random() < 0.5:
        # targeted: pick one reference of one kind (each kind equally likely) and break it at the definition, at the
        # place of use, in the IMPORTS clause, or by taking the providing module away
        refs = {}
        for mn, m in g.modules.items():
            def home(n):
                for frm, syms in m['imports'].items():
                    if n in syms:
                        return frm
                return mn
            for d in m['decls']:
                for p in d.get('oidparts') or []:
                    if p[0] == 'ref':
                        refs.setdefault('parent', []).append((mn, p[1], home(p[1])))
                sx = d.get('syntax')
                if isinstance(sx, dict) and sx.get('user'):
                    refs.setdefault('type', []).append((mn, sx['base'], home(sx['base'])))
                dv = d.get('defval')
                if dv and dv[0] == 'oid':
                    refs.setdefault('defval-oid', []).append((mn, dv[1], home(dv[1])))
                for o in d.get('objects') or []:
                    refs.setdefault('objects', []).append((mn, o['name'], home(o['name'])))
                for o in d.get('index') or []:
                    refs.setdefault('index', []).append((mn, o['name'], home(o['name'])))
                if d.get('augments'):
                    refs.setdefault('augments', []).append((mn, d['augments'], home(d['augments'])))
                for o in (d.get('mandatory') or []) + (d.get('conditional') or []):
                    refs.setdefault('group', []).append((mn, o['name'], home(o['name'])))
        refs = {k: [r for r in v if r[2] in g.modules] for k, v in refs.items()}
        refs = {k: v for k, v in refs.items() if v}
        if refs:
            rk = rng.choice(sorted(refs))
            foreign = [r for r in refs[rk] if r[0] != r[2]]
            user, name, prov = rng.choice(foreign if foreign and rng.random() < 0.7 else refs[rk])
            how = rng.choice(['definition', 'use', 'import', 'module'] if prov != user else ['definition', 'use'])
            new = ('zz' + name) if name[0].islower() else ('Zz' + name)
            if how == 'definition':
                t2, k = re.subn(r'(?m)^%s (?=[A-Z:])' % re.escape(name), new + ' ', texts[prov], count=1)
                if k:
                    out[prov] = t2
                    return 'ref-%s-undefined' % rk, prov, out
            elif how == 'use':
                segs = texts[user].split('"')
                spots = [(si, mo) for si in range(0, len(segs), 2)
                         for mo in re.finditer(r'(?<![A-Za-z0-9-])%s(?![A-Za-z0-9-])' % re.escape(name), segs[si])
                         if not (mo.start() == 0 or segs[si][mo.start() - 1] == '\n')]
                head = texts[user].find(';')
                spots = [x for x in spots if not (x[0] == 0 and x[1].start() < head)]
                if spots:
                    si, mo = rng.choice(spots)
                    segs[si] = segs[si][:mo.start()] + new + segs[si][mo.end():]
                    out[user] = '"'.join(segs)
                    return 'ref-%s-misspelled' % rk, user, out
            elif how == 'import':
                m = g.modules[user]
                imports = {f: [x for x in syms if not (f == prov and x == name)] for f, syms in m['imports'].items()}
                imports = {f: v for f, v in imports.items() if v}
                out[user] = mibgen.print_module(dict(m, imports=imports), __import__('random').Random(0))
                return 'ref-%s-not-imported' % rk, user, out
            else:
                del out[prov]
                return 'ref-%s-module-missing' % rk, prov, out
    victim = rng.choice(sorted(texts))
    t = texts[victim]
    kind = rng.choice(['respell', 'respell', 'respell', 'drop-decl', 'dup-decl', 'drop-import', 'missing-module', 'garbage', 'truncate', 'respell-import',
                       'defval-brackets', 'defval-swap', 'smi-spelling', 'append-decl', 'append-decl'])
    segs = t.split('"')

    def words():
        res = []
        for si in range(0, len(segs), 2):           # outside quoted texts
            for mo in _WORD.finditer(segs[si]):
                w = mo.group(0)
                if w not in mibgen.RESERVED and w not in ('DEFINITIONS', 'BEGIN', 'END', 'IMPORTS', 'FROM', 'OBJECT', 'IDENTIFIER', 'current',
                                                          'deprecated', 'obsolete') and not w.endswith('-MIB'):
                    res.append((si, mo.start(), mo.end(), w))
        return res
    if kind in ('respell', 'respell-import'):
        ws = words()
        if kind == 'respell-import':
            head = t.find(';')
            ws = [w for w in ws if w[0] == 0 and w[2] <= head] or ws
        if not ws:
            return 'none', victim, out
        si, a, b, w = rng.choice(ws)
        new = ('zz' + w if w[0].islower() else 'Zz' + w)
        segs[si] = segs[si][:a] + new + segs[si][b:]
        out[victim] = '"'.join(segs)
    elif kind in ('drop-decl', 'dup-decl'):
        m = g.modules[victim]
        if not m['decls']:
            return 'none', victim, out
        m2 = dict(m, decls=list(m['decls']))
        k = rng.randrange(len(m2['decls']))
        if kind == 'drop-decl':
            del m2['decls'][k]
        else:
            m2['decls'].insert(rng.randrange(len(m2['decls']) + 1), m2['decls'][k])
        out[victim] = mibgen.print_module(m2, __import__('random').Random(0))
    elif kind == 'drop-import':
        m = g.modules[victim]
        if not m['imports']:
            return 'none', victim, out
        frm = rng.choice(sorted(m['imports']))
        syms = list(m['imports'][frm])
        syms.pop(rng.randrange(len(syms)))
        imports = dict(m['imports'])
        if syms:
            imports[frm] = syms
        else:
            del imports[frm]
        out[victim] = mibgen.print_module(dict(m, imports=imports), __import__('random').Random(0))
    elif kind == 'missing-module':
        del out[victim]
    elif kind == 'append-decl':
        # a declaration the grammar accepts and the later passes must refuse in their own way: an OID value below a type,
        # an in-place SEQUENCE as SYNTAX, a type that is its own base (directly, or through a default that asks for its base)
        tnames = sorted(set(w for si, a, b, w in words() if w[0].isupper() and w not in mibgen.SMI_IMPORTABLE and not w.isupper()))
        decl = rng.choice([
            'ZzPlain9 ::= OCTET STRING zzBelowType OBJECT IDENTIFIER ::= { ZzPlain9 1 }',
            'zzBelowTc OBJECT IDENTIFIER ::= { %s 1 }' % (rng.choice(tnames) if tnames else 'DisplayString'),
            'zzInPlace OBJECT-TYPE SYNTAX SEQUENCE { zzCol Integer32 } MAX-ACCESS read-only STATUS current DESCRIPTION "x" ::= { mib-2 998 }',
            'ZzSelf ::= ZzSelf zzSelfObj OBJECT-TYPE SYNTAX ZzSelf MAX-ACCESS read-only STATUS current DESCRIPTION "x" DEFVAL { 1 } ::= { mib-2 997 }',
            'ZzA ::= ZzB ZzB ::= ZzA zzLoopObj OBJECT-TYPE SYNTAX ZzA MAX-ACCESS read-only STATUS current DESCRIPTION "x" DEFVAL { 1 } ::= { mib-2 996 }',
        ])
        end = t.rstrip().rfind('END')
        new = t[:end] + decl + '\n' + t[end:]
        semi = new.find(';')
        if decl.startswith('ZzSelf') and 'IMPORTS' in new[:semi if semi > 0 else 0]:
            # the type imported from the module itself: the symbol pass takes an imported name for granted
            new = new[:semi] + ' ZzSelf FROM %s' % victim + new[semi:]
        out[victim] = new
    elif kind == 'smi-spelling':
        # a type of the module renamed, at every occurrence, to a sloppy upper-case spelling of an SMI type: still one
        # consistent module, but the symbol table reads those names as the SMI types
        ws = sorted(set(w for si, a, b, w in words() if w[0].isupper() and w not in mibgen.SMI_IMPORTABLE and not w.isupper()))
        if not ws:
            return 'none', victim, out
        w = rng.choice(ws)
        new = rng.choice(['OPAQUE', 'COUNTER32', 'GAUGE32', 'TIMETICKS', 'IPADDRESS', 'UNSIGNED32'])
        out[victim] = '"'.join(re.sub(r'(?<![A-Za-z0-9-])%s(?![A-Za-z0-9-])' % re.escape(w), new, seg) if i % 2 == 0 else seg
                               for i, seg in enumerate(segs))
    elif kind in ('defval-brackets', 'defval-swap'):
        # a default that does not fit the object: wrapped in a second pair of braces, or taken from another object
        spots = [(si, mo) for si in range(0, len(segs), 2) for mo in re.finditer(r"DEFVAL \{ ([^{}]*) \}", segs[si])]
        spots = [(si, mo) for si, mo in spots if mo.group(1).strip()]
        if not spots:
            return 'none', victim, out
        si, mo = rng.choice(spots)
        if kind == 'defval-brackets':
            new = 'DEFVAL { { %s } }' % mo.group(1).strip().replace(' ', ', ')
        else:
            new = 'DEFVAL { %s }' % rng.choice(['zeroDotZero', 'unknownLabel', '-1', "'FFFF'H", "'1'B", '{ up, down }', '{ }', '99999999999', 'true'])
        segs[si] = segs[si][:mo.start()] + new + segs[si][mo.end():]
        out[victim] = '"'.join(segs)
    elif kind == 'garbage':
        k = rng.randrange(len(t) + 1)
        out[victim] = t[:k] + rng.choice(['\x00', '$', '?', '@', '\\', '~', '%', '&', '"', "'", '99999999999999999999999', '{', '}', ')', ';']) + t[k:]
    else:
        out[victim] = t[:rng.randrange(len(t))]
    return kind, victim, out


def defect_stream(ctx):
    """the real pipeline on generated module sets with one injected defect: compile() must return, every requested module
    has one of the six statuses, written = reported compiled, and (errors ignored) modules that do not depend on the
    defective one are compiled"""
    import random
    import re
    from gen import mibgen
    from impl import pipeline
    res = ctx.res
    n = 500 if ctx.tier == 'quick' else 6000
    for i in range(n):
        seed = ctx.seed * 100000 + 70000 + i
        rng = random.Random(seed)
        g = mibgen.SetGen(rng, n_modules=rng.choice([2, 3, 3]))
        g.exotic_defvals = True
        g.build()
        texts = {name: mibgen.print_module(m, random.Random(seed)) for name, m in g.modules.items()}
        kind, victim, bad = inject(rng, g, texts)
        ignore = (i % 3 != 0)
        opts = {'ignoreErrors': ignore, 'genTexts': i % 2 == 0}
        inp = {'texts': bad, 'requested': sorted(texts), 'options': opts, 'defect': kind, 'victim': victim, 'no_raise': True}
        res.case(('defect', kind, tuple(sorted(bad.items())), ignore), kind != 'none')
        res.count('defect:' + kind)
        try:
            st, out, comp = pipeline.compile_set(bad, requested=sorted(texts), **opts)
        except BaseException as e:
            if isinstance(e, (KeyboardInterrupt, SystemExit)):
                raise
            res.oracle_failures.append({'key': 'raises', 'what': 'compile() raised %s: %s for a module set with a %s defect in %s' % (
                type(e).__name__, str(e)[:120], kind, victim), 'input': inp})
            continue
        st = {k: str(v) for k, v in st.items()}
        for name in texts:
            # a file may turn out to hold a module of another name (the defect hit the header): the status is then
            # reported under the name the module gives itself
            inside = re.findall(r'([A-Za-z][A-Za-z0-9-]*)\s+DEFINITIONS\s*::=', bad.get(name, ''))
            if st.get(name) not in STATUSES and not (inside and all(st.get(x) in STATUSES for x in inside)):
                res.oracle_failures.append({'key': 'accounted', 'what': 'requested module %s has status %r (defect %s in %s)' % (name, st.get(name), kind, victim),
                                            'input': inp})
        for name in out:
            if st.get(name) not in ('compiled', 'borrowed'):
                res.oracle_failures.append({'key': 'written-iff-reported', 'what': '%s written but reported %s' % (name, st.get(name)), 'input': inp})
        for name, v in st.items():
            res.count('defect-status:' + v)
            if v == 'compiled' and name not in out:
                res.oracle_failures.append({'key': 'written-iff-reported', 'what': '%s reported compiled but not written' % name, 'input': inp})
        # modules whose import closure does not reach the defective module
        deps = {name: set(f for f in m['imports'] if f in g.modules) for name, m in g.modules.items()}
        reach = {}
        for name in deps:
            seen, todo = set(), [name]
            while todo:
                x = todo.pop()
                for y in deps.get(x, ()):
                    if y not in seen:
                        seen.add(y)
                        todo.append(y)
            reach[name] = seen
        if ignore and kind != 'none':
            for name in texts:
                if name != victim and victim not in reach[name] and st.get(name) != 'compiled':
                    res.oracle_failures.append({'key': 'bad-mib-drops-another', 'what': '%s does not depend on %s (defect: %s) but is reported %s' % (
                        name, victim, kind, st.get(name)), 'input': dict(inp, independent=name)})


def run(ctx):
    n = 1200 if ctx.tier == 'quick' else 12000
    cc.run_stream(ctx, 'C07', n, 600 if ctx.tier == 'quick' else 6000)
    defect_stream(ctx)


def search(ctx):
    cc.run_stream(ctx, 'C07', 6000, 3000)
    ctx.tier = 'thorough'
    defect_stream(ctx)


def replay(payload):
    return cc.replay_scenario('C07', payload)
