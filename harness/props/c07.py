"""C07 — compile() accounts for every module; statuses match effects; errors contained (decided on the Model/Compile.lean model of MibCompiler.compile)."""
from props import compile_common as cc

LEVEL = 'proof'
MODULES = ['Pysmi.Props.C07']
LAKE_TARGETS = ['Pysmi.Props.C07']
THEOREMS = [
    'Pysmi.Compile.C07_total',
    'Pysmi.Compile.C07_one_status',
    'Pysmi.Compile.C07_failed_carry_error',
    'Pysmi.Compile.C07_put_once',
    'Pysmi.Compile.C07_written_iff_reported_partial',
    'Pysmi.Compile.inv_beforeGate',
]
TECHNIQUE = 'Lean 4 theorems about a model of MibCompiler.compile over abstract component oracles; differential correspondence (status map + full call trace) against the real compile() driven by scripted doubles; oracle search'
LEVEL_TEXT = ("Proved in Lean for every configuration of component outcomes, import graph, option set (unbounded): compile returns whenever discovery terminates (C08) - every package error is consumed; distinct keys / one status each; failed entries carry the causing error; each module handed to the writer at most once with exactly its own generated/borrowed text; status compiled/borrowed iff the hand-over succeeded for modules with no stale earlier status (partial: the residue - a name that failed and was also obtained through another file - is a recorded finding). 'Every module of the import closure has a status' is not proved in Lean; it is decided by the oracle on every aligned scenario. The model is tied to compile() by differential runs comparing the full status map and call trace over scripted doubles.")
LEVEL_NOTE = ('Trusted: Lean kernel + standard axioms; the hand-written model of compile() (Model/Compile.lean), tied to '
              '/repo by the correspondence on every run; component doubles stand for readers/parser/generators/searchers/'
              'borrowers/writer (their real behaviour is the subject of other properties).')
ASSUMPTIONS = [
    'components signal failure only through the package error type (anything else propagates in code and is outside the property)',
    'component answers are functions of their arguments (scripted doubles)',
]


def run(ctx):
    n = 1200 if ctx.tier == 'quick' else 12000
    cc.run_stream(ctx, 'C07', n, 600 if ctx.tier == 'quick' else 6000)


def search(ctx):
    cc.run_stream(ctx, 'C07', 6000, 3000)


def replay(payload):
    return cc.replay_scenario('C07', payload)
