"""Shared corpus run for the code-generation properties (C01, C03, C04, C05, C06, C15, C16): generated
module sets -> real parser -> recording SymtableCodeGen -> JsonCodeGen and PySnmpCodeGen -> observations."""
import json
import random

from gen import mibgen
from impl import pipeline, recbuilder


def make_rec_symtab():
    from pysmi.codegen.symtable import SymtableCodeGen

    class RecSymtab(SymtableCodeGen):
        """logs what the symbol pass does, without changing it"""

        def __init__(self):
            SymtableCodeGen.__init__(self)
            self.log = []          # per genCode call: dict(module, avail, events, result)
            self.cur = None
            self.last_map = None

        def genImports(self, imports):
            r = SymtableCodeGen.genImports(self, imports)
            self.cur['avail'] = sorted(set(self._importMap) | set(self.baseTypes) |
                                       {'MibTable', 'MibTableRow', 'MibTableColumn'})
            return r

        def regSym(self, symbol, symProps, parents=()):
            # rows added to _rows since the previous registration were added while preparing this declaration
            # (the handlers table calls the base-class functions directly, so genConceptualTable cannot be overridden)
            new_rows = sorted(set(self._rows) - self.cur['seen_rows'])
            self.cur['seen_rows'] |= set(new_rows)
            self.cur['events'].append([symbol, list(parents), new_rows])
            return SymtableCodeGen.regSym(self, symbol, symProps, parents)

        def genCode(self, ast, symbolTable, **kwargs):
            self.last_map = symbolTable
            self.cur = {'module': ast[0], 'events': [], 'seen_rows': set(), 'avail': []}
            self.log.append(self.cur)
            try:
                info, tab = SymtableCodeGen.genCode(self, ast, symbolTable, **kwargs)
                self.cur['result'] = {'order': list(tab['_symtable_order'])}
                return info, tab
            except Exception as e:
                msg = str(e)
                self.cur['result'] = {'error': 'duplicate' if 'Duplicate symbol' in msg else
                                      'unknown' if 'Unknown parents for symbols' in msg else 'other:' + msg}
                raise
    return RecSymtab()


class Corpus:
    pass


def run_set(seed, wild=False, gen_texts=True, n_modules=None, size=None, backends=('json', 'pysnmp'), mutate=None, nasty=False,
            text_filter=None, chains=True, exotic_defvals=False, pysnmp_safe=False):
    """one generated module set through the pipeline; returns an observation dict"""
    rng = random.Random(seed)
    g = mibgen.SetGen(rng, n_modules=n_modules, size=size)
    g.nasty = nasty
    g.chains = chains
    g.exotic_defvals = exotic_defvals
    g.pysnmp_safe = pysnmp_safe
    g.build()
    if mutate:
        mutate(g, rng)
    texts = {n: mibgen.print_module(m, rng, wild=wild) for n, m in g.modules.items()}
    obs = {'seed': seed, 'gen': g, 'texts': texts, 'status': {}, 'json': {}, 'pysnmp': {}, 'symlog': [], 'symmap': None,
           'summary': {}}
    # how to draw this set again (replays regenerate the set and its ground truth from the seed: text and truth always
    # belong together, whatever has happened to the generator since the input was recorded)
    obs['run_set'] = None if (mutate or text_filter) else dict(wild=wild, gen_texts=gen_texts, n_modules=n_modules, size=size, backends=list(backends),
                                                               nasty=nasty, chains=chains, exotic_defvals=exotic_defvals, pysnmp_safe=pysnmp_safe)
    for be in backends:
        rec = make_rec_symtab()
        from pysmi.compiler import MibCompiler
        from pysmi.reader.callback import CallbackReader
        from pysmi.writer.callback import CallbackWriter
        from pysmi.searcher.stub import StubSearcher
        from pysmi.codegen.jsondoc import JsonCodeGen
        from pysmi.codegen.pysnmp import PySnmpCodeGen
        out = {}
        cg = JsonCodeGen() if be == 'json' else PySnmpCodeGen()
        comp = MibCompiler(pipeline.get_parser(), cg, CallbackWriter(lambda n, d, c: out.__setitem__(n, d)))
        comp._symbolgen = rec
        comp.addSources(CallbackReader(lambda n, c: texts.get(n) or pipeline.base_text(n) or ''))
        comp.addSearchers(StubSearcher(*PySnmpCodeGen.baseMibs))
        try:
            kw = {'textFilter': text_filter} if text_filter else {}
            res = comp.compile(*list(texts), genTexts=gen_texts, **kw)
            obs['raised_' + be] = None
        except Exception as e:     # anything escaping compile()
            res = {}
            obs['raised_' + be] = '%s: %s' % (type(e).__name__, e)
        obs['status'][be] = {k: str(v) for k, v in res.items()}
        obs['errors_' + be] = {k: str(getattr(v, 'error', '')) for k, v in res.items() if str(v) == 'failed'}
        if be == 'json':
            obs['symlog'] = rec.log
            obs['symmap'] = rec.last_map
            for k, v in out.items():
                try:
                    obs['json'][k] = json.loads(v)
                except Exception as e:
                    obs['json'][k] = {'__invalid_json__': str(e), '__text__': v}
            obs['summary'] = {k: {'oids': sorted(getattr(v, 'oids', ()) or ()), 'identity': getattr(v, 'identity', None),
                                  'enterprise': getattr(v, 'enterprise', None), 'compliance': list(getattr(v, 'compliance', ()) or ()),
                                  'revision': getattr(v, 'revision', None)}
                              for k, v in res.items() if str(v) == 'compiled'}
        else:
            obs['pysnmp_text'] = out
            for k, v in out.items():
                try:
                    b, ns = recbuilder.execute(v, k, load_texts=gen_texts)
                    obs['pysnmp'][k] = {'builder': b, 'ns': ns, 'error': None}
                except BaseException as e:
                    obs['pysnmp'][k] = {'builder': None, 'ns': None, 'error': '%s: %s' % (type(e).__name__, e)}
    return obs


class Interner:
    def __init__(self):
        self.d = {}

    def __call__(self, x):
        if x not in self.d:
            self.d[x] = len(self.d) + 1
        return self.d[x]


def oid_request(symmap, fuel=900):
    """model request resolving every OID-bearing symbol of every module of the cross-module table"""
    names, mods = Interner(), Interner()
    rows, queries, keys = [], [], []
    for m, tab in symmap.items():
        for sym, props in tab.items():
            if isinstance(props, dict) and 'oid' in props:
                parts = []
                for p in props['oid']:
                    if isinstance(p, tuple):
                        parts.append([names(p[0]), mods(p[1])])
                    else:
                        parts.append(int(p))
                rows.append([mods(m), names(sym), parts])
                queries.append([[names(sym), mods(m)]])
                keys.append((m, sym))
    return {'op': 'oid', 'iso': names('iso'), 'fuel': fuel, 'tables': rows, 'queries': queries}, keys


def symreg_request(entry):
    names = Interner()
    return {'op': 'symreg', 'avail': [names(a) for a in entry['avail']],
            'decls': [[names(n), [names(p) for p in ps], [names(r) for r in rs]] for n, ps, rs in entry['events']]}, names


def replay_regenerated(pid, inp, check, key=None):
    """re-draws the module set of a recorded failure from its seed and asks the oracle again; `check(ctx, obs)`"""
    import common

    class C:
        pass
    kw = dict(inp['run_set'])
    kw['backends'] = tuple(kw.get('backends') or ('json', 'pysnmp'))
    obs = run_set(inp['seed'], **kw)
    c = C()
    c.res = common.Result(pid, 'quick', 0)
    c.model, c.tier, c.defval_reqs, c.defval_metas = None, 'quick', None, None
    check(c, obs)
    fails = [f for f in c.res.oracle_failures if key in (None, f.get('key'))] or ([] if key else c.res.oracle_failures)
    return {'fails': bool(fails), 'what': [f['what'][:200] for f in fails[:5]]}
