"""C19 — borrowing only for modules that cannot be compiled, and verbatim (decided on the Model/Compile.lean model of MibCompiler.compile)."""
from props import compile_common as cc

LEVEL = 'proof'
MODULES = ['Pysmi.Props.C19']
LAKE_TARGETS = ['Pysmi.Props.C19']
THEOREMS = [
    'Pysmi.Compile.C19_borrowLoop_first',
    'Pysmi.Compile.C19_only_failed',
    'Pysmi.Compile.C19_requested_eligible',
    'Pysmi.Compile.C19_never_replaces',
    'Pysmi.Compile.C19_verbatim_borrow',
    'Pysmi.Compile.C19_verbatim_need',
]
TECHNIQUE = 'Lean 4 theorems about a model of MibCompiler.compile over abstract component oracles; differential correspondence (status map + full call trace) against the real compile() driven by scripted doubles; oracle search'
LEVEL_TEXT = ('Proved in Lean for every borrower list, flavour/outcome assignment and option set: borrowers tried in order up to the first that delivers, its record used unchanged; borrower calls only about names in the failed set after code generation and eligible; explicitly requested names always eligible; borrowing never touches built/processed of other modules; the delivered record reaches built verbatim with status borrowed (and by C09_store_calls the writer). Tied to compile() by the trace correspondence; real AnyFileBorrower/PyFileBorrower flavour and extension handling is exercised on scratch directories.')
LEVEL_NOTE = ('Trusted: Lean kernel + standard axioms; the hand-written model of compile() (Model/Compile.lean), tied to '
              '/repo by the correspondence on every run; component doubles stand for readers/parser/generators/searchers/'
              'borrowers/writer (their real behaviour is the subject of other properties).')
ASSUMPTIONS = [
    'components signal failure only through the package error type (anything else propagates in code and is outside the property)',
    'component answers are functions of their arguments (scripted doubles)',
]


def run(ctx):
    n = 1200 if ctx.tier == 'quick' else 12000
    cc.run_stream(ctx, 'C19', n, 300 if ctx.tier == 'quick' else 3000)


def search(ctx):
    cc.run_stream(ctx, 'C19', 6000, 3000)


def replay(payload):
    return cc.replay_scenario('C19', payload)
