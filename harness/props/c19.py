"""C19 — borrowing only for modules that cannot be compiled, and verbatim (decided on the Model/Compile.lean model of MibCompiler.compile)."""
from props import compile_common as cc

LEVEL = 'proof'
MODULES = ['Pysmi.Props.C19', 'Pysmi.Pins.Compile', 'Pysmi.Pins.SkelC19']
LAKE_TARGETS = ['Pysmi.Props.C19', 'Pysmi.Pins.Compile', 'Pysmi.Pins.SkelC19']
THEOREMS = [
    'Pysmi.Pins.SkelC19.pin_anyFileBorrower',
    'Pysmi.Pins.Compile.pin_statuses',
    'Pysmi.Pins.Compile.pin_skeleton',
    'Pysmi.Compile.C19_borrowLoop_first',
    'Pysmi.Compile.C19_only_failed',
    'Pysmi.Compile.C19_requested_eligible',
    'Pysmi.Compile.C19_never_replaces',
    'Pysmi.Compile.C19_verbatim_borrow',
    'Pysmi.Compile.C19_verbatim_need',
    'Pysmi.Borrower.C19_flavour',
    'Pysmi.Borrower.C19_flavour_complete',
]
TECHNIQUE = 'Lean 4 theorems about a model of MibCompiler.compile over abstract component oracles; differential correspondence (status map + full call trace) against the real compile() driven by scripted doubles; oracle search'
LEVEL_TEXT = ('Proved in Lean for every borrower list, flavour/outcome assignment and option set: borrowers tried in order up to the first that delivers, its record used unchanged; borrower calls only about names in the failed set after code generation and eligible; explicitly requested names always eligible; borrowing never touches built/processed of other modules; the delivered record reaches built verbatim with status borrowed (and by C09_store_calls the writer). Tied to compile() by the trace correspondence; real AnyFileBorrower/PyFileBorrower flavour and extension handling is exercised on scratch directories.')
LEVEL_NOTE = ('Trusted: Lean kernel + standard axioms; the hand-written model of compile() (Model/Compile.lean), tied to '
              '/repo by the correspondence on every run; component doubles stand for readers/parser/generators/searchers/'
              'borrowers/writer (their real behaviour is the subject of other properties).')
ASSUMPTIONS = [
    'components signal failure only through the package error type (anything else propagates in code and is outside the property)',
    'component answers are functions of their arguments (scripted doubles)',
]


def borrower_history(d, cls_name, flavour, own, order):
    """answers of ONE borrower object to a sequence of requests (genTexts values; 'absent' = option not passed)"""
    from pysmi.reader.localfile import FileReader
    from pysmi.borrower.pyfile import PyFileBorrower
    from pysmi.borrower.anyfile import AnyFileBorrower
    from pysmi import error
    b = {'PyFileBorrower': PyFileBorrower, 'AnyFileBorrower': AnyFileBorrower}[cls_name](FileReader(d), genTexts=flavour)
    if own is not None:
        b.setOptions(exts=own)
    out = []
    for g in order:
        try:
            info, data = b.getData('X-MIB', **({} if g == 'absent' else {'genTexts': g}))
            out.append({'ok': data[len('CONTENT'):]})
        except error.PySmiError:
            out.append('notFound')
    return out


def real_borrowers(ctx):
    """AbstractBorrower.getData on scratch directories: every flavour x genTexts value x extension variant."""
    import os
    import shutil
    from common import scratch_dir
    from pysmi.reader.localfile import FileReader
    from pysmi.borrower.pyfile import PyFileBorrower
    from pysmi.borrower.anyfile import AnyFileBorrower
    from pysmi import error
    res = ctx.res
    reqs, metas = [], []
    fresh = {}
    base = scratch_dir()
    try:
        layouts = [[], ['.py'], ['.json'], ['.py', '.json'], ['.txt'], ['']]
        for li, held in enumerate(layouts):
            d = os.path.join(base, 'l%d' % li)
            os.makedirs(d)
            for e in held:
                with open(os.path.join(d, 'X-MIB' + e), 'w') as f:
                    f.write('CONTENT' + e)
            for cls, own in ((PyFileBorrower, None), (AnyFileBorrower, ['.json']), (AnyFileBorrower, None)):
                for flavour in (True, False):
                    for g in ('absent', None, True, False):
                        b = cls(FileReader(d), genTexts=flavour)
                        if own is not None:
                            b.setOptions(exts=own)
                        # what the class stands for, not what its attribute happens to hold: Python files for the one, the
                        # bare module name (or the extensions it is given) for the other
                        own_exts = list(own) if own is not None else (['.py'] if cls is PyFileBorrower else [''])
                        opts = {} if g == 'absent' else {'genTexts': g}
                        try:
                            info, data = b.getData('X-MIB', **opts)
                            got = {'ok': data[len('CONTENT'):]}
                            verbatim = data.startswith('CONTENT')
                        except error.PySmiError:
                            got, verbatim = 'notFound', True
                        want_flavour = bool(False if g in ('absent', None) else g) == flavour
                        want = [e for e in own_exts if e in held]
                        res.case((li, cls.__name__, flavour, g), True)
                        res.count('real-borrower')
                        if got != 'notFound' and not want_flavour:
                            res.oracle_failures.append({'key': 'flavour', 'what': '%s(genTexts=%r) delivered for a request with genTexts=%r' % (
                                cls.__name__, flavour, g), 'input': {'real': [held, cls.__name__, flavour, g]}})
                        if want_flavour and want and got == 'notFound':
                            res.oracle_failures.append({'key': 'flavour', 'what': '%s(genTexts=%r) refused a matching request genTexts=%r' % (
                                cls.__name__, flavour, g), 'input': {'real': [held, cls.__name__, flavour, g]}})
                        if not verbatim:
                            res.oracle_failures.append({'key': 'verbatim', 'what': 'borrowed content altered', 'input': {'real': [held]}})
                        r = {'op': 'borrow', 'flavour': flavour, 'ownExts': own_exts, 'heldExts': held}
                        if g != 'absent':
                            r['genTexts'] = g
                        reqs.append(r)
                        metas.append(((held, cls.__name__, flavour, g), got))
                        fresh[(li, cls.__name__, flavour, repr(g))] = got
                    # one borrower object asked several times: an answer does not depend on what it was asked before
                    for order in (['absent', None, True, False], [False, True, None, 'absent'], [True, False, True], [False, True, False]):
                        hist = borrower_history(d, cls.__name__, flavour, own, order)
                        res.count('real-borrower-reused')
                        for pos, (g2, got2) in enumerate(zip(order, hist)):
                            if got2 != fresh[(li, cls.__name__, flavour, repr(g2))]:
                                res.oracle_failures.append({'key': 'borrower-history', 'what': '%s(genTexts=%r) asked %r after %r answers %r, a fresh one %r' % (
                                    cls.__name__, flavour, g2, order[:pos], got2, fresh[(li, cls.__name__, flavour, repr(g2))]),
                                    'input': {'real_history': [held, cls.__name__, flavour, own, [repr(x) for x in order]]}})
                                break
    finally:
        shutil.rmtree(base, ignore_errors=True)
    if ctx.model is not None:
        for (case, got), out in zip(metas, ctx.model.batch(reqs)):
            if out != got:
                res.corr_failures.append({'what': 'AbstractBorrower.getData differs from Model.Borrower.getData',
                                          'case': case, 'impl': got, 'model': out})


def run(ctx):
    real_borrowers(ctx)
    n = 1200 if ctx.tier == 'quick' else 12000
    cc.run_stream(ctx, 'C19', n, 300 if ctx.tier == 'quick' else 3000)


def search(ctx):
    cc.run_stream(ctx, 'C19', 6000, 3000)


def replay(payload):
    if 'real' in payload.get('input', {}) or 'real_history' in payload.get('input', {}):
        class C:
            pass
        import common
        ctx = C()
        ctx.res = common.Result('C19', 'quick', 0)
        ctx.model = None
        real_borrowers(ctx)
        return {'fails': bool(ctx.res.oracle_failures), 'what': [f['what'] for f in ctx.res.oracle_failures[:5]]}
    return cc.replay_scenario('C19', payload)
