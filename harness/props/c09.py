"""C09 — nothing is written when any module fails, unless errors are ignored (decided on the Model/Compile.lean model of MibCompiler.compile)."""
from props import compile_common as cc

LEVEL = 'proof'
MODULES = ['Pysmi.Props.C09', 'Pysmi.Props.C09Failure', 'Pysmi.Pins.Compile']
LAKE_TARGETS = ['Pysmi.Props.C09', 'Pysmi.Props.C09Failure', 'Pysmi.Pins.Compile']
THEOREMS = [
    'Pysmi.Pins.Compile.pin_statuses',
    'Pysmi.Pins.Compile.pin_skeleton',
    'Pysmi.Compile.C09_no_put_before_gate',
    'Pysmi.Compile.C09_gate',
    'Pysmi.Compile.C09_store_calls',
    'Pysmi.Compile.C09_store_status',
    'Pysmi.Compile.failed_reaches_gate',
    'Pysmi.Compile.C09_unrepaired_failure_blocks',
    'Pysmi.Compile.C09_generation_failure_blocks',
    'Pysmi.Compile.pending_discover',
    'Pysmi.Compile.C09_missing_module_blocks',
    'Pysmi.Compile.missCfg_hyps',
]
TECHNIQUE = 'Lean 4 theorems about a model of MibCompiler.compile over abstract component oracles; differential correspondence (status map + full call trace) against the real compile() driven by scripted doubles; oracle search'
LEVEL_TEXT = ('Proved in Lean for every configuration, graph, failure placement and option set: phases 1-5 never call the writer; if a failure survives borrowing and errors are not ignored there is no writer call at all and every built module is unprocessed; a name recorded as failed or missing when discovery ends, or a module whose code generation fails, that no borrower delivers does survive to the gate (C09_unrepaired_failure_blocks, C09_generation_failure_blocks), so the premise is stated on what went wrong, not on the internal state at the gate; and stated on the inputs alone (C09_missing_module_blocks): a requested module that no source has, that no file of any source contains under whatever name, and that no borrower delivers blocks every write when errors are not ignored - the invariant that its failure is recorded and never cleared is carried through the whole discovery loop; otherwise the writer calls are exactly one per built module, in order, with its text, and each ends compiled/borrowed/failed as the store step dictates. Tied to compile() by the trace correspondence.')
LEVEL_NOTE = ('Trusted: Lean kernel + standard axioms; the hand-written model of compile() (Model/Compile.lean), tied to '
              '/repo by the correspondence on every run; component doubles stand for readers/parser/generators/searchers/'
              'borrowers/writer (their real behaviour is the subject of other properties).')
ASSUMPTIONS = [
    'components signal failure only through the package error type (anything else propagates in code and is outside the property)',
    'component answers are functions of their arguments (scripted doubles)',
]


def run(ctx):
    n = 1200 if ctx.tier == 'quick' else 12000
    cc.run_stream(ctx, 'C09', n, 600 if ctx.tier == 'quick' else 6000)


def search(ctx):
    cc.run_stream(ctx, 'C09', 6000, 3000)


def replay(payload):
    return cc.replay_scenario('C09', payload)
