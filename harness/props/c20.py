"""C20 — command-line tools report and leave on disk exactly what happened."""
import itertools
import json
import os
import random
import re
import shutil
import subprocess
import sys
from concurrent.futures import ThreadPoolExecutor

import common
from common import HARNESS, REPO
from gen import mibgen

LEVEL = 'proof'
MODULES = ['Pysmi.Props.C20', 'Pysmi.Props.C07', 'Pysmi.Props.C13', 'Pysmi.Pins.SkelC20']
LAKE_TARGETS = ['Pysmi.Props.C20', 'Pysmi.Props.C07', 'Pysmi.Props.C13', 'Pysmi.Pins.SkelC20']
THEOREMS = ['Pysmi.Pins.SkelC20.pin_mibdumpScript', 'Pysmi.Pins.SkelC20.pin_mibcopyScript', 'Pysmi.Cli.C20_exit', 'Pysmi.Cli.C20_report', 'Pysmi.Cli.C20_report_once', 'Pysmi.Cli.C20_mibcopy_latest', 'Pysmi.Cli.C20_mibcopy_provenance',
            'Pysmi.Cli.C20_mibcopy_order_irrelevant', 'Pysmi.Cli.C20_mibcopy_dry_run', 'Pysmi.Cli.C20_mibcopy_dry_report', 'Pysmi.Cli.C20_mibcopy_dry', 'Pysmi.Cli.C20_mibcopy_epoch_witness', 'Pysmi.Cli.mibcopy_dst', 'Pysmi.Cli.C20_revision_latest', 'Pysmi.Cli.C20_revision_order_irrelevant', 'Pysmi.Cli.C20_later_edition_newer', 'Pysmi.Cli.C20_borrowers_in_order', 'Pysmi.Cli.C20_borrower_flavour',
            'Pysmi.Generated.Cli.pin_exit_codes', 'Pysmi.Generated.Cli.pin_absent_revision', 'Pysmi.Generated.Cli.C20_exit_generated', 'Pysmi.Generated.Cli.C20_index_guard', 'Pysmi.Generated.Cli.C20_run_generated',
            'Pysmi.Compile.C07_written_iff_reported_partial', 'Pysmi.Writer.C13_atomic', 'Pysmi.Writer.C13_dryrun']
TECHNIQUE = ('Lean 4 theorems about a model of mibdump\'s exit code and report as functions of the status map (exit codes regenerated from '
             'the script and pinned) and of mibcopy\'s copy loop as a fold with the script\'s revision cache (latest revision wins, provenance, '
             'independence of the visiting order by a commuting-update argument; the treatment of an absent destination is extracted from the '
             'script and pinned); the scripts are run as subprocesses on generated on-disk module sets: exit status, parsed report and '
             'destination listing are compared with the model fed with the status map of an in-process library run wired like the script, and '
             'mibcopy is run in every visiting order; theorems that the revision of a module is its latest REVISION clause (compared with the compiler\'s report on modules with 0-5 clauses in random order) and that the borrower repositories of a command line are filed in order with the flavour --generate-mib-texts has given the run before them (tied to the wiring of the library run)')
LEVEL_TEXT = ('Proved in Lean: exit status 0 iff no module is missing or failed; a module is reported under exactly the category of its '
              'status; after mibcopy\'s loop every module seen is in the destination with a revision at least as new as every source seen; a dry run of mibcopy leaves the destination alone and takes every copy / do-not-copy decision of the real run (C20_mibcopy_dry_run, C20_mibcopy_dry_report), '
              'what is stored is a file seen or what was there before, and the stored revision does not depend on the visiting order - for '
              'every list of sources and every initial destination (the script\'s cache is proved to mirror the destination); the revision of a module is the latest of its REVISION clauses in whatever order they stand (C20_revision_latest, C20_revision_order_irrelevant, C20_later_edition_newer: an edition with one clause later than all clauses of another is the newer one however it writes its history; compared with the compiler\'s report on generated modules). The files-on-disk '
              'part rests on C07_written_iff_reported and C13_atomic / C13_dryrun for the library. the borrower repositories of a command line are filed in order, each with the flavour --generate-mib-texts has given the run before it (C20_borrowers_in_order, C20_borrower_flavour; the library run is wired with exactly these). Exercised, not modelled (partial): the rest of option '
              'parsing, the wiring of readers / searchers / writers in the scripts, revision extraction through a JSON compile, os.walk order, '
              'shutil.copy.')
LEVEL_NOTE = 'Trusted: Lean kernel + standard axioms; translate.py (regular expressions over the scripts); the subprocess harness; the file system.'
ASSUMPTIONS = ['revision dates are after 1970 (the script maps a missing REVISION to the epoch)',
               'when several sources carry the same latest revision of a module any of them may end up in the destination']

PY = sys.executable
MIBDUMP = os.path.join(REPO, 'scripts', 'mibdump.py')
MIBCOPY = os.path.join(REPO, 'scripts', 'mibcopy.py')
BASE = os.path.join(HARNESS, 'basemibs')
CATS = [('compiled', r'(?:Would be c|C)reated/updated MIBs: (.*)'), ('borrowed', r'Pre-compiled MIBs (?:Would be )?borrowed: (.*)'),
        ('untouched', r'Up to date MIBs: (.*)'), ('missing', r'Missing source MIBs: (.*)'), ('unprocessed', r'Ignored MIBs: (.*)'),
        ('failed', r'Failed MIBs: (.*)')]


def run_cmd(args, cwd=None):
    env = dict(os.environ, PYTHONPATH=REPO, PYTHONHASHSEED='0')
    p = subprocess.run([PY] + args, stdout=subprocess.PIPE, stderr=subprocess.PIPE, env=env, cwd=cwd, text=True, timeout=300)
    return p.returncode, p.stderr


def parse_report(stderr):
    cats = {}
    for name, rx in CATS:
        m = re.search('^' + rx + '\r?$', stderr, re.M)
        if not m:
            cats[name] = None
            continue
        items = []
        body = m.group(1).strip()
        if body:
            # entries are separated by ", " but failed entries carry free text in parentheses
            depth, cur = 0, ''
            for ch in body:
                if ch == '(':
                    depth += 1
                if ch == ')':
                    depth -= 1
                if ch == ',' and depth == 0:
                    items.append(cur.strip())
                    cur = ''
                else:
                    cur += ch
            if cur.strip():
                items.append(cur.strip())
        cats[name] = [i.split(' ')[0] for i in items]
    return cats


def scenario(rng, root, idx):
    """an on-disk module set and a mibdump command line"""
    d = os.path.join(root, 's%d' % idx)
    src, dst, empty = os.path.join(d, 'src'), os.path.join(d, 'dst'), os.path.join(d, 'empty')
    for x in (src, dst, empty):
        os.makedirs(x)
    for b in os.listdir(BASE):
        shutil.copy(os.path.join(BASE, b), os.path.join(src, b))
    g = mibgen.SetGen(rng, n_modules=rng.choice([1, 2, 3]), size=rng.choice([3, 5]))
    g.pysnmp_safe = True
    g.build()
    names = list(g.modules)
    files = {}
    for n, m in g.modules.items():
        text = mibgen.print_module(m, rng)
        style = rng.choice(['exact', 'exact', 'lower-ext', 'ext'])
        fn = {'exact': n, 'lower-ext': n.lower() + '.mib', 'ext': n + '.txt'}[style]
        files[n] = fn
        with open(os.path.join(src, fn), 'w') as f:
            f.write(text)
    kinds = ['healthy', 'borrow', 'broken', 'missing', 'unknown-request', 'healthy', 'two-sources', 'borrow-dep', 'borrow', 'two-sources', 'borrow-dep',
             'missing-base', 'borrow-flavours']
    rng.choice(kinds)                       # (kept: the draw that used to pick the kind)
    kind = kinds[idx % len(kinds)]          # every kind in every run, whatever the seed
    requested = [names[-1]] if rng.random() < 0.5 else list(names)
    if kind == 'broken':
        victim = rng.choice(names)
        p = os.path.join(src, files[victim])
        t = open(p).read()
        open(p, 'w').write(t[:len(t) // 2])
    elif kind == 'missing' and len(names) > 1:
        os.remove(os.path.join(src, files[names[0]]))
    elif kind == 'unknown-request':
        requested = requested + ['ZZ-NOT-THERE-MIB']
    elif kind == 'missing-base':
        # a base module every SMIv2 module imports implicitly has no source: nothing is generated for base modules, but a
        # module that is missing is missing - the report says so and the exit status is not 0
        os.remove(os.path.join(src, 'SNMPv2-CONF'))
    sources = [src]
    if kind == 'two-sources':
        # an earlier repository holds an unparsable (or empty) copy of a module, a later one the healthy copy
        src0 = os.path.join(d, 'src0')
        os.makedirs(src0)
        victim = rng.choice(names)
        with open(os.path.join(src0, files[victim]), 'w') as f:
            f.write(rng.choice(['this is not a MIB ::= BEGIN $', '', open(os.path.join(src, files[victim])).read()[:40]]))
        sources = [src0, src]
    fmt = rng.choice(['json', 'json', 'pysnmp', 'null'])
    if kind == 'borrow':
        # a module without usable source that the borrower repository has pre-compiled; sometimes another one nobody has
        fmt = 'json'
        victim = names[0]
        os.remove(os.path.join(src, files[victim]))
        with open(os.path.join(empty, victim + '.json'), 'w') as f:
            f.write('{"borrowed": "%s"}' % victim)
        requested = list(names)
        if rng.random() < 0.6:
            requested.append('ZZ-NOT-THERE-MIB')
    borrowers = [(empty, False)]
    expect_copy = None
    if kind == 'borrow-flavours':
        # borrower repositories of both flavours: the one added before --generate-mib-texts holds copies without texts and is
        # passed over by a request for texts, of the ones added after it the first that holds the module delivers
        fmt = 'json'
        victim = names[0]
        os.remove(os.path.join(src, files[victim]))
        with open(os.path.join(empty, victim + '.json'), 'w') as f:
            f.write('{"borrowed": "%s", "from": "no-texts"}' % victim)
        requested = list(names)
        for k in (1, 2):
            bt = os.path.join(d, 'bt%d' % k)
            os.makedirs(bt)
            borrowers.append((bt, True))
            if rng.random() < (0.5 if k == 1 else 0.8):
                with open(os.path.join(bt, victim + '.json'), 'w') as f:
                    f.write('{"borrowed": "%s", "from": "texts-%d"}' % (victim, k))
                expect_copy = expect_copy or (victim, '{"borrowed": "%s", "from": "texts-%d"}' % (victim, k))
        if expect_copy is None:
            expect_copy = (victim, None)
    expect_missing = None
    if kind == 'borrow-dep' and len(names) > 1:
        # a dependency (not requested) without source that only the borrower repository holds, dependencies not being
        # compiled: it is neither compiled nor borrowed, so it must be reported missing
        fmt = 'json'
        victim = names[0]
        os.remove(os.path.join(src, files[victim]))
        with open(os.path.join(empty, victim + '.json'), 'w') as f:
            f.write('{"borrowed": "%s"}' % victim)
        requested = list(names[1:])
        seen, todo = set(), list(requested)
        while todo:
            x = todo.pop()
            if x in seen or x not in g.modules:
                continue
            seen.add(x)
            todo.extend(g.modules[x]['imports'])
            if victim in g.modules[x]['imports']:
                expect_missing = victim
    opts = []
    if kind == 'borrow-dep':
        opts.append('--no-dependencies')
    for o, p in (('--dry-run', 0.2), ('--no-mib-writes', 0.15), ('--ignore-errors', 0.3), ('--no-dependencies', 0.2), ('--rebuild', 0.3),
                 ('--generate-mib-texts', 0.3), ('--build-index', 0.15), ('--keep-texts-layout', 0.1)):
        if rng.random() < p and o not in opts:
            opts.append(o)
    if kind == 'borrow' and (idx // len(kinds)) % 2 == 0:
        # the all-or-nothing case with a borrowed module in it: another module is missing and errors are not ignored,
        # so nothing is written - the borrowed copy included - and the report must say so
        if 'ZZ-NOT-THERE-MIB' not in requested:
            requested.append('ZZ-NOT-THERE-MIB')
        opts = [o for o in opts if o not in ('--ignore-errors', '--dry-run', '--no-mib-writes', '--generate-mib-texts')]
    if fmt == 'pysnmp' and rng.random() < 0.5:
        opts.append('--no-python-compile')
    bargs = ['--mib-borrower=file://' + empty]
    if kind == 'borrow-flavours':
        opts = [o for o in opts if o != '--generate-mib-texts']
        bargs += ['--generate-mib-texts'] + ['--mib-borrower=file://' + b for b, _ in borrowers[1:]]
    args = [MIBDUMP] + ['--mib-source=file://' + x for x in sources] + bargs + ['--destination-format=' + fmt,
            '--destination-directory=' + dst] + opts + requested
    if kind == 'borrow-flavours':
        opts = opts + ['--generate-mib-texts']
    return {'borrowers': borrowers, 'expect_copy': expect_copy, 'dir': d, 'src': src, 'sources': sources, 'dst': dst, 'empty': empty, 'format': fmt, 'opts': opts, 'requested': requested, 'kind': kind, 'args': args,
            'names': names, 'expect_missing': expect_missing}


def mibdump_failures(sc, rc, err, inp):
    """what the report, the exit status and the destination of one mibdump run must satisfy; returns (failures, report
    categories or None when the report is unusable, whether the run was a refused --build-index)"""
    out = []
    cats = parse_report(err)
    if '--build-index' in sc['opts'] and sc['format'] == 'pysnmp':
        # the pysnmp generator cannot build an index: a usage error, before anything is compiled or written
        left = listing(sc['dst'], sc['format'])
        if rc != 64 or left:
            out.append({'key': 'build-index-unsupported-format', 'what': 'mibdump --build-index with format %s: exit %d, destination %s (expected usage error 64, nothing written): %s' % (
                sc['format'], rc, sorted(left), err[-200:].replace('\n', ' | ')), 'input': dict(inp, format=sc['format'], opts=sc['opts'])})
        return out, None, True
    if rc not in (0, 79):
        out.append({'key': 'exit-code', 'what': 'mibdump exited with %d and no report: %s' % (rc, err[-300:].replace('\n', ' | ')),
                    'input': dict(inp, format=sc['format'], opts=sc['opts'])})
        return out, None, False
    if any(v is None for v in cats.values()):
        out.append({'key': 'report', 'what': 'report lines missing from stderr: %s' % [k for k, v in cats.items() if v is None], 'input': inp})
        return out, None, False
    if sc.get('expect_missing') and sc['expect_missing'] not in cats['missing'] + [x.split(' ')[0] for x in cats['failed']]:
        out.append({'key': 'dependency-not-reported', 'what': 'with --no-dependencies the imported module %s has no source and is not '
                    'borrowed, yet it is reported neither missing nor failed: %s' % (sc['expect_missing'], {k: v for k, v in cats.items() if v}),
                    'input': inp})
    if sc.get('expect_copy'):
        victim, copy = sc['expect_copy']
        if copy is None:
            if victim not in cats['missing'] + [x.split(' ')[0] for x in cats['failed']]:
                out.append({'key': 'borrower-flavour', 'what': '%s has no source and no borrower of the requested flavour holds it, yet it is reported neither missing nor failed: %s' % (
                    victim, {k: v for k, v in cats.items() if v}), 'input': inp})
        elif '--dry-run' not in sc['opts'] and '--no-mib-writes' not in sc['opts'] and not ((cats['missing'] or cats['failed']) and '--ignore-errors' not in sc['opts']):
            p = os.path.join(sc['dst'], victim + '.json')
            got = open(p).read() if os.path.exists(p) else None
            if victim not in cats['borrowed'] or got != copy:
                out.append({'key': 'borrower-flavour', 'what': '%s is to be borrowed from the first repository added under --generate-mib-texts that holds it (%s); reported borrowed: %s, destination holds %r' % (
                    victim, copy, cats['borrowed'], got), 'input': inp})
    bad = (cats['missing'] or cats['failed'])
    if (rc == 0) != (not bad):
        out.append({'key': 'exit-code', 'what': 'exit status %d with missing=%s failed=%s' % (rc, cats['missing'], cats['failed']), 'input': inp})
    have = listing(sc['dst'], sc['format'])
    suffix = {'json': '.json', 'pysnmp': '.py', 'null': None}[sc['format']]
    want = set()
    if suffix and '--dry-run' not in sc['opts'] and '--no-mib-writes' not in sc['opts']:
        want = set(m + suffix for m in cats['compiled'] + cats['borrowed'])
    # the index is an artefact of its own, asked for with --build-index: allowed exactly then, and never under --dry-run
    index = set(f for f in have if f.startswith('index'))
    if index and ('--build-index' not in sc['opts'] or '--dry-run' in sc['opts']):
        out.append({'key': 'files', 'what': 'destination holds %s although %s' % (sorted(index), 'this is a dry run' if '--dry-run' in sc['opts'] else 'no index was asked for'),
                    'input': inp})
    if have - index != want:
        out.append({'key': 'files', 'what': 'destination holds %s, report says created/borrowed %s (options %s)' % (
            sorted(have - index), sorted(want), sc['opts']), 'input': inp})
    return out, cats, False


def library_statuses(sc):
    """the status map of an in-process library run wired as scripts/mibdump.py wires it (fresh destination)"""
    from pysmi.reader import getReadersFromUrls
    from pysmi.searcher import AnyFileSearcher, PyFileSearcher, PyPackageSearcher, StubSearcher
    from pysmi.borrower import AnyFileBorrower, PyFileBorrower
    from pysmi.writer import PyFileWriter, FileWriter, CallbackWriter
    from pysmi.parser import SmiV1CompatParser
    from pysmi.codegen import PySnmpCodeGen, JsonCodeGen, NullCodeGen
    from pysmi.compiler import MibCompiler
    dst = sc['dst'] + '-lib'
    os.makedirs(dst, exist_ok=True)
    fmt, opts = sc['format'], sc['opts']
    bl = sc.get('borrowers') or [(sc['empty'], False)]
    breaders = [(getReadersFromUrls('file://' + b, **dict(lowcaseMatching=False))[0], fl) for b, fl in bl]
    if fmt == 'pysnmp':
        borrowers = [PyFileBorrower(r, genTexts=fl) for r, fl in breaders]
        searchers = [PyFileSearcher(dst)] + [PyPackageSearcher(x) for x in PySnmpCodeGen.defaultMibPackages]
        searchers.append(StubSearcher(*[x for x in PySnmpCodeGen.baseMibs if x not in PySnmpCodeGen.fakeMibs]))
        cg = PySnmpCodeGen()
        wr = PyFileWriter(dst).setOptions(pyCompile='--no-python-compile' not in opts, pyOptimizationLevel=0)
    elif fmt == 'json':
        borrowers = [AnyFileBorrower(r, genTexts=fl).setOptions(exts=['.json']) for r, fl in breaders]
        searchers = [AnyFileSearcher(dst).setOptions(exts=['.json']), StubSearcher(*JsonCodeGen.baseMibs)]
        cg = JsonCodeGen()
        wr = FileWriter(dst).setOptions(suffix='.json')
    else:
        borrowers = [AnyFileBorrower(r, genTexts=fl) for r, fl in breaders]
        searchers = [StubSearcher(*NullCodeGen.baseMibs)]
        cg = NullCodeGen()
        wr = CallbackWriter(lambda *x: None)
    comp = MibCompiler(SmiV1CompatParser(tempdir=''), cg, wr)
    comp.addSources(*getReadersFromUrls(*['file://' + x for x in sc['sources']], **dict(fuzzyMatching=True)))
    comp.addSearchers(*searchers)
    comp.addBorrowers(*borrowers)
    res = comp.compile(*sc['requested'], **dict(noDeps='--no-dependencies' in opts, rebuild='--rebuild' in opts, dryRun='--dry-run' in opts,
                                                dstTemplate=None, genTexts='--generate-mib-texts' in opts,
                                                textFilter=('--keep-texts-layout' in opts) and (lambda s, t: t) or None,
                                                writeMibs='--no-mib-writes' not in opts, ignoreErrors='--ignore-errors' in opts))
    return [[k, str(v)] for k, v in res.items()]


def listing(dst, fmt):
    out = set()
    for dp, dn, fn in os.walk(dst):
        for f in fn:
            if f.endswith('.pyc') or '__pycache__' in dp:
                continue
            out.add(os.path.relpath(os.path.join(dp, f), dst))
    return out


class _RevTemplate(str):
    """the module text for a revision; the history of the module (REVISION clauses older than every generated revision) is written oldest
    first, latest first or not at all, as a function of the revision itself - so a replay needs the revision only"""
    OLDER = ['197001020000Z', '197006010000Z']

    def __mod__(self, d):
        d = dict(d)
        k = int(d['rev'][:-1]) % 3
        clause = ' REVISION "%s" DESCRIPTION "h"\n'
        d['before'] = ''.join(clause % r for r in self.OLDER[:k])                       # ascending history: the latest clause stands last
        d['after'] = ''.join(clause % r for r in reversed(self.OLDER)) if k == 0 and int(d['rev'][:-1]) % 2 else ''
        return str.__mod__(self, d)


REV_MIB = _RevTemplate('''%(name)s DEFINITIONS ::= BEGIN
IMPORTS MODULE-IDENTITY, enterprises FROM SNMPv2-SMI;
%(ident)s MODULE-IDENTITY LAST-UPDATED "%(rev)s" ORGANIZATION "o" CONTACT-INFO "c" DESCRIPTION "%(tag)s"
%(before)s REVISION "%(rev)s" DESCRIPTION "r"
%(after)s ::= { enterprises %(n)d }
END
''')
NOREV_MIB = '''%(name)s DEFINITIONS ::= BEGIN
IMPORTS enterprises FROM SNMPv2-SMI;
%(ident)s OBJECT IDENTIFIER ::= { enterprises %(n)d }
-- %(tag)s
END
'''


MULTIREV_MIB = '''REVS-%(n)d-MIB DEFINITIONS ::= BEGIN
IMPORTS MODULE-IDENTITY, enterprises FROM SNMPv2-SMI;
revsNode MODULE-IDENTITY LAST-UPDATED "%(last)s" ORGANIZATION "o" CONTACT-INFO "c" DESCRIPTION "d"
%(clauses)s ::= { enterprises %(a)d }
END
'''


def module_revision(stamps, n=1):
    """the revision the compiler reports (status.revision, what mibcopy compares) for a module whose REVISION clauses are `stamps`,
    in this order; as the number YYYYMMDDHHMM, None without a clause"""
    from impl import pipeline
    mn = 'REVS-%d-MIB' % n
    text = MULTIREV_MIB % {'n': n, 'a': 600 + n, 'last': (stamps or ['200001010000Z'])[-1],
                           'clauses': ''.join(' REVISION "%s" DESCRIPTION "r"\n' % x for x in stamps)}
    st, out, _ = pipeline.compile_set({mn: text}, backend='json')
    if str(st.get(mn)) != 'compiled':
        return 'not compiled: %s' % getattr(st.get(mn), 'error', st.get(mn))
    rev = getattr(st[mn], 'revision', None)
    if rev is None:
        return None
    m = re.match(r'(\d{4})-(\d\d)-(\d\d) (\d\d):(\d\d)$', rev)
    return int(''.join(m.groups())) if m else 'odd: %r' % (rev,)


def revision_stream(ctx):
    """modules with 0-5 REVISION clauses in random order (ten- and twelve-digit stamps): reported revision vs Cli.moduleRevision and vs
    the latest clause"""
    res, rng = ctx.res, ctx.rng
    reqs, metas = [], []
    for i in range(25 if ctx.tier == 'quick' else 400):
        k = rng.choice([0, 1, 2, 2, 3, 3, 4, 5])
        vals = []
        while len(vals) < k:
            v = (rng.randint(1971, 2030), rng.randint(1, 12), rng.randint(1, 28), rng.randint(0, 23), rng.randint(0, 59))
            if v not in vals:
                vals.append(v)
        if rng.random() < 0.3:
            vals.sort()                                     # a history written oldest first
        # (ten-digit stamps have a two-digit year of the 1900s)
        stamps = ['%02d%02d%02d%02d%02dZ' % ((v[0] - 1900,) + v[1:]) if v[0] < 2000 and rng.random() < 0.5 else '%04d%02d%02d%02d%02dZ' % v
                  for v in vals]
        want_all = [int('%04d%02d%02d%02d%02d' % v) for v in vals]
        got = module_revision(stamps, n=i)
        res.case(('module-revision', tuple(stamps)), k >= 2)
        res.count('module-revision:%d-clauses' % k)
        inp = {'revision_stamps': stamps, 'want': max(want_all) if want_all else None}
        if got != inp['want']:
            res.oracle_failures.append({'key': 'module-revision', 'what': 'a module with REVISION clauses %s is reported with revision %r; the latest is %r' % (
                stamps, got, inp['want']), 'input': inp})
        reqs.append({'op': 'cli', 'what': 'modrev', 'revs': want_all})
        metas.append((stamps, got))
    if ctx.model is not None:
        for (stamps, got), out in zip(metas, ctx.model.batch(reqs)):
            if out.get('rev') != got:
                res.corr_failures.append({'what': 'reported module revision differs from Cli.moduleRevision', 'stamps': stamps, 'impl': got, 'model': out.get('rev')})


def copy_scenario(rng, root, idx):
    d = os.path.join(root, 'c%d' % idx)
    dst0 = os.path.join(d, 'dst0')
    os.makedirs(dst0)
    mods = ['COPY-%s-MIB' % c for c in 'ABCD'[:rng.randint(1, 3)]]
    srcs = []           # (path, module name or None, revision int or None, tag)
    nsrc = rng.randint(2, 4)
    used_revs = {}
    for i in range(nsrc):
        sd = os.path.join(d, 'src%d' % i)
        os.makedirs(sd)
        name = rng.choice(mods)
        kind = rng.random()
        tag = 'file-%d-%d' % (idx, i)
        fn = rng.choice([name, name.lower() + '.mib', 'whatever%d.txt' % i])
        path = os.path.join(sd, fn)
        if kind < 0.12:
            open(path, 'w').write('this is not a MIB ::= BEGIN')
            srcs.append((path, None, None, tag))
            continue
        if kind < 0.3:
            open(path, 'w').write(NOREV_MIB % {'name': name, 'ident': 'copyNode%d' % i, 'n': 500 + i, 'tag': tag})
            srcs.append((path, name, None, tag))
            continue
        while True:
            year = rng.randint(1971, 2030)
            rev = '%04d%02d%02d%02d%02dZ' % (year, rng.randint(1, 12), rng.randint(1, 28), rng.randint(0, 23), rng.randint(0, 59))
            if rev not in used_revs.setdefault(name, set()):
                used_revs[name].add(rev)
                break
        open(path, 'w').write(REV_MIB % {'name': name, 'ident': 'copyNode%d' % i, 'n': 500 + i, 'tag': tag, 'rev': rev})
        srcs.append((path, name, int(rev[:-1]), tag))
    # sometimes the destination already holds a copy
    pre = {}
    if rng.random() < 0.4:
        name = rng.choice(mods)
        year = rng.randint(1971, 2030)
        rev = '%04d06150000Z' % year
        if rev not in used_revs.get(name, set()):
            tag = 'pre-%d' % idx
            open(os.path.join(dst0, name), 'w').write(REV_MIB % {'name': name, 'ident': 'copyPre', 'n': 499, 'tag': tag, 'rev': rev})
            pre[name] = (int(rev[:-1]), tag)
    # the --mib-source repository (used to resolve IMPORTS) sometimes holds a newer file named like a module being copied
    repo = os.path.join(d, 'repo')
    shutil.copytree(BASE, repo)
    if rng.random() < 0.5:
        name = rng.choice(mods)
        open(os.path.join(repo, name), 'w').write(REV_MIB % {'name': name, 'ident': 'copyRepo', 'n': 498, 'tag': 'repo-%d' % idx, 'rev': '203512310000Z'})
    return {'dir': d, 'dst0': dst0, 'srcs': srcs, 'pre': pre, 'repo': repo}


def tag_of(text):
    m = re.search(r'(file-\d+-\d+|pre-\d+)', text)
    return m.group(1) if m else None


def run(ctx):
    res, rng = ctx.res, ctx.rng
    res.rule = ('(i) mibdump as a subprocess on generated on-disk sets (healthy / truncated member / removed dependency / unknown requested '
                'name; files named exactly, lower-cased with extension, or with extension), formats json / pysnmp / null, options --dry-run '
                '--no-mib-writes --ignore-errors --no-dependencies --rebuild --generate-mib-texts --build-index --keep-texts-layout '
                '--no-python-compile: exit status and parsed report vs the Lean model fed with the status map of an in-process library run '
                'wired like the script; destination listing vs the report; usage errors; (ii) mibcopy on generated source files (modules '
                'with distinct revisions, without REVISION, unparseable files, file names unlike module names, pre-populated destination) '
                'in every order of the source arguments: destination vs the Lean fold and vs the latest-revision oracle; '
                'non-trivial = more than one module or source')
    root = common.scratch_dir('c20-')
    try:
        n = 39 if ctx.tier == 'quick' else 300
        scs = [dict(scenario(random.Random(ctx.seed * 1000 + 20000 + i), root, i), regen=[ctx.seed * 1000 + 20000 + i, i]) for i in range(n)]
        with ThreadPoolExecutor(max_workers=12) as ex:
            outs = list(ex.map(lambda sc: run_cmd(sc['args']), scs))
        reqs, metas = [], []
        for sc, (rc, err) in zip(scs, outs):
            res.case(('mibdump', tuple(sc['args'][3:])), len(sc['names']) > 1)
            res.count('mibdump:%s:%s' % (sc['format'], sc['kind']))
            for o in sc['opts']:
                res.count('opt:' + o)
            inp = {'args': sc['args'][1:], 'kind': sc['kind'], 'regen': sc['regen']}
            fails, cats, usage = mibdump_failures(sc, rc, err, inp)
            res.oracle_failures.extend(fails)
            if usage:
                res.count('mibdump:index-unsupported')
            if usage or cats is None:
                continue
            # the library wired the same way
            try:
                st = library_statuses(sc)
            except Exception as e:
                res.corr_failures.append({'what': 'in-process library run raised %s: %s' % (type(e).__name__, e), 'args': sc['args'][1:]})
                continue
            reqs.append({'op': 'cli', 'what': 'mibdump', 'statuses': st})
            metas.append(('mibdump', sc, rc, cats))
            # the flavours the library run was wired with are the ones the command line gives the repositories (Cli.borrowerFlavours)
            line = ['b:' + a[len('--mib-borrower=file://'):] if a.startswith('--mib-borrower=') else 'g' if a == '--generate-mib-texts' else 'o'
                    for a in sc['args'][1:] if a.startswith('--')]
            reqs.append({'op': 'cli', 'what': 'flavours', 'opts': line})
            metas.append(('flavours', sc, [[b, fl] for b, fl in sc['borrowers']], '--generate-mib-texts' in sc['opts']))
        # usage errors
        for args in ([MIBDUMP], [MIBDUMP, '--no-such-option', 'X-MIB'], [MIBDUMP, '--destination-format=yaml', 'X-MIB'], [MIBCOPY, 'only-one-argument'],
                     # a value no option of that kind takes is a mistake on the command line as well
                     [MIBDUMP, '--debug=nosuchflag', '--destination-format=null', 'X-MIB'],
                     [MIBDUMP, '--mib-borrower=gopher://h/@mib@', '--destination-format=null', 'X-MIB'],
                     [MIBDUMP, '--mib-source=gopher://h/@mib@', '--destination-format=null', 'X-MIB'],
                     [MIBDUMP, '--destination-format=json', '--mib-borrower=telnet://h/x', 'X-MIB']):
            rc, err = run_cmd(args)
            res.case(('usage', tuple(args[1:])), True)
            res.count('usage-errors')
            if rc != 64:
                res.oracle_failures.append({'key': 'usage', 'what': '%s exits with %d, expected 64' % (' '.join(args[1:]) or '(no arguments)', rc), 'input': {'args': args[1:]}})
        # (ii) mibcopy
        m = 20 if ctx.tier == 'quick' else 120
        jobs = []
        for i in range(m):
            cs = copy_scenario(random.Random(ctx.seed * 1000 + 21000 + i), root, i)
            perms = list(itertools.permutations(range(len(cs['srcs']))))
            if ctx.tier == 'quick' and len(perms) > 6:
                perms = random.Random(i).sample(perms, 6)
            for pi, perm in enumerate(perms):
                dst = os.path.join(cs['dir'], 'dst-%d' % pi)
                shutil.copytree(cs['dst0'], dst)
                as_dirs = (pi % 2 == 1)
                srcargs = [os.path.dirname(cs['srcs'][k][0]) if as_dirs else cs['srcs'][k][0] for k in perm]
                # the reporting switches change what is printed, never what is copied
                flags = [[], ['--quiet'], ['--verbose'], ['--quiet', '--verbose'], ['--ignore-errors'], ['--dry-run']][(i + pi) % 6]
                # the destination may be spelled in any way that names the directory
                dst_arg = [dst, dst + os.sep, os.path.join(os.path.dirname(dst), '.', os.path.basename(dst)),
                           os.path.join(dst, os.pardir, os.path.basename(dst))][(i + 2 * pi) % 4]
                jobs.append((cs, perm, dst, [MIBCOPY] + flags + ['--mib-source=file://' + cs['repo']] + srcargs + [dst_arg]))
        with ThreadPoolExecutor(max_workers=12) as ex:
            couts = list(ex.map(lambda j: run_cmd(j[3]), jobs))
        for (cs, perm, dst, args), (rc, err) in zip(jobs, couts):
            res.case(('mibcopy', tuple(args[2:])), len(cs['srcs']) > 1)
            res.count('mibcopy-runs')
            inp = {'sources': [(os.path.basename(p), n, r, t) for p, n, r, t in cs['srcs']], 'order': list(perm), 'pre': cs['pre'],
                   'flags': [a for a in args[1:] if a.startswith('--') and not a.startswith('--mib-source')],
                   'dst_spelling': args[-1][len(os.path.dirname(dst)):]}
            if rc != 0:
                res.oracle_failures.append({'key': 'mibcopy-exit', 'what': 'mibcopy exited with %d: %s' % (rc, err[-300:]), 'input': inp})
                continue
            got = {f: tag_of(open(os.path.join(dst, f)).read()) for f in os.listdir(dst)}
            if '--dry-run' in args:
                # a dry run reports and touches nothing: the destination holds what it held
                if got != {n: t for n, (r, t) in cs['pre'].items()}:
                    res.oracle_failures.append({'key': 'mibcopy-dry-run', 'what': 'mibcopy --dry-run left %r in the destination, which held %r' % (
                        got, {n: t for n, (r, t) in cs['pre'].items()}), 'input': inp})
                res.count('mibcopy-dry-runs')
                ids = {t: i + 1 for i, (p, n, r, t) in enumerate(cs['srcs'])}
                ids.update({t: 100 + i for i, (n, (r, t)) in enumerate(cs['pre'].items())})
                reqs.append({'op': 'cli', 'what': 'mibcopy', 'dry': True,
                             'dst': [[n, r, ids[t]] for n, (r, t) in cs['pre'].items()],
                             'srcs': [[cs['srcs'][k][1], cs['srcs'][k][2], ids[cs['srcs'][k][3]]] for k in perm if cs['srcs'][k][1] is not None]})
                metas.append(('mibcopy', cs, sorted((n, ids.get(t)) for n, t in got.items()), inp))
                continue
            seen = {}
            for p, n, r, t in cs['srcs']:
                if n is not None:
                    seen.setdefault(n, []).append((r or 0, t))
            for n, (r, t) in cs['pre'].items():
                seen.setdefault(n, []).append((r, t))
            for n, cands in seen.items():
                best = max(r for r, t in cands)
                ok_tags = set(t for r, t in cands if r == best)
                if n in cs['pre'] and cs['pre'][n][0] >= best:
                    ok_tags = {cs['pre'][n][1]}
                if got.get(n) not in ok_tags:
                    res.oracle_failures.append({'key': 'mibcopy-latest', 'what': 'destination holds %r for %s; the latest revision (%s) is in %s' % (
                        got.get(n), n, best, sorted(ok_tags)), 'input': inp})
                    break
            extra = set(got) - set(seen)
            if extra:
                res.oracle_failures.append({'key': 'mibcopy-extra', 'what': 'destination holds files for no module seen: %s' % sorted(extra), 'input': inp})
            # model: the fold over the sources in visiting order (file arguments only: directory walks visit in file-system order)
            ids = {t: i + 1 for i, (p, n, r, t) in enumerate(cs['srcs'])}
            ids.update({t: 100 + i for i, (n, (r, t)) in enumerate(cs['pre'].items())})
            reqs.append({'op': 'cli', 'what': 'mibcopy',
                         'dst': [[n, r, ids[t]] for n, (r, t) in cs['pre'].items()],
                         'srcs': [[cs['srcs'][k][1], cs['srcs'][k][2], ids[cs['srcs'][k][3]]] for k in perm if cs['srcs'][k][1] is not None]})
            metas.append(('mibcopy', cs, sorted((n, ids.get(t)) for n, t in got.items()), inp))
        if ctx.model is not None:
            for meta, out in zip(metas, ctx.model.batch(reqs)):
                if meta[0] == 'flavours':
                    _, sc, wired, asked = meta
                    res.count('model-flavours')
                    if out.get('borrowers') != wired or out.get('request') != asked:
                        res.corr_failures.append({'what': 'borrower flavours of the command line differ from Model.Cli.borrowerFlavours', 'args': sc['args'][1:],
                                                  'harness': [wired, asked], 'model': out})
                elif meta[0] == 'mibdump':
                    _, sc, rc, cats = meta
                    res.count('model-mibdump')
                    if out.get('exit') != rc or any(sorted(cats[k]) != out.get(k) for k in cats):
                        res.corr_failures.append({'what': 'mibdump exit status / report differ from Model.Cli fed with the library\'s status map',
                                                  'args': sc['args'][1:], 'script': {'exit': rc, 'report': cats}, 'model': out})
                else:
                    _, cs, got, inp = meta
                    res.count('model-mibcopy')
                    want = sorted((e[0], e[2]) for e in out.get('dst', []))
                    if want != got:
                        res.corr_failures.append({'what': 'destination after mibcopy differs from Model.Cli.mibcopy', 'input': inp, 'script': got, 'model': want})
        res.sample({'mibdump_args': scs[0]['args'][1:], 'stderr_tail': outs[0][1][-600:]})
    finally:
        shutil.rmtree(root, ignore_errors=True)
    revision_stream(ctx)


def search(ctx):
    ctx.tier = 'thorough'
    run(ctx)


def replay(payload):
    inp = payload['input']
    key = payload.get('key', '')
    if 'revision_stamps' in inp:
        got = module_revision(inp['revision_stamps'])
        return {'fails': got != inp['want'], 'what': 'reported revision %r' % (got,)}
    root = common.scratch_dir('c20r-')
    try:
        if 'regen' in inp and not key.startswith('mibcopy'):
            # a mibdump scenario is drawn again from its seed (module set, files, options) and judged again
            sc = scenario(random.Random(inp['regen'][0]), root, inp['regen'][1])
            rc, err = run_cmd(sc['args'])
            fails, cats, usage = mibdump_failures(sc, rc, err, {'args': sc['args'][1:], 'kind': sc['kind'], 'regen': inp['regen']})
            fails = [f for f in fails if f['key'] == key] or ([] if key else fails)
            return {'fails': bool(fails), 'what': [f['what'][:200] for f in fails[:3]]}
        if key.startswith('mibcopy'):
            dst = os.path.join(root, 'dst')
            os.makedirs(dst)
            files = []
            for i, (fn, name, rev, tag) in enumerate(inp['sources']):
                sd = os.path.join(root, 'src%d' % i)
                os.makedirs(sd)
                p = os.path.join(sd, fn)
                if name is None:
                    open(p, 'w').write('this is not a MIB ::= BEGIN')
                elif rev is None:
                    open(p, 'w').write(NOREV_MIB % {'name': name, 'ident': 'copyNode%d' % i, 'n': 500 + i, 'tag': tag})
                else:
                    open(p, 'w').write(REV_MIB % {'name': name, 'ident': 'copyNode%d' % i, 'n': 500 + i, 'tag': tag, 'rev': '%012dZ' % rev})
                files.append(p)
            pre = {n: tuple(v) for n, v in (inp.get('pre') or {}).items()}
            for n, (r, t) in pre.items():
                open(os.path.join(dst, n), 'w').write(REV_MIB % {'name': n, 'ident': 'copyPre', 'n': 499, 'tag': t, 'rev': '%012dZ' % r})
            spell = inp.get('dst_spelling') or os.sep + 'dst'
            dst_arg = root + spell.replace(os.sep + 'dst-', os.sep + 'dst', 1) if 'dst' in spell else dst
            dst_arg = re.sub(r'dst\d+', 'dst', dst_arg)
            rc, err = run_cmd([MIBCOPY] + list(inp.get('flags') or []) + ['--mib-source=file://' + BASE] + [files[k] for k in inp['order']] + [dst_arg])
            got = {f: tag_of(open(os.path.join(dst, f)).read()) for f in os.listdir(dst)}
            if '--dry-run' in (inp.get('flags') or []):
                return {'fails': got != {n: t for n, (r, t) in pre.items()}, 'what': got}
            seen = {}
            for fn, name, rev, tag in inp['sources']:
                if name is not None:
                    seen.setdefault(name, []).append((rev or 0, tag))
            for n, (r, t) in pre.items():
                seen.setdefault(n, []).append((r, t))
            for n, cands in seen.items():
                best = max(r for r, t in cands)
                ok_tags = set(t for r, t in cands if r == best)
                if n in pre and pre[n][0] >= best:
                    ok_tags = {pre[n][1]}
                if got.get(n) not in ok_tags:
                    return {'fails': True, 'what': 'destination holds %r for %s; the latest revision is in %s' % (got.get(n), n, sorted(ok_tags))}
            return {'fails': rc != 0 or bool(set(got) - set(seen))}
        if key == 'build-index-unsupported-format':
            src, dst, empty = (os.path.join(root, x) for x in ('src', 'dst', 'empty'))
            for x in (src, dst, empty):
                os.makedirs(x)
            for b in os.listdir(BASE):
                shutil.copy(os.path.join(BASE, b), os.path.join(src, b))
            open(os.path.join(src, 'ACME-X-MIB'), 'w').write('ACME-X-MIB DEFINITIONS ::= BEGIN IMPORTS enterprises FROM SNMPv2-SMI; acmeX OBJECT IDENTIFIER ::= { enterprises 89 } END')
            rc, err = run_cmd([MIBDUMP, '--mib-source=file://' + src, '--mib-borrower=file://' + empty, '--destination-format=' + inp['format'],
                               '--destination-directory=' + dst, '--build-index', 'ACME-X-MIB'])
            return {'fails': rc != 64 or bool(os.listdir(dst)), 'what': 'exit %d, destination %s' % (rc, os.listdir(dst))}
        if key == 'usage':
            rc, err = run_cmd([MIBDUMP if 'only-one-argument' not in inp['args'] else MIBCOPY] + inp['args'])
            return {'fails': rc != 64}
        return {'fails': False, 'what': 'replay needs the on-disk set: rerun the check with the recorded seed'}
    finally:
        shutil.rmtree(root, ignore_errors=True)
