"""Shared helpers for the lexer/parser properties (C02, C11, C17, C12): real lexer/parser adapters, model requests."""
import random

import grammar
from gen import mibgen

DIALECTS = {
    'smiV2': {},
    'smiV1': {'supportSmiV1Keywords': True, 'supportIndex': True},
    'smiV1Relaxed': {'supportSmiV1Keywords': True, 'supportIndex': True, 'commaAtTheEndOfImport': True,
                     'commaAtTheEndOfSequence': True, 'mixOfCommasAndSpaces': True, 'uppercaseIdentifier': True,
                     'lowcaseIdentifier': True, 'curlyBracesAroundEnterpriseInTrap': True, 'noCells': True},
}


def codepoints(text):
    return [ord(c) for c in text]


def impl_lex(text, variant):
    from pysmi.lexer.smi import lexerFactory
    from pysmi import error
    import ply.lex
    lexer = lexerFactory(**({'supportSmiV1Keywords': True} if variant == 'v1' else {}))()
    lx = lexer.lexer
    lx.input(text)
    toks = []
    try:
        while True:
            t = lx.token()
            if t is None:
                break
            toks.append([t.type, t.value if isinstance(t.value, int) else codepoints(t.value), t.lineno])
        return {'tokens': toks}
    except error.PySmiLexerError as e:
        return {'error': 'lexer', 'line': e.lineno}
    except ply.lex.LexError:
        return {'error': 'plylexerror', 'line': lx.lineno}


def impl_parse(export, text, parser=None):
    from pysmi import error
    p = parser or export['parser']
    try:
        return {'ast': grammar.ast_to_json(p.parse(text))}
    except error.PySmiParserError as e:
        return {'error': 'parser', 'line': e.lineno}
    except error.PySmiLexerError as e:
        return {'error': 'lexer', 'line': e.lineno}
    except BaseException as e:
        return {'error': 'other: %s: %s' % (type(e).__name__, e)}


def parse_request(export, text):
    return {'op': 'parse', 'key': export['key'], 'variant': export['lexer_variant'], 'text': codepoints(text)}


def gen_module_text(seed, wild=False, blocks=False, layout_seed=None, positions=None, nasty=False):
    rng = random.Random(seed)
    g = mibgen.SetGen(rng, n_modules=1)
    g.nasty = nasty
    g.build()
    name, m = list(g.modules.items())[0]
    text = mibgen.print_module(m, random.Random(seed if layout_seed is None else layout_seed), wild=wild, blocks=blocks,
                               positions=positions)
    return g, m, text


def decl_names(ast_json):
    """names of the declarations of the first module of a parsed file (canonical JSON form)"""
    def s(x):
        return ''.join(map(chr, x['s'])) if isinstance(x, dict) and 's' in x else x
    out = []
    try:
        mods = ast_json['l']
    except Exception:
        return None
    for mod in mods:
        decls = mod['t'][3]
        names = []
        for d in (decls or {}).get('l', []):
            if d is None:
                names.append(None)
            else:
                names.append(s(d['t'][1]))
        out.append((s(mod['t'][0]), names))
    return out
