"""Shared helpers for the lexer/parser properties (C02, C11, C17, C12): real lexer/parser adapters, model requests."""
import random
import re

import grammar
from gen import mibgen

DIALECTS = {
    'smiV2': {},
    'smiV1': {'supportSmiV1Keywords': True, 'supportIndex': True},
    'smiV1Relaxed': {'supportSmiV1Keywords': True, 'supportIndex': True, 'commaAtTheEndOfImport': True,
                     'commaAtTheEndOfSequence': True, 'mixOfCommasAndSpaces': True, 'uppercaseIdentifier': True,
                     'lowcaseIdentifier': True, 'curlyBracesAroundEnterpriseInTrap': True, 'noCells': True},
}


def codepoints(text):
    return [ord(c) for c in text]


def impl_lex(text, variant):
    from pysmi.lexer.smi import lexerFactory
    from pysmi import error
    import ply.lex
    lexer = lexerFactory(**({'supportSmiV1Keywords': True} if variant == 'v1' else {}))()
    lx = lexer.lexer
    lx.input(text)
    toks = []
    try:
        while True:
            t = lx.token()
            if t is None:
                break
            toks.append([t.type, t.value if isinstance(t.value, int) else codepoints(t.value), t.lineno])
        return {'tokens': toks}
    except error.PySmiLexerError as e:
        return {'error': 'lexer', 'line': e.lineno}
    except ply.lex.LexError:
        return {'error': 'plylexerror', 'line': lx.lineno}


PARSE_LIMIT_S = 10.0      # no text of the streams takes the parser more than a fraction of a second
_timeouts = [0]           # once two parses have run out of time, later ones get two seconds (keeps a run against such code finite)


class ParseTimeout(BaseException):
    pass


def _on_alarm(signum, frame):
    raise ParseTimeout()


def impl_parse(export, text, parser=None):
    """one parse by the real parser, bounded in time: a parse that does not come back within PARSE_LIMIT_S (for
    instance a token pattern that backtracks without end) is reported as such instead of hanging the check.  Because the
    clock is the wall clock (a loaded machine, a long garbage collection in a process holding gigabytes of parser tables),
    a parse that ran out of time is tried once more with twelve times the limit before it is called endless."""
    r = _bounded_parse(export, text, parser, PARSE_LIMIT_S if _timeouts[0] < 2 else 2.0)
    if r is None:
        r = _bounded_parse(export, text, parser, 12 * PARSE_LIMIT_S if _timeouts[0] < 2 else 4.0)
        if r is None:
            _timeouts[0] += 1
            return {'error': 'other: no result within %d s' % (12 * PARSE_LIMIT_S)}
    return r


def _bounded_parse(export, text, parser, limit):
    import signal
    import threading
    from pysmi import error
    p = parser or export['parser']
    timed = threading.current_thread() is threading.main_thread()
    if timed:
        old = signal.signal(signal.SIGALRM, _on_alarm)
        signal.setitimer(signal.ITIMER_REAL, limit)
    try:
        try:
            return {'ast': grammar.ast_to_json(p.parse(text))}
        finally:
            if timed:
                signal.setitimer(signal.ITIMER_REAL, 0)
    except ParseTimeout:
        try:
            p.reset()
        except Exception:
            pass
        return None
    except error.PySmiParserError as e:
        return {'error': 'parser', 'line': e.lineno}
    except error.PySmiLexerError as e:
        return {'error': 'lexer', 'line': e.lineno}
    except BaseException as e:
        return {'error': 'other: %s: %s' % (type(e).__name__, e)}
    finally:
        if timed:
            signal.signal(signal.SIGALRM, old)


def parse_request(export, text):
    return {'op': 'parse', 'key': export['key'], 'variant': export['lexer_variant'], 'text': codepoints(text)}


def gen_module_text(seed, wild=False, blocks=False, layout_seed=None, positions=None, nasty=False):
    rng = random.Random(seed)
    g = mibgen.SetGen(rng, n_modules=1)
    g.nasty = nasty
    g.names.digit_names = True          # parse-level streams only: the code generators have no spelling for such names
    g.build()
    name, m = list(g.modules.items())[0]
    text = mibgen.print_module(m, random.Random(seed if layout_seed is None else layout_seed), wild=wild, blocks=blocks,
                               positions=positions)
    return g, m, text


def decl_names(ast_json):
    """names of the declarations of the first module of a parsed file (canonical JSON form)"""
    def s(x):
        return ''.join(map(chr, x['s'])) if isinstance(x, dict) and 's' in x else x
    out = []
    try:
        mods = ast_json['l']
    except Exception:
        return None
    for mod in mods:
        decls = mod['t'][3]
        names = []
        for d in (decls or {}).get('l', []):
            if d is None:
                names.append(None)
            else:
                names.append(s(d['t'][1]))
        out.append((s(mod['t'][0]), names))
    return out


# ------------------------------------------------------------------------------------------------------------------
# ground truth for the tree: what the clauses of each generated declaration must look like in the parser's result

def plain(x):
    """canonical JSON form of a tree -> Python values (tuples stay tuples, lists lists, strings str)"""
    if isinstance(x, dict):
        if 's' in x:
            return ''.join(map(chr, x['s']))
        if 't' in x:
            return tuple(plain(v) for v in x['t'])
        if 'l' in x:
            return [plain(v) for v in x['l']]
        if 'd' in x:
            return [(plain(k), plain(v)) for k, v in x['d']]
        return {k: plain(v) for k, v in x.items()}
    return x


def _num(v):
    """numbers inside constraints may be written as hex / binary strings; the tree keeps the literal"""
    if isinstance(v, str):
        m = re.fullmatch(r"'([0-9a-fA-F]*)'[hH]", v)
        if m:
            return int(m.group(1) or '0', 16)
        m = re.fullmatch(r"'([01]*)'[bB]", v)
        if m:
            return int(m.group(1) or '0', 2)
    return v


def _oid(parts):
    out = []
    for p in parts:
        if p[0] == 'ref':
            out.append(p[1])
        elif p[0] == 'num':
            out.append(p[1])
        else:
            out.append((p[1], p[2]))
    return out


def _opt(tag, v):
    return (tag, v) if v else None


def _find(tree, tag):
    """first sub-tuple of `tree` whose head is `tag` (depth first)"""
    if isinstance(tree, tuple):
        if tree and tree[0] == tag:
            return tree
        for v in tree:
            r = _find(v, tag)
            if r is not None:
                return r
    return None


def structure_diffs(m, mod):
    """compare the tree of one module (plain form) with the generator's record of what it printed: import lists,
    OID values with their name(number) labels, status / access / units / reference / description arguments, revision
    lists, OBJECTS / NOTIFICATIONS / INDEX / AUGMENTS, MODULE clauses of compliances, enumerations, BITS, range and
    size lists, SEQUENCE members - every list in the order written.  Returns a list of differences."""
    out = []
    imports = [(frm, list(syms)) for frm, syms in m['imports'].items()]
    got_imports = mod[2] if mod[2] else []
    if isinstance(got_imports, tuple):
        got_imports = list(got_imports)
    if [(a, list(b)) for a, b in got_imports] != imports:
        out.append('IMPORTS %r, written %r' % (got_imports, imports))
    tree = {}
    for d in mod[3] or []:
        if d is not None:
            tree.setdefault(d[1], d)
    for gd in m['decls']:
        d = tree.get(gd['name'])
        if d is None:
            continue
        k = gd['kind']

        def want(what, got, exp):
            if got != exp:
                out.append('%s %s: tree has %r, written %r' % (gd['name'], what, got, exp))
        if 'oidparts' in gd:
            want('OID value', d[-1], ('objectIdentifier', _oid(gd['oidparts'])))
        if k == 'moduleIdentity':
            want('LAST-UPDATED', d[2], ('LAST-UPDATED', gd['lastUpdated']))
            want('ORGANIZATION', d[3], ('ORGANIZATION', gd['organization']))
            want('CONTACT-INFO', d[4], ('CONTACT-INFO', gd['contact']))
            want('DESCRIPTION', d[5], ('DESCRIPTION', gd['description']))
            want('REVISION list', d[6], _opt('Revisions', [(a, ('DESCRIPTION', b)) for a, b in gd['revisions']]))
        elif k == 'objectIdentity':
            want('STATUS', d[2], ('Status', gd['status']))
            want('DESCRIPTION', d[3], ('DESCRIPTION', gd['description']))
            want('REFERENCE', d[4], _opt('REFERENCE', gd['reference']))
        elif k == 'notificationType':
            want('OBJECTS', d[2], ('Objects', [o['name'] for o in gd['objects']]) if gd['objects'] else [])
            want('STATUS', d[3], ('Status', gd['status']))
            want('DESCRIPTION', d[4], ('DESCRIPTION', gd['description']))
        elif k in ('objectGroup', 'notificationGroup'):
            tag = 'Objects' if k == 'objectGroup' else 'Notifications'
            want(tag.upper(), d[2], (tag, [o['name'] for o in gd['objects']]))
            want('STATUS', d[3], ('Status', gd['status']))
            want('DESCRIPTION', d[4], ('DESCRIPTION', gd['description']))
        elif k == 'moduleCompliance':
            want('STATUS', d[2], ('Status', gd['status']))
            want('DESCRIPTION', d[3], ('DESCRIPTION', gd['description']))
            want('MODULE clauses', d[5], ('ComplianceModules', [(cl['module'], [g['name'] for g in cl['mandatory']] + [g['name'] for g in cl['conditional']])
                                                               for cl in gd['clauses']]))
        elif k == 'objectType':
            want('UNITS', d[3], _opt('UNITS', gd['units']))
            want('MAX-ACCESS', d[4], ('MaxAccessPart', gd['access']))
            want('STATUS', d[5], ('Status', gd['status']))
            want('DESCRIPTION', d[6], ('DESCRIPTION', gd['description']))
            want('REFERENCE', d[7], _opt('REFERENCE', gd['reference']))
            want('AUGMENTS', d[8], gd.get('augments') or None)
            want('INDEX', d[9], _opt('INDEX', [(1 if i['implied'] else 0, i['name']) for i in gd.get('index') or []]))
        elif k == 'sequenceDecl':
            seq = _find(d, 'SEQUENCE')
            want('SEQUENCE members', seq and [tuple(x) for x in seq[1]], [tuple(x) for x in gd['fields']])
        sx = gd.get('syntax')
        if isinstance(sx, dict):
            if 'enum' in sx:
                e = _find(d, 'enumSpec')
                want('enumeration', e and e[1], [tuple(x) for x in sx['enum']])
            if 'bits' in sx:
                e = _find(d, 'BITS')
                want('BITS', e and e[1], [tuple(x) for x in sx['bits']])
            if 'ranges' in sx:
                e = _find(d, 'integerSubType')
                want('range list', e and [tuple(_num(v) for v in r) for r in e[1]], [tuple(r) for r in sx['ranges']])
            if 'sizes' in sx:
                e = _find(d, 'octetStringSubType')
                want('SIZE list', e and [tuple(_num(v) for v in r) for r in e[1]], [tuple(r) for r in sx['sizes']])
    return out
