"""C17 — grammar relaxations only add accepted inputs and mean what they say."""
import json
import random
import common

import grammar
from gen import sentences as S
from props import parse_common as pc

LEVEL = 'proof'
MODULES = ['Pysmi.Props.C17', 'Pysmi.Props.C17Tables', 'Pysmi.Pins.Lex', 'Pysmi.Pins.SkelC17']
LAKE_TARGETS = ['Pysmi.Props.C17', 'Pysmi.Pins.Lex', 'Pysmi.Pins.SkelC17']
SINGLES = ['supportSmiV1Keywords', 'commaAtTheEndOfImport', 'commaAtTheEndOfSequence', 'mixOfCommasAndSpaces', 'uppercaseIdentifier',
           'lowcaseIdentifier', 'curlyBracesAroundEnterpriseInTrap', 'noCells']
THEOREMS = (['Pysmi.Pins.SkelC17.pin_parserFactory', 'Pysmi.Pins.SkelC17.pin_lexerFactory', 'Pysmi.Grammar.C17_false_option_ignored', 'Pysmi.Grammar.C17_unknown_rejected', 'Pysmi.Grammar.C17_known_accepted', 'Pysmi.Grammar.C17_factory_order_irrelevant', 'Pysmi.Generated.Grammar.C17_factories_false_ignored', 'Pysmi.Grammar.C17_simulation_sound', 'Pysmi.Grammar.simAll_map', 'Pysmi.Grammar.C17_option_order_irrelevant',
             'Pysmi.Generated.Grammar.C17_monotone_single', 'Pysmi.Generated.Grammar.C17_monotone_to_relaxed',
             'Pysmi.Generated.Grammar.C17_monotone_dialects', 'Pysmi.Generated.Grammar.C17_relaxed_is_larger',
             'Pysmi.Generated.Grammar.C17_options_disjoint', 'Pysmi.Generated.Grammar.C17_parser_order_irrelevant',
             'Pysmi.Generated.Grammar.C17_unknown_option',
             'Pysmi.LR.C17_tree_derivable', 'Pysmi.LR.C17_accept_monotone',
             'Pysmi.Lexer.C17_lexer_monotone', 'Pysmi.Lexer.C17_parse_same_lexer_option',
             'Pysmi.LR.C02_lr_sound', 'Pysmi.LR.C11_accept_means_complete'] +
            ['Pysmi.Generated.Grammar.sim_smiV2_%s' % o for o in SINGLES] +
            ['Pysmi.Generated.Grammar.sim_%s_smiV1Relaxed' % o for o in SINGLES] +
            ['Pysmi.Generated.Grammar.sim_smiV2_smiV1', 'Pysmi.Generated.Grammar.sim_smiV1_smiV1Relaxed'])
TECHNIQUE = ('Lean 4 theorems: a decidable production-by-production simulation between grammars implies inclusion of everything derivable '
             '(sentential forms of any length); the simulation is evaluated by the kernel on the production lists regenerated from the parser '
             'classes on every run (strict -> each single relaxation -> all relaxations; smiV2 -> smiV1 -> smiV1Relaxed); lexer theorem: both '
             'lexer variants scan every text without the two added words identically (tables regenerated); class-synthesis theorem: option '
             'order is irrelevant because no member is replaced by two options; accepted text => derivable in every simulating grammar. '
             'Tree identity under the larger LALR tables and the documented breakages are tied by correspondence (model LR run on the '
             'exported tables vs real parser) and by grammar-directed sentence generation covering every production')
LEVEL_TEXT = ('Proved in Lean for token strings of every length: everything derivable in the strict grammar is derivable with any single '
              'relaxation switched on, everything derivable with one relaxation is derivable with all of them, and smiV2 <= smiV1 <= '
              'smiV1Relaxed (kernel-evaluated simulation on the regenerated productions + soundness theorem); a text accepted by parse under '
              'the strict lexer is, for every grammar simulating the tables\' grammar, still a sentence after scanning with the SMIv1-keyword '
              'lexer unless it contains MAX or NetworkAddress; the synthesised class is independent of keyword order; an option passed as false - known or not, anywhere among the keyword arguments - is an option not passed, a true unknown option is rejected, true known ones are accepted (factory model: C17_false_option_ignored, C17_unknown_rejected, C17_known_accepted, C17_factory_order_irrelevant; tied by random keyword lists against the members of the real class); both factories know the '
              'same nine option names. NOT proved: that PLY\'s LALR tables for the larger grammar produce the identical tree (no proof of LALR '
              'construction / conflict resolution), and the simulation for arbitrary subsets other than the chains above: both are covered by '
              'correspondence and by the oracle over generated option subsets and orders (partial). The documented breakages are checked by '
              'the oracle at every applicable position of generated modules.')
LEVEL_NOTE = ('Trusted: Lean kernel + standard axioms; the translator (grammar.py / translate.py: productions and option tables read from the '
              'classes parserFactory builds, lexer word tables); hand-written lexer model pinned to the regenerated rule table; PLY table '
              'construction; CPython re.')
ASSUMPTIONS = ['texts using a word the larger dialect reserves (MAX, NetworkAddress) are outside the property, as its statement says',
               'supportIndex alone does not build a parser (its productions mention the NetworkAddress token); it is exercised together with '
               'supportSmiV1Keywords']

ALL_OPTIONS = grammar.OPTIONS
RESERVED_BY_V1 = ('MAX', 'NetworkAddress')


def try_build(opts):
    import ply.yacc
    try:
        return grammar.build(opts)
    except ply.yacc.YaccError:
        return None


def tokens_pos(text, variant='v1'):
    from pysmi.lexer.smi import lexerFactory
    lx = lexerFactory(**({'supportSmiV1Keywords': True} if variant == 'v1' else {}))().lexer
    lx.input(text)
    out = []
    while True:
        t = lx.token()
        if t is None:
            break
        v = t.value if isinstance(t.value, str) else None
        out.append((t.type, t.value, t.lexpos, t.lexpos + (len(v) if v is not None else len(str(t.value)))))
    return out


def splice(text, start, end, new):
    return text[:start] + new + text[end:]


def switched_off(on):
    """differences between factory(options in `on` true) and factory(those true, every other known option false)"""
    from pysmi.parser.smi import parserFactory
    from pysmi.lexer.smi import lexerFactory
    plain = {o: True for o in on}
    full = dict({o: False for o in ALL_OPTIONS}, **plain)
    diffs = []

    def table(inst):
        lr = inst.parser
        return ([(pr.name, tuple(getattr(pr, 'prod', ())), pr.func if isinstance(pr.func, str) else getattr(pr.func, '__name__', None))
                 for pr in lr.productions], {st: dict(a) for st, a in lr.action.items()}, {st: dict(g) for st, g in lr.goto.items()})
    import ply.yacc

    def built(kw):
        try:
            return table(parserFactory(**kw)())
        except ply.yacc.YaccError:
            return 'no parser can be built from this grammar'        # (some single options need another one: not this check's business)
    try:
        a, b = built(plain), built(full)
        if a != b:
            extra = sorted(set(b[0]) - set(a[0]))[:3] if isinstance(a, tuple) and isinstance(b, tuple) else [str(a)[:60], str(b)[:60]]
            diffs.append('parserFactory: grammar differs (productions only with the false options: %r)' % (extra,))
    except BaseException as e:
        diffs.append('parserFactory raised %s: %s' % (type(e).__name__, e))
    try:
        la, lb = lexerFactory(**plain)(), lexerFactory(**full)()
        for attr in ('reserved', 'tokens', 'forbidden_words'):
            if getattr(la, attr, None) != getattr(lb, attr, None):
                diffs.append('lexerFactory: %s differs' % attr)
    except BaseException as e:
        diffs.append('lexerFactory raised %s: %s' % (type(e).__name__, e))
    return diffs


def factory_stream(ctx):
    """the factories' keyword handling against Model.Grammar.factory: random keyword lists (known and unknown names, true and
    false, any order); the class is observed through the members its own __dict__ carries"""
    from pysmi import error
    import pysmi.parser.smi as ps
    import pysmi.lexer.smi as ls
    res, rng = ctx.res, ctx.rng
    reqs, metas = [], []
    bogus = ['bogus', 'NoCells', 'supportsmiv1keywords', 'x']
    for i in range(300 if ctx.tier == 'quick' else 3000):
        which = ('parser', 'lexer')[i % 2]
        mod = ps if which == 'parser' else ls
        pool = list(ALL_OPTIONS) + (bogus if rng.random() < 0.4 else [])
        names = rng.sample(pool, rng.randint(0, min(len(pool), 6)))
        kw = [(n, rng.random() < 0.6) for n in names]
        if which == 'parser':
            # the parser factory builds a lexer from the same options: keep lexer construction out of the comparison
            saved, ps.lexerFactory = ps.lexerFactory, (lambda **k: None)
        try:
            try:
                cls = (ps.parserFactory if which == 'parser' else ls.lexerFactory)(**dict(kw))
                table = mod.relaxedGrammar
                owner = {}
                for o, funcs in table.items():
                    for f in funcs:
                        owner[f.__name__] = o
                got = {'ok': sorted([m, owner[m]] for m in cls.__dict__ if m in owner)}
            except error.PySmiError as e:
                bad = [n for n, v in kw if v and n not in mod.relaxedGrammar]
                got = {'error': bad[0] if bad and bad[0] in str(e) else '?' + str(e)}
            except BaseException as e:
                got = {'raised': type(e).__name__}
        finally:
            if which == 'parser':
                ps.lexerFactory = saved
        res.case(('factory', which, tuple(kw)), any(not v for n, v in kw) or any(n in bogus for n, v in kw))
        res.count('factory:' + ('ok' if 'ok' in got else 'error'))
        reqs.append({'op': 'factory', 'which': which, 'kw': [[n, v] for n, v in kw]})
        metas.append((which, kw, got))
    if ctx.model is not None:
        for (which, kw, got), out in zip(metas, ctx.model.batch(reqs)):
            if 'ok' in out:
                out = {'ok': sorted(out['ok'])}
            if out != got:
                res.corr_failures.append({'what': '%sFactory(**kw) differs from Model.Grammar.factory' % which, 'kw': kw, 'impl': got, 'model': out})


def breakages(text):
    """yield (option, kind, malformed text, expected leaf changes) for every applicable position of a plain module text.
    expected: list of (old, new) leaf replacements the tree may show w.r.t. the unmodified text's tree (empty = identical)."""
    toks = tokens_pos(text)
    n = len(toks)
    for i, (ty, val, a, b) in enumerate(toks):
        # trailing comma at the end of an import list
        if ty == 'FROM' and i > 0 and toks[i - 1][0] != ',':
            yield 'commaAtTheEndOfImport', 'import-trailing-comma', splice(text, a, a, ', '), []
        # trailing comma at the end of a SEQUENCE
        if ty == 'SEQUENCE' and i + 1 < n and toks[i + 1][0] == '{':
            j = i + 2
            while j < n and toks[j][0] != '}':
                j += 1
            if j < n:
                yield 'commaAtTheEndOfSequence', 'sequence-trailing-comma', splice(text, toks[j][2], toks[j][2], ', '), []
        # enumerations: INTEGER { a(1), b(2) }
        if ty == '{' and i > 0 and toks[i - 1][0] in ('INTEGER', 'INTEGER32', 'UPPERCASE_IDENTIFIER') and i + 2 < n \
                and toks[i + 1][0] == 'LOWERCASE_IDENTIFIER' and toks[i + 2][0] == '(' and (i < 2 or toks[i - 2][0] != 'COLON_COLON_EQUAL' or True):
            if toks[i - 1][0] == 'UPPERCASE_IDENTIFIER' and (i < 2 or toks[i - 2][0] not in ('SYNTAX', 'COLON_COLON_EQUAL', 'OF')):
                continue
            j = i + 1
            while j < n and toks[j][0] != '}':
                if toks[j][0] == ',':
                    yield 'mixOfCommasAndSpaces', 'enum-comma-to-space', splice(text, toks[j][2], toks[j][3], ' '), []
                if toks[j][0] == 'LOWERCASE_IDENTIFIER' and toks[j + 1][0] == '(':
                    new = 'Q' + toks[j][1]
                    yield 'uppercaseIdentifier', 'enum-uppercase-label', splice(text, toks[j][2], toks[j][3], new), [(toks[j][1], new)]
                j += 1
            if j < n:
                yield 'mixOfCommasAndSpaces', 'enum-trailing-comma', splice(text, toks[j][2], toks[j][2], ', '), []
        # notification names starting with a capital
        if ty == 'NOTIFICATION_TYPE' and i > 0 and toks[i - 1][0] == 'LOWERCASE_IDENTIFIER':
            old = toks[i - 1][1]
            new = 'Q' + old
            yield 'lowcaseIdentifier', 'notification-uppercase-name', splice(text, toks[i - 1][2], toks[i - 1][3], new), [(old, new)]
        # braces around the enterprise of a trap
        if ty == 'ENTERPRISE' and i + 1 < n and toks[i + 1][0] == 'LOWERCASE_IDENTIFIER':
            t2 = splice(text, toks[i + 1][2], toks[i + 1][3], '{ ' + toks[i + 1][1] + ' }')
            yield 'curlyBracesAroundEnterpriseInTrap', 'enterprise-in-braces', t2, []
        # CREATION-REQUIRES { } : same tree as the clause left out
        if ty == 'CREATION_REQUIRES' and i + 1 < n and toks[i + 1][0] == '{':
            j = i + 2
            while j < n and toks[j][0] != '}':
                j += 1
            yield 'noCells', 'creation-requires-empty', splice(text, toks[i + 2][2], toks[j][2], ''), 'no-creation-part:%d' % i
        # SMIv1 types as index items
        if ty == 'INDEX' and i + 1 < n and toks[i + 1][0] == '{':
            j = i + 2
            while j < n and toks[j][0] != '}':
                if toks[j][0] == 'LOWERCASE_IDENTIFIER':
                    for tname in ('INTEGER', 'OCTET STRING', 'IpAddress', 'NetworkAddress'):
                        yield 'supportIndex', 'index-type:' + tname, splice(text, toks[j][2], toks[j][3], tname), [(toks[j][1], tname)]
                j += 1


def drop_creation(text, i):
    """the corrected text for `CREATION-REQUIRES { }` number i: the clause removed"""
    toks = tokens_pos(text)
    j = i + 2
    while toks[j][0] != '}':
        j += 1
    return splice(text, toks[i][2], toks[j][3], '')


V1_TEMPLATE = '''ACME-TRAP-MIB DEFINITIONS ::= BEGIN
IMPORTS enterprises FROM RFC1155-SMI TRAP-TYPE FROM RFC-1215 OBJECT-TYPE FROM RFC-1212;
acme OBJECT IDENTIFIER ::= { enterprises 99 }
acmeVar OBJECT-TYPE SYNTAX INTEGER { up(1), down(2), testing(3) } ACCESS read-only STATUS mandatory DESCRIPTION "x" ::= { acme 1 }
acmeNet OBJECT-TYPE SYNTAX NetworkAddress ACCESS read-only STATUS mandatory DESCRIPTION "x" ::= { acme 2 }
%s
END
'''
V2_CAPS_TEMPLATE = '''ACME-CAPS-MIB DEFINITIONS ::= BEGIN
IMPORTS MODULE-IDENTITY, enterprises, NOTIFICATION-TYPE, OBJECT-TYPE, Integer32 FROM SNMPv2-SMI AGENT-CAPABILITIES FROM SNMPv2-CONF;
acmeCaps MODULE-IDENTITY LAST-UPDATED "200001010000Z" ORGANIZATION "o" CONTACT-INFO "c" DESCRIPTION "d" ::= { enterprises 98 }
%s
acmeNotif NOTIFICATION-TYPE STATUS current DESCRIPTION "n" ::= { acmeCaps 90 }
acmeTable OBJECT-TYPE SYNTAX SEQUENCE OF AcmeEntry MAX-ACCESS not-accessible STATUS current DESCRIPTION "t" ::= { acmeCaps 91 }
acmeEntry OBJECT-TYPE SYNTAX AcmeEntry MAX-ACCESS not-accessible STATUS current DESCRIPTION "e" INDEX { acmeIdx } ::= { acmeTable 1 }
AcmeEntry ::= SEQUENCE { acmeIdx Integer32, acmeState INTEGER }
acmeIdx OBJECT-TYPE SYNTAX Integer32 MAX-ACCESS not-accessible STATUS current DESCRIPTION "i" ::= { acmeEntry 1 }
acmeState OBJECT-TYPE SYNTAX INTEGER { up(1), down(2) } MAX-ACCESS read-only STATUS current DESCRIPTION "s" ::= { acmeEntry 2 }
END
'''


CACHE_PAIRS = [({}, {'commaAtTheEndOfImport': True}), ({}, {'curlyBracesAroundEnterpriseInTrap': True, 'supportSmiV1Keywords': True}),
               ({'supportSmiV1Keywords': True}, {'supportSmiV1Keywords': True, 'supportIndex': True}), ({}, {'noCells': True}),
               ({'commaAtTheEndOfSequence': True}, {'mixOfCommasAndSpaces': True})]


# texts every grammar accepts whose tree has a falsy leaf (the number 0, an empty list) where an action picks "x or y"
DIRECTED_TEXTS = [
    'ACME-Z-MIB DEFINITIONS ::= BEGIN abc OBJECT-TYPE SYNTAX X MAX-ACCESS read-only STATUS current DESCRIPTION "d" INDEX { 0 } ::= { abc 1 } END',
    'ACME-Z-MIB DEFINITIONS ::= BEGIN abc OBJECT-TYPE SYNTAX X MAX-ACCESS read-only STATUS current DESCRIPTION "d" INDEX { 0 1, IMPLIED 0 } ::= { 0 } END',
    'ACME-Z-MIB DEFINITIONS ::= BEGIN abc OBJECT-TYPE SYNTAX X MAX-ACCESS read-only STATUS current DESCRIPTION "" DEFVAL { 0 } ::= { abc 0 } END',
]


def cache_texts(modules, specials):
    """texts that tell the option sets of CACHE_PAIRS apart, plus ordinary modules"""
    out = list(modules[:2]) + [t for t in specials if t]
    for t in list(out):
        for option, kind, bad, expect in breakages(t):
            if option in ('commaAtTheEndOfImport', 'curlyBracesAroundEnterpriseInTrap', 'supportIndex', 'noCells', 'commaAtTheEndOfSequence',
                          'mixOfCommasAndSpaces') and len(out) < 40:
                out.append(bad)
    return out


def cache_run(pairs, texts):
    """[(options, text, with shared cache, without cache)] for every difference"""
    import shutil
    from pysmi.parser.smi import parserFactory
    diffs = []
    for a, b in pairs:
        for first, second in ((a, b), (b, a)):
            d = common.scratch_dir('c17-cache-')
            try:
                built = []
                for opts in (first, second, first):
                    try:
                        built.append((opts, parserFactory(**opts)(tempdir=d)))
                    except Exception as e:
                        diffs.append((opts, None, 'cannot be built on a shared cache directory: %s' % type(e).__name__, None))
                for opts, p in built:
                    fresh = parserFactory(**opts)()
                    for t in texts:
                        r1 = pc.impl_parse(None, t, parser=p)
                        r0 = pc.impl_parse(None, t, parser=fresh)
                        if r1 != r0:
                            diffs.append((opts, t, {k: v for k, v in r1.items() if k != 'ast'} or 'a tree', {k: v for k, v in r0.items() if k != 'ast'} or 'another tree'))
                            break
            finally:
                shutil.rmtree(d, ignore_errors=True)
    return diffs


def cache_stream(ctx, modules, specials):
    res = ctx.res
    pairs = CACHE_PAIRS if ctx.tier != 'quick' else CACHE_PAIRS[:3]
    texts = cache_texts(modules, specials)
    res.count('cache-pairs', len(pairs))
    for a, b in pairs:
        res.case(('cache', tuple(sorted(a)), tuple(sorted(b))), True)
    for opts, t, got, want in cache_run(pairs, texts):
        res.oracle_failures.append({'key': 'shared-cache', 'what': 'parser [%s] built on a cache directory shared with another option set gives %s, built without cache %s' % (
            ','.join(sorted(opts)) or 'strict', got, want), 'input': {'cache_pairs': [[a, b] for a, b in pairs], 'text': t}})


def special_modules(rng, k):
    """modules with TRAP-TYPE and AGENT-CAPABILITIES clauses (not produced by the general module generator)"""
    traps = []
    for i in range(k):
        parts = ['acmeTrap%d TRAP-TYPE ENTERPRISE acme' % i]
        if rng.random() < 0.6:
            parts.append('VARIABLES { acmeVar%s }' % (', acmeVar' if rng.random() < 0.4 else ''))
        if rng.random() < 0.7:
            parts.append('DESCRIPTION "trap %d"' % i)
        if rng.random() < 0.3:
            parts.append('REFERENCE "ref"')
        parts.append('::= %d' % rng.randint(0, 40))
        traps.append(' '.join(parts))
    caps = []
    for i in range(k):
        var = []
        for j in range(rng.randint(1, 3)):
            v = 'VARIATION acmeObj%d' % j
            if rng.random() < 0.4:
                v += ' SYNTAX INTEGER { a(1), b(2) }'
            if rng.random() < 0.8:
                v += ' CREATION-REQUIRES { acmeA%s }' % (', acmeB' if rng.random() < 0.5 else '')
            v += ' DESCRIPTION "v"'
            var.append(v)
        caps.append('acmeAgent%d AGENT-CAPABILITIES PRODUCT-RELEASE "r" STATUS current DESCRIPTION "d" SUPPORTS ACME-MIB INCLUDES { acmeGroup } %s ::= { acmeCaps %d }'
                    % (i, ' '.join(var), i + 1))
    return [V1_TEMPLATE % '\n'.join(traps), V2_CAPS_TEMPLATE % '\n'.join(caps)]


def leaf_diffs(a, b, out, limit=8):
    """positions where two canonical JSON trees differ, as (a_leaf, b_leaf); structure differences count as one"""
    if len(out) >= limit:
        return out
    if type(a) != type(b):
        out.append((a, b))
    elif isinstance(a, dict):
        if set(a) != set(b):
            out.append((a, b))
        elif 's' in a:
            if a != b:
                out.append((''.join(map(chr, a['s'])), ''.join(map(chr, b['s']))))
        else:
            for k in a:
                leaf_diffs(a[k], b[k], out, limit)
    elif isinstance(a, list):
        if len(a) != len(b):
            out.append((a, b))
        else:
            for x, y in zip(a, b):
                leaf_diffs(x, y, out, limit)
    elif a != b:
        out.append((a, b))
    return out


def uses_reserved(text):
    return any(w in text for w in RESERVED_BY_V1)


def option_sets(ctx):
    """(name, options dict in a definite keyword order)"""
    rng = ctx.rng
    sets = [('smiV2', {})]
    for o in ALL_OPTIONS:
        sets.append((o, {o: True}))
    for name, opts in pc.DIALECTS.items():
        if opts:
            sets.append((name, dict(opts)))
    n = 6 if ctx.tier == 'quick' else 60
    for _ in range(n):
        k = rng.randint(2, 6)
        names = rng.sample(ALL_OPTIONS, k)
        sets.append(('+'.join(names), {o: True for o in names}))
    if ctx.tier != 'quick':
        for a in ALL_OPTIONS:
            for b in ALL_OPTIONS:
                if a != b:
                    sets.append((a + '+' + b, {a: True, b: True}))
    return sets


def supersets(ctx, opts):
    """some option dicts enabling a superset of `opts`, in assorted keyword orders"""
    rng = ctx.rng
    out = []
    missing = [o for o in ALL_OPTIONS if o not in opts]
    for _ in range(2 if ctx.tier == 'quick' else 4):
        extra = rng.sample(missing, rng.randint(1, len(missing))) if missing else []
        names = list(opts) + extra
        rng.shuffle(names)
        out.append({o: True for o in names})
    full = list(ALL_OPTIONS)
    out.append({o: True for o in full})
    out.append({o: True for o in reversed(full)})
    if opts:
        names = list(opts)
        out.append({o: True for o in reversed(names)})          # the same set, other order
    return out


class Parsers(object):
    """real parsers per ordered option list, with the model requests to replay"""
    def __init__(self, ctx):
        self.ctx = ctx
        self.reqs = []
        self.metas = []
        self.loaded = set()
        self.cache = {}
        self.other = {}
        self.alone = {}
        self.budget = 2500 if ctx.tier == 'quick' else 40000

    def get(self, opts):
        return try_build(opts)

    def parse(self, ex, text, model=True):
        key = (ex['key'], text)
        if key in self.cache:
            return self.cache[key]
        # parser objects of different dialects are used alternately: a parse must not depend on which parser (and lexer) ran last
        other = self.other.get(ex['lexer_variant'])
        if other is None:
            other = self.other[ex['lexer_variant']] = try_build({} if ex['lexer_variant'] == 'v1' else {'supportSmiV1Keywords': True})
        interleaved = other is not None and other is not ex and uses_reserved(text)
        if interleaved:
            pc.impl_parse(other, 'X DEFINITIONS ::= BEGIN END')
        r = pc.impl_parse(ex, text)
        if interleaved:
            from pysmi.parser.smi import parserFactory
            if ex['key'] not in self.alone:
                # a second parser object of the same dialect that is only ever used with its own kind
                self.alone[ex['key']] = parserFactory(**{o: True for o in ex['key'].split(',') if o != 'smiV2'})()
            pc.impl_parse(ex, 'X DEFINITIONS ::= BEGIN END', parser=self.alone[ex['key']])
            alone = pc.impl_parse(ex, text, parser=self.alone[ex['key']])
            self.ctx.res.count('interleaved-parses')
            if alone != r:
                self.ctx.res.oracle_failures.append({
                    'key': 'interleaving', 'what': 'a parser of dialect [%s] used right after a parser of the other lexer variant gives %s, a fresh one %s' % (
                        ex['key'], {k: v for k, v in r.items() if k != 'ast'} or 'a tree', {k: v for k, v in alone.items() if k != 'ast'} or 'another tree'),
                    'input': {'options': [o for o in ex['key'].split(',') if o != 'smiV2'], 'text': text, 'interleave': True}})
        self.cache[key] = r
        if model and self.budget > 0:
            self.budget -= 1
            if ex['key'] not in self.loaded:
                self.loaded.add(ex['key'])
                self.reqs.append(grammar.tables_request(ex))
                self.metas.append(None)
            self.reqs.append(pc.parse_request(ex, text))
            self.metas.append((ex['key'], text, r))
        return r


def run(ctx):
    res, rng = ctx.res, ctx.rng
    res.rule = ('(i) option sets: strict, every single option, the shipped dialects, random subsets in random keyword order (thorough: all '
                'ordered pairs); for each buildable set S: a shortest sentence and a random derivation for EVERY production of S\'s grammar '
                '(grammar-directed generation), generated modules, TRAP-TYPE / AGENT-CAPABILITIES modules -> parsed under S and under '
                'supersets of S in assorted keyword orders: accepted under S => identical tree under the superset; (ii) every documented '
                'breakage at every applicable position of those modules: accepted under its option and under smiV1Relaxed with the tree of '
                'the corrected text (modulo the renamed label where the breakage is a spelling), rejected by the strict grammar; (iii) unknown '
                'option names rejected by both factories with PySmiError; (iv) correspondence: every parse replayed on the Lean LR model with '
                'the exported tables; non-trivial = text accepted under the smaller set')
    P = Parsers(ctx)
    tables = {'v1': S.lexeme_table('v1'), 'v2': S.lexeme_table('v2')}
    # module texts
    n_mod = 6 if ctx.tier == 'quick' else 60
    base = ctx.seed * 1000 + 17000
    modules = []
    for i in range(n_mod):
        g, m, text = pc.gen_module_text(base + i, wild=False, nasty=(i % 2 == 0))
        modules.append(text)
    specials = special_modules(rng, 3 if ctx.tier == 'quick' else 8)
    v1_special, v2_special = specials

    # (i) superset monotonicity
    unbuildable = []
    for name, opts in option_sets(ctx):
        ex = P.get(opts)
        if ex is None:
            unbuildable.append(name)
            res.count('unbuildable-set')
            continue
        res.count('option-sets')
        gram = S.Grammar(ex['prods'][1:], ex['start'])
        tab = tables[ex['lexer_variant']]
        texts = []
        for i in range(len(gram.prods)):
            if not gram.productive(i):
                continue
            texts.append(('min', S.render(gram.sentence_for(i), tab)))
            if ctx.tier != 'quick' or rng.random() < 0.5:
                texts.append(('rand', S.render(gram.sentence_for(i, rng, 3), tab, rng, first_only=False)))
        texts += [('module', t) for t in modules] + [('special', v2_special)] + [('directed', t) for t in DIRECTED_TEXTS]
        if opts.get('supportSmiV1Keywords'):
            texts.append(('special', v1_special))
        sups = [(so, P.get(so)) for so in supersets(ctx, opts)]
        for kind, t in texts:
            if t is None:
                continue
            r0 = P.parse(ex, t, model=(kind != 'rand' or rng.random() < 0.3))
            acc = 'ast' in r0
            res.case((name, t), acc)
            res.count('texts:' + kind + (':accepted' if acc else ':rejected'))
            if not acc:
                if kind in ('min',):
                    res.oracle_failures.append({'key': 'own-sentence-rejected', 'what': 'a shortest sentence of the grammar of %s is rejected by its own parser: %r' % (name, r0),
                                                'input': {'options': list(opts), 'text': t}})
                continue
            for so, sx in sups:
                if sx is None:
                    continue
                if so.get('supportSmiV1Keywords') and not opts.get('supportSmiV1Keywords') and uses_reserved(t):
                    continue
                r1 = P.parse(sx, t, model=(rng.random() < 0.05))
                res.count('superset-parses')
                if r1 != r0:
                    res.oracle_failures.append({
                        'key': 'superset-differs',
                        'what': 'text accepted under [%s] is %s under the superset [%s]' % (','.join(opts) or 'strict', 'rejected (%s line %s)' % (r1.get('error'), r1.get('line')) if 'error' in r1 else 'parsed to a different tree', ','.join(so)),
                        'input': {'options': list(opts), 'superset': list(so), 'text': t}})
                    break

    # (ii) documented breakages
    strict = P.get({})
    relaxed = P.get(dict(pc.DIALECTS['smiV1Relaxed']))
    seen = {}
    for t in modules + specials:
        corr_cache = {}
        for option, kind, bad, expect in breakages(t):
            opts = {option: True}
            if option == 'supportIndex' or kind.endswith('NetworkAddress') or t is v1_special:
                opts = {'supportSmiV1Keywords': True}
                opts[option] = True
            ex = P.get(opts)
            seen[kind.split(':')[0]] = seen.get(kind.split(':')[0], 0) + 1
            res.count('breakage:' + kind.split(':')[0])
            corrected = t
            if isinstance(expect, str) and expect.startswith('no-creation-part'):
                corrected = drop_creation(t, int(expect.split(':')[1]))
                expect = []
            for label, px in (('its own option', ex), ('smiV1Relaxed', relaxed)):
                rb = P.parse(px, bad)
                rc = P.parse(px, corrected)
                res.case((label, kind, bad), True)
                inp = {'options': list(opts) if px is ex else list(pc.DIALECTS['smiV1Relaxed']), 'text': bad, 'corrected': corrected, 'expect': expect}
                if 'ast' not in rc:
                    res.oracle_failures.append({'key': 'corrected-rejected', 'what': 'well-formed text rejected under %s: %r' % (label, rc), 'input': inp})
                    continue
                if 'ast' not in rb:
                    res.oracle_failures.append({'key': 'breakage-rejected:' + kind.split(':')[0],
                                                'what': 'documented breakage %s rejected under %s (%s line %s)' % (kind, label, rb.get('error'), rb.get('line')),
                                                'input': inp})
                    continue
                diffs = leaf_diffs(rc['ast'], rb['ast'], [])
                want = sorted(set(expect))
                got = sorted(set((a, b) for a, b in diffs if isinstance(a, str) and isinstance(b, str)))
                if any(not (isinstance(a, str) and isinstance(b, str)) for a, b in diffs) or not set(got) <= set(want):
                    res.oracle_failures.append({'key': 'breakage-tree:' + kind.split(':')[0],
                                                'what': 'breakage %s under %s: tree differs from the corrected text\'s beyond %r: %r' % (kind, label, want, str(diffs)[:300]),
                                                'input': inp})
            # the strict grammar rejects it (non-triviality of the relaxation; not a violation if it does not)
            rs = P.parse(strict, bad, model=False)
            res.count('breakage-strict:' + ('rejected' if 'error' in rs else 'accepted'))
    for need in ('import-trailing-comma', 'sequence-trailing-comma', 'enum-comma-to-space', 'enum-trailing-comma', 'enum-uppercase-label',
                 'notification-uppercase-name', 'enterprise-in-braces', 'creation-requires-empty', 'index-type'):
        if not seen.get(need):
            res.oracle_failures.append({'key': 'generator', 'what': 'no position for breakage %s in the generated modules' % need, 'input': {'seed': ctx.seed}})

    # (iii) unknown options
    from pysmi import error
    from pysmi.parser.smi import parserFactory
    from pysmi.lexer.smi import lexerFactory
    for bogus in ['bogus', 'lowercaseIdentifier', 'curlyBracesAroundEnterprise', 'supportsmiv1keywords', 'commaAtTheEndOfImports', 'NoCells', 'x' * 40, 'supportSmiV1Keywords ']:
        for fname, fac in (('parserFactory', parserFactory), ('lexerFactory', lexerFactory)):
            for extra in ({}, {'noCells': True}, {'supportSmiV1Keywords': True}, dict(pc.DIALECTS['smiV1']), dict(pc.DIALECTS['smiV1Relaxed'])):
                kw = dict(extra)
                kw[bogus] = True
                res.case((fname, bogus), True)
                res.count('unknown-option-calls')
                try:
                    fac(**kw)
                    outcome = 'accepted'
                except error.PySmiError:
                    outcome = 'PySmiError'
                except BaseException as e:
                    outcome = type(e).__name__
                if outcome != 'PySmiError':
                    res.oracle_failures.append({'key': 'unknown-option', 'what': '%s(%s=True) -> %s instead of PySmiError' % (fname, bogus, outcome),
                                                'input': {'factory': fname, 'kwargs': list(kw)}})
    for o in ALL_OPTIONS:
        try:
            lexerFactory(**{o: True})
        except BaseException as e:
            res.oracle_failures.append({'key': 'known-option', 'what': 'lexerFactory rejects the documented option %s: %r' % (o, e), 'input': {'option': o}})

    # (iii-a) an option passed as false is an option not passed
    for on in ([], ['noCells'], [rng.choice(ALL_OPTIONS)], list(pc.DIALECTS['smiV1']), list(pc.DIALECTS['smiV1Relaxed'])):
        on = [o for o in on if o != 'smiV2']
        res.case(('switched-off', tuple(on)), True)
        res.count('switched-off-sets')
        for d in switched_off(on):
            res.oracle_failures.append({'key': 'false-option', 'what': 'options [%s] true and every other known option false: %s' % (','.join(on) or 'none', d),
                                        'input': {'on': on}})

    factory_stream(ctx)

    # (iii-b) parser tables cached on disk: parsers of different option sets sharing one cache directory (as successive
    # runs of a tool do) behave like parsers built without a cache
    cache_stream(ctx, modules, specials)

    # (iv) correspondence with the Lean LR model
    if ctx.model is not None:
        for meta, out in zip(P.metas, ctx.model.batch(P.reqs)):
            if meta is None:
                if 'loaded' not in out:
                    res.corr_failures.append({'what': 'driver could not load tables: %r' % (out,)})
                continue
            key, text, impl = meta
            res.count('model-parses')
            if out != impl:
                res.corr_failures.append({'what': 'outcome / tree of the real parser differs from Model.LR.parse', 'options': key,
                                          'text': text[:400], 'impl': str(impl)[:400], 'model': str(out)[:400]})
    res.sample({'unbuildable_sets': unbuildable[:5]})
    res.sample({'special_v1': v1_special[:500]})


def search(ctx):
    ctx.tier = 'thorough'
    run(ctx)


def replay(payload):
    inp = payload['input']
    key = payload.get('key', '')
    if key == 'shared-cache':
        diffs = cache_run([tuple(x) for x in inp['cache_pairs']], [inp['text']] if inp.get('text') else [])
        return {'fails': bool(diffs), 'what': [str(d)[:200] for d in diffs[:3]]}
    if key == 'false-option':
        d = switched_off(inp['on'])
        return {'fails': bool(d), 'what': d}
    if key == 'unknown-option':
        from pysmi import error
        from pysmi.parser.smi import parserFactory
        from pysmi.lexer.smi import lexerFactory
        fac = parserFactory if inp['factory'] == 'parserFactory' else lexerFactory
        try:
            fac(**{k: True for k in inp['kwargs']})
            return {'fails': True}
        except error.PySmiError:
            return {'fails': False}
        except BaseException:
            return {'fails': True}
    ex = try_build({o: True for o in inp['options']})
    if ex is None:
        return {'fails': True, 'impl': 'parser cannot be built'}
    if inp.get('interleave'):
        from pysmi.parser.smi import parserFactory
        other = try_build({} if ex['lexer_variant'] == 'v1' else {'supportSmiV1Keywords': True})
        pc.impl_parse(other, 'X DEFINITIONS ::= BEGIN END')
        r = pc.impl_parse(ex, inp['text'])
        alone = pc.impl_parse(ex, inp['text'], parser=parserFactory(**{o: True for o in inp['options']})())
        return {'fails': r != alone}
    r0 = pc.impl_parse(ex, inp['text'])
    if key == 'superset-differs':
        sx = try_build({o: True for o in inp['superset']})
        r1 = pc.impl_parse(sx, inp['text'])
        return {'fails': 'ast' in r0 and r1 != r0}
    if key.startswith('breakage'):
        rc = pc.impl_parse(ex, inp['corrected'])
        if 'ast' not in r0 or 'ast' not in rc:
            return {'fails': True}
        diffs = leaf_diffs(rc['ast'], r0['ast'], [])
        return {'fails': any(not (isinstance(a, str) and isinstance(b, str)) for a, b in diffs) or
                not set((a, b) for a, b in diffs) <= set(map(tuple, inp['expect']))}
    return {'fails': 'error' in r0}
