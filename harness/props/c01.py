"""C01 — valid module sets compile; every symbol gets the OID the text defines."""
import itertools
import random

from gen import mibgen
from props import codegen_common as cg

LEVEL = 'proof'
MODULES = ['Pysmi.Props.C01', 'Pysmi.Props.C03', 'Pysmi.Pins.SkelC01', 'Pysmi.Props.C01Records']
LAKE_TARGETS = ['Pysmi.Props.C01', 'Pysmi.Props.C03', 'Pysmi.Pins.SkelC01', 'Pysmi.Props.C01Records']
THEOREMS = [
    'Pysmi.Records.C01_symtable_arity',
    'Pysmi.Records.C01_symtable_fields',
    'Pysmi.Pins.SkelC01.pin_symtableGenCode',
    'Pysmi.Pins.SkelC01.pin_regPostponed',
    'Pysmi.Pins.SkelC01.pin_genNumericOid',
    'Pysmi.Oid.C01_denotes_functional',
    'Pysmi.Oid.C01_numericOid_sound',
    'Pysmi.Oid.C01_numericOid_complete',
    'Pysmi.Oid.C01_spelling_named',
    'Pysmi.Oid.C01_spelling_name_vs_number',
    'Pysmi.Oid.C01_import_attribution',
    'Pysmi.Oid.C01_trap_oid',
    'Pysmi.Symtab.C01_success_characterised',
    'Pysmi.Symtab.C01_order_irrelevant_success',
    'Pysmi.Symtab.C01_single_pass_witness',
]
TECHNIQUE = ('Lean 4 theorems: the OID resolver computes exactly the OID denoted by following parent references (sound, complete, '
             'functional; any depth, any number of modules), and the symbol pass succeeds iff an order-free derivability condition holds '
             '(so declaration order is irrelevant); correspondence of both models against the real SymtableCodeGen / genNumericOid on '
             'generated module sets; ground-truth oracle on JSON, executed pysnmp module and status.oids')
LEVEL_TEXT = ('Proved in Lean: Denotes (the OID obtained by following parent references to numeric roots) is functional; genNumericOid '
              'returns exactly the denoted OID (soundness for every input, completeness for every acyclic table given the recursion '
              'depth of the chain); name(number) and name/number spellings denote the same OID; parents are looked up in the module they '
              'are imported from; trap OIDs are enterprise.0.n; the symbol pass succeeds exactly when names are distinct and every '
              'declaration is derivable, a condition independent of declaration order (false before fix dfb1bd2: witness theorem). '
              'Not proved: that the *text* is parsed into the declarations the model receives (C02), the hyphen/keyword renaming, the '
              'dotted/tuple rendering. Tied to the code by running both models on what the real symbol pass recorded for generated '
              'module sets (shuffled declaration orders, forward references, cross-module chains, every sub-identifier spelling).')
LEVEL_NOTE = ('Trusted: Lean kernel + standard axioms; hand-written models (Model/Oid.lean, Model/Symtab.lean) tied by the correspondence; '
              'the recording subclass of SymtableCodeGen used to observe the symbol pass; PLY parser, Jinja templates, CPython.')
ASSUMPTIONS = [
    'generated modules avoid symbols named like Python keywords or like the JSON sections (recorded findings of C04/C03)',
    'Python recursion depth (about 1000) stands for the fuel of the resolver',
]


def check_set(ctx, obs, reqs, metas):
    res = ctx.res
    g = obs['gen']
    st = obs['status'].get('json', {})
    for be in ('json', 'pysnmp'):
        if obs.get('raised_' + be):
            res.oracle_failures.append({'key': 'escaped-exception', 'what': '%s backend: %s' % (be, obs['raised_' + be]),
                                        'input': {'seed': obs['seed'], 'texts': obs['texts'], 'run_set': obs.get('run_set')}})
    for mn in g.modules:
        for be in obs['status']:
            s = obs['status'].get(be, {}).get(mn)
            if s != 'compiled' and not obs.get('raised_' + be):
                res.oracle_failures.append({'key': 'compiles', 'what': 'well-formed module %s is %s with the %s backend: %s' % (
                    mn, s, be, obs.get('errors_' + be, {}).get(mn, '')), 'input': {'seed': obs['seed'], 'texts': obs['texts'], 'run_set': obs.get('run_set')}})
    for (mn, name), t in g.truth.items():
        if 'oid' not in t:
            continue
        want = mibgen.dotted(t['oid'])
        jn = mibgen.jname(name)
        doc = obs['json'].get(mn)
        if doc is not None and '__invalid_json__' not in doc:
            got = doc.get(jn, {}).get('oid')
            if got != want:
                res.oracle_failures.append({'key': 'json-oid', 'what': '%s::%s has OID %s in the JSON document, the text defines %s' % (
                    mn, name, got, want), 'input': {'seed': obs['seed'], 'texts': obs['texts'], 'run_set': obs.get('run_set')}})
        if mn in obs['summary'] and want not in obs['summary'][mn]['oids']:
            res.oracle_failures.append({'key': 'summary-oid', 'what': '%s::%s: OID %s missing from the OID summary' % (mn, name, want),
                                        'input': {'seed': obs['seed'], 'texts': obs['texts'], 'run_set': obs.get('run_set')}})
        py = obs['pysnmp'].get(mn)
        if py and py['builder'] is not None:
            o = py['builder'].exports.get(mn, {}).get(jn)
            if o is not None:
                d = __import__('impl.recbuilder', fromlist=['describe']).describe(o)
                if d.get('oid') is not None and d['oid'] != t['oid']:
                    res.oracle_failures.append({'key': 'pysnmp-oid', 'what': '%s::%s has OID %r in the pysnmp module, the text defines %s' % (
                        mn, name, d['oid'], want), 'input': {'seed': obs['seed'], 'texts': obs['texts'], 'run_set': obs.get('run_set')}})
    # summary holds nothing the module does not define
    for mn, sm in obs['summary'].items():
        defined = {mibgen.dotted(t['oid']) for (m2, n2), t in g.truth.items() if m2 == mn and 'oid' in t}
        extra = set(sm['oids']) - defined
        if extra and mn in g.modules:
            res.oracle_failures.append({'key': 'summary-extra', 'what': '%s: summary lists OIDs the module does not define: %s' % (
                mn, sorted(extra)[:3]), 'input': {'seed': obs['seed'], 'texts': obs['texts'], 'run_set': obs.get('run_set')}})
    # correspondence 1: OID resolution on the real cross-module symbol table
    if obs['symmap']:
        req, keys = cg.oid_request(obs['symmap'])
        reqs.append(req)
        metas.append(('oid', obs, keys))
    # correspondence 2: symbol registration
    for entry in obs['symlog']:
        if entry.get('result') and not str(entry['result'].get('error', '')).startswith('other'):
            req, names = cg.symreg_request(entry)
            reqs.append(req)
            metas.append(('symreg', entry, names))


def compare(ctx, reqs, metas):
    res = ctx.res
    if ctx.model is None or not reqs:
        return
    for (tag, a, b), out in zip(metas, ctx.model.batch(reqs)):
        if isinstance(out, dict) and 'driver_error' in out:
            res.corr_failures.append({'what': 'driver error ' + out['driver_error']})
            continue
        if tag == 'oid':
            obs, keys = a, b
            for (m, sym), o in zip(keys, out):
                doc = obs['json'].get(m)
                if doc is None or '__invalid_json__' in doc or not isinstance(o, list) or (o and isinstance(o[0], str)):
                    continue
                got = doc.get(sym, {}).get('oid')
                if got is not None and got != '.'.join(map(str, o)):
                    res.corr_failures.append({'what': 'genNumericOid differs from Model.Oid.numericOid', 'module': m, 'symbol': sym,
                                              'impl': got, 'model': o})
        else:
            entry, names = a, b
            inv = {v: k for k, v in names.d.items()}
            r = entry['result']
            if 'order' in r:
                want = {'order': [names(x) for x in r['order']]}
            elif r['error'] == 'duplicate':
                want = 'duplicate'
            else:
                want = 'unknown'
            got = out if 'order' in out else ('duplicate' if 'duplicate' in out else 'unknown')
            if got != want:
                res.corr_failures.append({'what': 'symbol registration differs from Model.Symtab.run', 'module': entry['module'],
                                          'impl': r, 'model': {k: [inv.get(x, x) for x in v] if isinstance(v, list) else inv.get(v, v)
                                                               for k, v in out.items()}})


WELL_KNOWN = ['mgmt', 'security', 'experimental', 'private', 'directory', 'snmpV2', 'snmpModules', 'snmpDomains', 'snmpProxys', 'internet', 'dod', 'org', 'mib-2',
              'transmission', 'system', 'snmp', 'zeroDotZero']


def twin_texts(picked, arc, n):
    """a vendor module that has nodes of its own named like roots of the IETF tree (a vendor's `mgmt` or `security` branch) and
    hangs nodes below them - in the module itself, before and after the declaration, and from a second module that imports them;
    with the OIDs the parent references give"""
    a = ['TWIN-%d-MIB DEFINITIONS ::= BEGIN' % n, 'IMPORTS enterprises, OBJECT-TYPE, Integer32 FROM SNMPv2-SMI;']
    want = {}
    for k, name in enumerate(picked):
        a.append('twinEarly%d OBJECT IDENTIFIER ::= { %s 7 }' % (k, name))                      # used before it is declared
        a.append('%s OBJECT IDENTIFIER ::= { enterprises %d %d }' % (name, arc, k + 1))
        a.append('twinLate%d OBJECT-TYPE SYNTAX Integer32 MAX-ACCESS read-only STATUS current DESCRIPTION "d" ::= { %s 8 }' % (k, name))
        root = '1.3.6.1.4.1.%d.%d' % (arc, k + 1)
        want[('TWIN-%d-MIB' % n, name.replace('-', '_'))] = root
        want[('TWIN-%d-MIB' % n, 'twinEarly%d' % k)] = root + '.7'
        want[('TWIN-%d-MIB' % n, 'twinLate%d' % k)] = root + '.8'
    a.append('END')
    b = ['TWIN-%d-B-MIB DEFINITIONS ::= BEGIN' % n, 'IMPORTS %s FROM TWIN-%d-MIB;' % (', '.join(picked), n)]
    for k, name in enumerate(picked):
        b.append('twinFar%d OBJECT IDENTIFIER ::= { %s 9 }' % (k, name))
        want[('TWIN-%d-B-MIB' % n, 'twinFar%d' % k)] = '1.3.6.1.4.1.%d.%d.9' % (arc, k + 1)
    b.append('END')
    return {'TWIN-%d-MIB' % n: '\n'.join(a) + '\n', 'TWIN-%d-B-MIB' % n: '\n'.join(b) + '\n'}, want


def twin_failures(picked, arc, n):
    import json
    from impl import pipeline
    texts, want = twin_texts(picked, arc, n)
    bad = []
    for be in ('json',):
        st, out, _ = pipeline.compile_set(texts, backend=be)
        for mn in texts:
            if str(st.get(mn)) != 'compiled':
                return ['%s: %s (%s)' % (mn, st.get(mn), getattr(st.get(mn), 'error', None))]
        docs = {mn: json.loads(out[mn]) for mn in texts}
        for (mn, sym), oid in sorted(want.items()):
            got = (docs[mn].get(sym) or {}).get('oid')
            if got != oid:
                bad.append('%s::%s has OID %s, its parent references give %s' % (mn, sym, got, oid))
    return bad


def run(ctx):
    res = ctx.res
    trng = __import__('random').Random(ctx.seed * 13 + 1)
    for i in range(8 if ctx.tier == 'quick' else 120):
        picked = trng.sample(WELL_KNOWN, trng.randint(1, 3))
        arc = trng.randint(2, 60000)
        res.case(('well-known-twins', tuple(picked), arc), True)
        res.count('well-known-twins')
        bad = twin_failures(picked, arc, i)
        if bad:
            res.oracle_failures.append({'key': 'oid', 'what': bad[0], 'input': {'texts': twin_texts(picked, arc, i)[0], 'twins': [picked, arc, i]}})
    res.rule = ('module sets from the shared generator: 1-3 modules, OID forests rooted at enterprises/mib-2/experimental/snmpModules '
                'with digit-sharing arcs, parents declared earlier or later (70% of modules shuffled), imported parents across modules, '
                'sub-identifiers spelled name / number / name(number), hyphenated names, all OID-bearing kinds; half of the sets printed '
                'with wild layout; both backends; non-trivial = at least 3 OID-bearing symbols; distinct by generated text')
    n = 80 if ctx.tier == 'quick' else 1200
    reqs, metas = [], []
    base = ctx.seed * 100000
    for i in range(n):
        obs = cg.run_set(base + i, wild=(i % 2 == 0))
        nt = sum(1 for t in obs['gen'].truth.values() if 'oid' in t)
        res.case(tuple(sorted(obs['texts'].items())), nt >= 3)
        res.count('modules=%d' % len(obs['texts']))
        res.count('oid-symbols', nt)
        check_set(ctx, obs, reqs, metas)
    # every permutation of the declarations of small modules
    want_mods = 4 if ctx.tier == 'quick' else 30        # a fixed amount of work whatever the seed
    got_mods, i = 0, -1
    while got_mods < want_mods and i < 400:
        i += 1
        rng = random.Random(base + 7000 + i)
        g = mibgen.SetGen(rng, n_modules=1, size=3)
        g.chains = False
        g.build()
        mn = list(g.modules)[0]
        decls = g.modules[mn]['decls']
        if not (4 <= len(decls) <= 5):
            continue
        got_mods += 1
        for perm in itertools.permutations(decls):
            g.modules[mn]['decls'] = list(perm)
            obs = cg.run_set(base + 7000 + i, mutate=lambda gg, rr, p=perm: gg.modules[list(gg.modules)[0]].__setitem__('decls', list(p)),
                             n_modules=1, size=3, backends=('json',), chains=False)
            res.case(tuple(sorted(obs['texts'].items())), True)
            res.count('permutation-cases')
            check_set(ctx, obs, reqs, metas)
    # invalid modules with cyclic OID definitions: must come back as failed, not as an escaping exception
    for k in (1, 2, 3):
        names_c = ['cyc%d' % j for j in range(k)]
        ct = 'CYC-MIB DEFINITIONS ::= BEGIN IMPORTS enterprises FROM SNMPv2-SMI;\n' + ''.join(
            '%s OBJECT IDENTIFIER ::= { %s 1 }\n' % (names_c[j], names_c[(j + 1) % k]) for j in range(k)) + 'END\n'
        res.case(('cyclic', ct), True)
        res.count('cyclic-modules')
        try:
            stc, outc, compc = __import__('impl.pipeline', fromlist=['x']).compile_set({'CYC-MIB': ct}, backend='json')
            if str(stc.get('CYC-MIB')) == 'compiled':
                res.oracle_failures.append({'key': 'cyclic-accepted', 'what': 'a module whose OIDs are defined in a cycle compiles', 'input': {'texts': {'CYC-MIB': ct}}})
        except BaseException as e:
            res.oracle_failures.append({'key': 'escaped-exception', 'what': 'cyclic OID definition: %s escapes compile()' % type(e).__name__,
                                        'input': {'texts': {'CYC-MIB': ct}, 'expect': 'no-exception'}})
    # SMIv1 modules: TRAP-TYPE OIDs (enterprise.0.n), OIDs under zero arcs
    import json as _json
    from gen import v1gen
    from impl import pipeline as _pl
    for i in range(12 if ctx.tier == 'quick' else 200):
        vg = v1gen.V1Gen(random.Random(base + 9500 + i), size=6).build()
        vt = v1gen.render(vg, 'v1')
        res.case(('v1', vt), True)
        res.count('smiv1-modules')
        st, out, comp = _pl.compile_set({vg.name: vt}, backend='json', dialect='smiV1Relaxed')
        if str(st.get(vg.name)) != 'compiled':
            res.oracle_failures.append({'key': 'compiles', 'what': 'well-formed SMIv1 module is %s: %s' % (st.get(vg.name), getattr(st.get(vg.name), 'error', '')),
                                        'input': {'seed': base + 9500 + i, 'texts': {vg.name: vt}}})
            continue
        doc = _json.loads(out[vg.name])
        for name, t in vg.truth.items():
            jn = mibgen.jname(name)
            if 'oid' in t and doc.get(jn, {}).get('oid') != mibgen.dotted(t['oid']):
                res.oracle_failures.append({'key': 'json-oid', 'what': '%s has OID %s in the JSON document, the SMIv1 text defines %s' % (
                    name, doc.get(jn, {}).get('oid'), mibgen.dotted(t['oid'])), 'input': {'seed': base + 9500 + i, 'texts': {vg.name: vt}, 'dialect': 'smiV1Relaxed'}})
                break
    compare(ctx, reqs, metas)
    res.sample({'module_text': list(obs['texts'].values())[0][:1500], 'status': obs['status']})


def search(ctx):
    ctx.tier = 'thorough'
    run(ctx)


def replay(payload):
    import json
    from impl import pipeline
    inp = payload['input']
    texts = inp['texts']
    if inp.get('twins'):
        bad = twin_failures(*inp['twins'])
        return {'fails': bool(bad), 'what': bad[:3]}
    if inp.get('run_set'):
        return cg.replay_regenerated('C01', inp, lambda c, o: check_set(c, o, [], []), payload.get('key'))
    if inp.get('expect') == 'no-exception':
        try:
            pipeline.compile_set(texts, genTexts=True)
            return {'fails': False}
        except BaseException as e:
            return {'fails': True, 'what': type(e).__name__}
    r, out, _ = pipeline.compile_set(texts, genTexts=True)
    bad = {k: str(v) for k, v in r.items() if k in texts and str(v) != 'compiled'}
    return {'fails': bool(bad), 'what': bad}
