"""Shared scenario stream for the properties decided on the MibCompiler.compile model
(C07, C08, C09, C10, C19): scripted doubles -> real compile() and Lean model -> diff, plus the
property oracles stated directly on (result, recorded calls)."""
import itertools
import json
import random

from impl import compile_doubles as cd

STATUSES = {'compiled', 'untouched', 'failed', 'unprocessed', 'missing', 'borrowed'}


def facts(sc, impl):
    """Ground truth derivable from the scenario and the *recorded calls* (not from the model)."""
    f = {}
    tr = impl['trace']
    f['gets'] = [c for c in tr if c[0] == 'get']
    f['puts'] = [c for c in tr if c[0] == 'put']
    f['gens'] = [c for c in tr if c[0] == 'gen']
    f['borrows'] = [c for c in tr if c[0] == 'borrow']
    f['searches'] = [c for c in tr if c[0] == 'search']
    later = [i for i, c in enumerate(tr) if c[0] in ('gen', 'borrow', 'put')]
    cut = later[0] if later else len(tr)
    f['phase2_searches'] = [c for c in tr[:cut] if c[0] == 'search']
    f['status'] = {p[0]: p[1] for p in impl['processed']} if impl['processed'] is not None else {}
    f['err'] = {p[0]: p[2] for p in impl['processed']} if impl['processed'] is not None else {}
    return f


def closure(sc):
    """Import closure on the scenario's own graph for *aligned* scenarios:
    name -> first source (in order) whose file parses and passes the symbol pass."""
    def first_hit(n):
        for i, src in enumerate(sc['sources']):
            a = src.get(str(n), 'nf')
            if isinstance(a, list):
                p = sc['parse'].get(str(a[3]), 'err')
                if p != 'err' and p[1]:
                    syms = [sc['sym'].get(str(t), 'err') for t in p[1]]
                    if all(s != 'err' for s in syms):
                        return i, a, p[1], syms
        return None
    seen, order, todo = {}, [], list(sc['req'])
    while todo:
        n = todo.pop(0)
        if n in seen:
            continue
        h = first_hit(n)
        seen[n] = h
        order.append(n)
        if h:
            for s in h[3]:
                todo.extend(s[2])
    return seen


def oracle(sc, impl, aligned):
    """Returns {pid: [(key, what)…]} — violations of each property on this scenario."""
    out = {'C07': [], 'C08': [], 'C09': [], 'C10': [], 'C19': []}
    o = sc['opts']
    if impl['raised'] == 'nontermination':
        out['C08'].append(('terminates', 'compile() did not return within the call budget'))
        return out
    if impl['raised']:
        out['C07'].append(('no-raise', 'compile() raised ' + impl['raised']))
        return out
    f = facts(sc, impl)
    st = f['status']
    write = o.get('writeMibs', True)
    # ---- C07
    keys = [p[0] for p in impl['processed']]
    if len(keys) != len(set(keys)):
        out['C07'].append(('one-status', 'duplicate key in result'))
    for n, s in st.items():
        if s not in STATUSES:
            out['C07'].append(('one-status', 'unknown status %r for %d' % (s, n)))
        if s == 'failed' and (f['err'].get(n) is None or f['err'][n][0] == 'untagged'):
            out['C07'].append(('failed-carry-error', 'failed entry %d carries no causing error' % n))
    put_names = [c[1] for c in f['puts']]
    if len(put_names) != len(set(put_names)):
        out['C07'].append(('put-once', 'a module was handed to the writer twice: %r' % put_names))
    if aligned:
        cl = closure(sc)
        for n in cl:
            if n not in st:
                out['C07'].append(('accounted', 'module %d (requested or in the import closure) has no status' % n))
        if write:
            for c in f['puts']:
                ok = sc['put'].get(str(c[1]), True)
                s = st.get(c[1])
                if ok and s not in ('compiled', 'borrowed'):
                    out['C07'].append(('written-iff-reported', 'module %d was written but is reported %s' % (c[1], s)))
                if not ok and s != 'failed':
                    out['C07'].append(('written-iff-reported', 'writer failed for %d but status is %s' % (c[1], s)))
            for n, s in st.items():
                if s in ('compiled', 'borrowed') and n not in put_names:
                    out['C07'].append(('written-iff-reported', 'module %d reported %s but never handed to the writer' % (n, s)))
            # payload is what the generator / borrower produced for that module
            for c in f['puts']:
                n, d = c[1], c[2]
                s = st.get(n)
                if s == 'borrowed' or (s == 'failed' and d >= 2000):
                    good = any(isinstance(b['table'].get(str(n)), list) and b['table'][str(n)][3] == d for b in sc['borrowers'])
                else:
                    h = cl.get(n)
                    good = bool(h) and sc['gen'].get(str(h[2][0]), 'err') != 'err' and sc['gen'][str(h[2][0])][1] == d
                if not good:
                    out['C07'].append(('payload', 'module %d written with text %d which is not what was generated/borrowed for it' % (n, d)))
        # ---- C08
        for n, h in cl.items():
            gets = [c for c in f['gets'] if c[2] == n]
            srcs = [c[1] for c in gets]
            if len(srcs) != len(set(srcs)):
                out['C08'].append(('fetch-once', 'module %d fetched more than once from one source' % n))
            want = list(range(h[0] + 1)) if h else list(range(len(sc['sources'])))
            if srcs != want:
                out['C08'].append(('first-hit', 'module %d: sources asked %r, expected %r' % (n, srcs, want)))
        for c in f['gets']:
            if c[2] not in cl:
                out['C08'].append(('closure', 'module %d fetched although not in the import closure' % c[2]))
        parses = [c[1] for c in impl['trace'] if c[0] == 'parse']
        if len(parses) != len(set(parses)):
            out['C08'].append(('fetch-once', 'a text was parsed twice'))
        # ---- C10
        for n, h in cl.items():
            if not h:
                continue
            tree = h[2][0]
            answers = [s.get(str(n), 'nf') for s in sc['searchers']]
            first_nm = answers.index('nm') if 'nm' in answers else None
            asked = [c[1] for c in f['phase2_searches'] if c[2] == n]
            gen_called = any(c[1] == tree for c in f['gens'])
            excluded = bool(o.get('noDeps')) and n not in sc['req']
            if first_nm is not None:
                if st.get(n) != 'untouched':
                    out['C10'].append(('untouched', 'module %d: searcher %d says up to date but status is %s' % (n, first_nm, st.get(n))))
                if gen_called or n in put_names:
                    out['C10'].append(('untouched', 'module %d is up to date but was generated/written' % n))
                if asked != list(range(first_nm + 1)):
                    out['C10'].append(('searcher-order', 'module %d: searchers asked %r, expected %r' % (n, asked, list(range(first_nm + 1)))))
            elif excluded:
                if st.get(n) != 'untouched' or gen_called or n in put_names:
                    out['C10'].append(('nodeps', 'module %d is a dependency under noDeps but status=%s gen=%s' % (n, st.get(n), gen_called)))
            else:
                if not gen_called:
                    out['C10'].append(('generated', 'module %d needs generating but the code generator was not called' % n))
                if asked != list(range(len(answers))):
                    out['C10'].append(('searcher-order', 'module %d: searchers asked %r, expected all %d' % (n, asked, len(answers))))
            for c in f['searches']:
                if c[2] == n and c[4] != bool(o.get('rebuild')):
                    out['C10'].append(('rebuild-passed', 'rebuild option not passed to searcher'))
                if c[2] == n and c in f['phase2_searches'] and c[3] != h[1][2]:
                    out['C10'].append(('mtime-passed', 'module %d: searcher given mtime %r, source mtime is %r' % (n, c[3], h[1][2])))
        # ---- C19
        gen_ok = set()
        for n, h in cl.items():
            if h and sc['gen'].get(str(h[2][0]), 'err') != 'err':
                gen_ok.add(n)
        g = bool(o.get('genTexts'))

        def matching(n):
            return [j for j, b in enumerate(sc['borrowers'])
                    if isinstance(b['table'].get(str(n)), list) and (b.get('flavour') is None or b['flavour'] == g)]
        by_name = {}
        for c in f['borrows']:
            by_name.setdefault(c[2], []).append(c[1])
            if c[2] in gen_ok:
                out['C19'].append(('only-failed', 'borrower asked about module %d which compiled successfully' % c[2]))
            if c[3] != g:
                out['C19'].append(('flavour', 'borrower called with genTexts=%r, request has %r' % (c[3], g)))
        for n, idxs in by_name.items():
            m = matching(n)
            want = list(range(m[0] + 1)) if m else list(range(len(sc['borrowers'])))
            if idxs != want:
                out['C19'].append(('order', 'module %d: borrowers asked %r, expected %r' % (n, idxs, want)))
        for n, h in cl.items():
            # did n fail (not found / not parsed / not generated) without being excluded beforehand?
            if n in gen_ok:
                continue
            if h:   # parsed but generation fails: only if it reached the generator
                answers = [s_.get(str(n), 'nf') for s_ in sc['searchers']]
                if 'nm' in answers or (o.get('noDeps') and n not in sc['req']):
                    continue
            requested = n in sc['req']
            if (not o.get('noDeps') or requested) and sc['borrowers'] and n not in by_name:
                out['C19'].append(('eligible', 'failed module %d (%s) was never offered to the borrowers' % (
                    n, 'explicitly requested' if requested else 'dependency')))
        for n, s in st.items():
            if s == 'borrowed':
                if n in gen_ok:
                    out['C19'].append(('never-replaces', 'module %d compiled successfully but is reported borrowed' % n))
                m = matching(n)
                puts = [c for c in f['puts'] if c[1] == n]
                if write and puts and (not m or puts[0][2] != sc['borrowers'][m[0]]['table'][str(n)][3]):
                    out['C19'].append(('verbatim', 'borrowed module %d written with text %r which is not the first matching borrower\'s' % (
                        n, puts[0][2])))
            if s in ('failed', 'missing') and matching(n) and n in by_name and (f['err'].get(n) or [None])[0] != 'put':
                out['C19'].append(('delivered-but-failed', 'module %d was delivered by a borrower but still counts as %s' % (n, s)))
    # ---- C19 / C07 (any scenario): a run is only given up (modules left unprocessed) when some module is failed or missing at the end;
    # a module a borrower made good - written or found fresh at the destination - is no failure any more
    # (aligned scenarios: when a file holds a module of another name the status of the requested name is the multi-module family)
    if aligned and any(s == 'unprocessed' for s in st.values()) and not any(s in ('failed', 'missing') for s in st.values()):
        pid_ = 'C19' if f['borrows'] else 'C07'
        out[pid_].append(('delivered-but-failed' if f['borrows'] else 'unprocessed-without-failure',
                          'modules %s are left unprocessed although no module is failed or missing (statuses %s)' % (
                              sorted(n for n, s in st.items() if s == 'unprocessed'), sorted(st.items()))))
    if write:
        for c in f['puts']:
            if sc['put'].get(str(c[1]), True) and st.get(c[1]) == 'missing':
                out['C07'].append(('written-but-missing', 'module %d was generated and written but is reported missing' % c[1]))
    # ---- C08 (any scenario): a module already parsed under another request is never fetched again
    registered, current = {}, None
    for c in impl['trace']:
        if c[0] == 'get':
            current = c[2]
            if c[2] in registered and registered[c[2]] != c[2]:
                out['C08'].append(('fetch-once', 'module %d was already parsed (from the file requested as %d) and is fetched again' % (
                    c[2], registered[c[2]])))
        elif c[0] == 'sym':
            a = sc['sym'].get(str(c[1]), 'err')
            if a != 'err':
                registered.setdefault(a[1], current)
    # ---- C08 (any scenario): every name in the IMPORTS of a module whose symbol pass succeeded is looked up, unless the
    # module of that name is already there (parsed from another file) or the name has already failed
    fetched = set(c[2] for c in impl['trace'] if c[0] == 'get')
    for c in impl['trace']:
        if c[0] == 'sym':
            a = sc['sym'].get(str(c[1]), 'err')
            if a != 'err':
                for x in a[2]:
                    if x not in fetched and x not in registered and st.get(x) not in ('failed', 'missing'):
                        out['C08'].append(('imports-looked-up', 'module %d (tree %d) imports %d, which was never looked up' % (a[1], c[1], x)))
    # ---- C10 (any scenario): under noDeps every module found in a file that was asked for explicitly - by whatever
    # spelling: the requested name or the name the source knows the file by - is generated unless a searcher says it is
    # up to date
    if o.get('noDeps'):
        cur, alias, last_tree, explicit = None, None, {}, set()
        for c in impl['trace']:
            if c[0] == 'get':
                cur = c[2]
                a = sc['sources'][c[1]].get(str(cur), 'nf')
                alias = a[1] if isinstance(a, list) else None
            elif c[0] == 'sym':
                a = sc['sym'].get(str(c[1]), 'err')
                if a != 'err':
                    last_tree[a[1]] = c[1]
                    if cur in sc['req'] or alias in sc['req']:
                        explicit.add(a[1])
        for m_ in sorted(explicit):
            answers = [s_.get(str(m_), 'nf') for s_ in sc['searchers']]
            if 'nm' not in answers and not any(c[1] == last_tree[m_] for c in f['gens']):
                out['C10'].append(('nodeps-explicit', 'module %d was found in an explicitly requested file, no searcher says it is up to date, '
                                   'yet under noDeps it was not generated (status %s)' % (m_, st.get(m_))))
        # ---- C19 (any scenario): such a module stays eligible for borrowing when its code generation fails, and nothing
        # else is borrowed while dependencies are being skipped
        if sc['borrowers']:
            asked = set(c[2] for c in f['borrows'])
            for n_ in sorted(asked):
                if n_ not in sc['req'] and n_ not in explicit:
                    out['C19'].append(('nodeps-borrow', 'module %d is a mere dependency (not requested, not found in a requested file), dependencies are '
                                       'being skipped, yet a borrower was asked for it' % n_))
            for m_ in sorted(explicit):
                answers = [s_.get(str(m_), 'nf') for s_ in sc['searchers']]
                if 'nm' not in answers and sc['gen'].get(str(last_tree[m_]), 'err') == 'err' and m_ not in asked:
                    out['C19'].append(('eligible-explicit', 'module %d was found in an explicitly requested file and its code generation failed, '
                                       'yet under noDeps no borrower was asked for it (status %s)' % (m_, st.get(m_))))
    # ---- C09 (any scenario, no borrowers): replaying the recorded calls against the scenario tells which requests ended
    # in a failure that nothing repaired (a later source, or another file supplying the module); with errors not ignored
    # nothing may then be written
    if not sc['borrowers']:
        truth, cur, parsed_names = {}, None, set()
        for c in impl['trace']:
            if c[0] == 'get':
                cur = c[2]
                if sc['sources'][c[1]].get(str(cur), 'nf') == 'err':
                    truth[cur] = 'failed'
            elif c[0] == 'parse':
                a = sc['parse'].get(str(c[1]), 'err')
                if a == 'err' or not a[1]:
                    truth[cur] = 'failed'
            elif c[0] == 'sym':
                a = sc['sym'].get(str(c[1]), 'err')
                if a == 'err':
                    truth[cur] = 'failed'
                else:
                    parsed_names.add(a[1])
                    truth.pop(cur, None)
                    truth.pop(a[1], None)
        for n in set(c[2] for c in impl['trace'] if c[0] == 'get'):
            if n not in truth and n not in parsed_names and all(s_.get(str(n), 'nf') == 'nf' for s_ in sc['sources']):
                truth[n] = 'missing'
        if truth and not o.get('ignoreErrors'):
            if f['puts']:
                out['C09'].append(('gate-trace', 'requests %r ended in failure (replayed from the recorded calls), errors not ignored, yet the writer was called: %r' % (
                    sorted(truth), f['puts'])))
            for n, s_ in st.items():
                if s_ in ('compiled', 'borrowed'):
                    out['C09'].append(('gate-trace', 'requests %r ended in failure, errors not ignored, yet %d is reported %s' % (sorted(truth), n, s_)))
    # ---- C09 (any scenario)
    pre_gate_fail = [n for n, s in st.items() if s == 'missing' or (s == 'failed' and f['err'].get(n) and f['err'][n][0] != 'put')]
    if pre_gate_fail and not o.get('ignoreErrors'):
        if f['puts']:
            out['C09'].append(('gate', 'modules %r failed, errors not ignored, yet the writer was called: %r' % (pre_gate_fail, f['puts'])))
        for n, s in st.items():
            if s in ('compiled', 'borrowed'):
                out['C09'].append(('gate', 'modules %r failed, errors not ignored, yet %d is reported %s' % (pre_gate_fail, n, s)))
    if aligned:
        # ground truth from the scenario itself: which modules cannot be found/parsed/generated nor borrowed
        g = bool(o.get('genTexts'))
        stuck = []
        for n, h in closure(sc).items():
            if h:
                answers = [s_.get(str(n), 'nf') for s_ in sc['searchers']]
                if 'nm' in answers or (o.get('noDeps') and n not in sc['req']):
                    continue
                if sc['gen'].get(str(h[2][0]), 'err') != 'err':
                    continue
            eligible = (not o.get('noDeps')) or n in sc['req']
            deliver = [b for b in sc['borrowers'] if isinstance(b['table'].get(str(n)), list)
                       and (b.get('flavour') is None or b['flavour'] == g)]
            if eligible and deliver:
                continue
            stuck.append(n)
        if stuck and not o.get('ignoreErrors'):
            if f['puts']:
                out['C09'].append(('gate', 'modules %r cannot be compiled nor borrowed, errors not ignored, yet the writer was called: %r' % (stuck, f['puts'])))
            for n, s in st.items():
                if s in ('compiled', 'borrowed'):
                    out['C09'].append(('gate', 'modules %r cannot be compiled nor borrowed, errors not ignored, yet %d is reported %s' % (stuck, n, s)))
        for n in stuck:
            if st.get(n) not in ('failed', 'missing'):
                out['C09'].append(('bad-keeps-status', 'module %d cannot be compiled nor borrowed but is reported %s' % (n, st.get(n))))
    if o.get('ignoreErrors') and aligned:
        for n, s in st.items():
            if s == 'unprocessed':
                out['C09'].append(('ignore', 'errors ignored but module %d left unprocessed' % n))
    if not pre_gate_fail and aligned:
        for n, s in st.items():
            if s == 'unprocessed':
                out['C09'].append(('gate', 'no module failed but %d is unprocessed' % n))
    return out


def small_scope(tier):
    """Exhaustive small scope: 2 names (0 imports 1, optional back edge), 2 sources, every outcome
    assignment for the calls on the path, a few option sets."""
    outs_src = ['nf', 'err', 'okbadparse', 'okbadsym', 'okbadgen', 'ok']
    optsets = [{}, {'ignoreErrors': True}, {'noDeps': True}, {'ignoreErrors': True, 'noDeps': True},
               {'writeMibs': False}, {'rebuild': True, 'genTexts': True}]
    if tier == 'quick':
        optsets = optsets[:3]
    for cyc in (False, True):
        for a0, a1, b0 in itertools.product(outs_src, outs_src, outs_src):
            for searcher in (None, 'nm', 'err'):
                for borrower in (None, True):
                    for opts in optsets:
                        sc = {'req': [0], 'opts': dict(opts), 'sources': [{}, {}], 'parse': {}, 'sym': {}, 'gen': {},
                              'searchers': [], 'borrowers': [], 'put': {}}
                        tid = itertools.count(1)

                        def hold(src, n, kind, imports):
                            if kind == 'nf':
                                return
                            if kind == 'err':
                                sc['sources'][src][str(n)] = 'err'
                                return
                            t = next(tid)
                            sc['sources'][src][str(n)] = ['ok', n, 10, t]
                            if kind == 'okbadparse':
                                sc['parse'][str(t)] = 'err'
                                return
                            sc['parse'][str(t)] = ['trees', [t]]
                            sc['sym'][str(t)] = 'err' if kind == 'okbadsym' else ['ok', n, imports]
                            sc['gen'][str(t)] = 'err' if kind == 'okbadgen' else ['ok', 1000 + t]
                        hold(0, 0, a0, [1])
                        hold(1, 0, a1, [1])
                        hold(0, 1, b0, [0] if cyc else [])
                        if searcher:
                            sc['searchers'] = [{'1': searcher}]
                        if borrower:
                            sc['borrowers'] = [{'flavour': None, 'table': {'1': ['ok', 1, 10, 2001]}}]
                        yield sc


def run_stream(ctx, pid, n_random, n_nonaligned):
    """Runs the scenario stream for property `pid`; fills ctx.res."""
    res, rng = ctx.res, ctx.rng
    res.rule = ('scenarios for MibCompiler.compile over scripted doubles: exhaustive small scope (2 modules, 2 sources, all '
                'outcome assignments x searcher x borrower x option sets) + random import graphs over <=5 names (cycles, self '
                'loops, unresolved imports), 1-3 sources, every call outcome drawn independently, random option sets; a '
                'second stream of non-aligned scenarios (several modules per file, alias != module name, empty files) for the '
                'correspondence; non-trivial = at least 3 component calls; distinct by full scenario')
    scs = []
    for sc in small_scope(ctx.tier):
        scs.append((sc, True))
    for _ in range(n_random):
        scs.append((cd.gen_scenario(rng, aligned=True), True))
    for _ in range(n_nonaligned):
        sc = cd.gen_scenario(rng, aligned=False)
        scs.append((sc, cd.is_aligned(sc)))
    reqs, impls = [], []
    for sc, aligned in scs:
        impl = cd.run_impl(sc)
        impls.append(impl)
        reqs.append(cd.to_model_req(sc))
        res.case(sc, len(impl['trace']) >= 3)
        res.count('aligned' if aligned else 'non-aligned')
        for p in (impl['processed'] or []):
            res.count('status:' + p[1])
        for k, v in sc['opts'].items():
            if v:
                res.count('opt:' + k)
        if impl['raised']:
            res.count('raised:' + impl['raised'].split(':')[0])
        o = oracle(sc, impl, aligned)
        for key, what in o[pid][:2]:
            res.oracle_failures.append({'key': key if aligned else 'nonaligned/' + key, 'what': what,
                                        'input': {'scenario': sc, 'aligned': aligned}})
    if ctx.model is not None:
        outs = ctx.model.batch(reqs)
        for (sc, aligned), impl, out in zip(scs, impls, outs):
            d = cd.compare(impl, out)
            if d:
                res.corr_failures.append({'what': 'compile(): ' + d, 'scenario': sc, 'impl': impl, 'model': out})
    res.sample({'scenario': scs[-1][0], 'impl_result': impls[-1]})
    res.sample({'scenario': scs[0][0], 'impl_result': impls[0]})


def replay_scenario(pid, payload):
    inp = payload['input']
    if 'texts' in inp:
        # a finding stated on the real pipeline: module texts by file name, requested names, options
        from impl import pipeline
        try:
            st, out, comp = pipeline.compile_set(inp['texts'], requested=inp['requested'], **inp.get('options', {}))
        except Exception as e:
            return {'fails': True, 'what': ['compile() raised %s: %s' % (type(e).__name__, str(e)[:200])]}
        bad = []
        if inp.get('independent') and str(st.get(inp['independent'])) != 'compiled':
            bad.append('%s reported %s' % (inp['independent'], st.get(inp['independent'])))
        for name in inp['requested']:
            if inp.get('no_raise') and str(st.get(name)) not in ('compiled', 'untouched', 'failed', 'unprocessed', 'missing', 'borrowed'):
                bad.append('%s has status %r' % (name, st.get(name)))
        for name in out:
            if str(st.get(name)) not in ('compiled', 'borrowed'):
                bad.append('%s written but reported %s' % (name, st.get(name)))
        for name, v in st.items():
            if str(v) in ('compiled',) and name in inp['texts'] and name not in out:
                bad.append('%s reported compiled but not written' % name)
        return {'fails': bool(bad), 'what': bad}
    sc = inp['scenario']
    impl = cd.run_impl(sc)
    o = oracle(sc, impl, inp.get('aligned', cd.is_aligned(sc)))
    fails = o[pid]
    key = payload.get('key')
    if key:
        k = key.split('/')[-1]
        fails = [f for f in fails if f[0] == k]
    return {'fails': bool(fails), 'what': fails[:5], 'impl': impl}
