"""C13 — writing a module is atomic under I/O faults; dry-run touches nothing."""
import errno
import itertools
import os
import py_compile
import shutil
import tempfile
import threading

from common import scratch_dir

LEVEL = 'proof'
MODULES = ['Pysmi.Props.C13', 'Pysmi.Pins.SkelC13']
LAKE_TARGETS = ['Pysmi.Props.C13', 'Pysmi.Pins.SkelC13']
THEOREMS = [
    'Pysmi.Pins.SkelC13.pin_fileWriterPut',
    'Pysmi.Pins.SkelC13.pin_fileWriterGet',
    'Pysmi.Pins.SkelC13.pin_pyFileWriterPut',
    'Pysmi.Writer.solo_drive',
    'Pysmi.Writer.C13_terminates',
    'Pysmi.Writer.C13_atomic',
    'Pysmi.Writer.C13_dryrun',
    'Pysmi.Writer.C13_two_writers',
    'Pysmi.Writer.C13_short_write_witness',
]
TECHNIQUE = ('Lean 4 invariant proofs over a small-step model of putData (one step per system call, arbitrary fault scripts, '
             'arbitrary two-writer schedules); correspondence against the real writers through os/tempfile/py_compile fault proxies '
             'and a deterministic two-thread scheduler')
LEVEL_TEXT = ('Proved in Lean for both writers, every data size, fresh/existing destination: for every fault script with at most '
              'one error (any number of short writes) putData terminates, returns ok or the writer error, leaves the destination '
              'as before or complete-new (absent only after a failed byte-compilation), leaves no temp file, and ok implies the '
              'full text is stored; dry-run is the identity; for two concurrent writers under ANY schedule and ANY fault scripts '
              'the destination is never partial. Real kernel behaviour (atomic rename, unique mkstemp names, crashes, fsync) is '
              'assumed, not modelled (partial: runtime). The model is tied to the code by exhaustive single-fault injection at '
              'every call site x short-write patterns x fresh/existing x sizes, by executing two-writer schedules, and by running the real writers in a child process under a kernel file-size limit (a genuinely short write followed by EFBIG, no proxy in between).')
LEVEL_NOTE = ('Trusted: Lean kernel + standard axioms; hand-written small-step model (Model/Writer.lean) tied by the fault-proxy '
              'correspondence; POSIX rename atomicity and mkstemp uniqueness; CPython os/tempfile/py_compile.')
ASSUMPTIONS = [
    'rename(2) is atomic and replaces the destination; mkstemp names are unique per call',
    'a fault is an OSError raised by the call (or a short count from os.write); crashes of the process are not modelled',
    'double faults (a second error while cleaning up) are outside the property; the model still describes them',
]

MIB = 'TEST-MIB'
OLD = b'# previous complete content\nOLD = 1\n'


class Abort(Exception):
    pass


class Proxy:
    """Stands in for `os`, `tempfile` and `py_compile` inside one writer module.
    Consumes a fault script at the faultable calls and, optionally, synchronises with a scheduler."""

    def __init__(self, faults, wid=0, gate=None, kind='file'):
        self.faults = list(faults)
        self.calls = []
        self.fds = []
        self.wid = wid
        self.gate = gate
        self.kind = kind
        self.path = _PathProxy(self)
        self.F_OK = os.F_OK

    # --- plumbing
    def _sync(self, point):
        if self.gate:
            self.gate.arrive(self.wid, point)

    def _fault(self, name):
        self.calls.append(name)
        return self.faults.pop(0) if self.faults else 'none'

    def __getattr__(self, name):
        return getattr(os, name)

    # --- os
    def makedirs(self, p, *a, **kw):
        f = self._fault('makedirs')
        if f == 'error':
            raise OSError(errno.EACCES, 'injected')
        return os.makedirs(p, *a, **kw)

    def write(self, fd, data):
        self._sync('write')
        f = self._fault('write')
        if f == 'error':
            raise OSError(errno.ENOSPC, 'injected')
        if isinstance(f, list) and f[0] == 'short':
            data = data[:min(f[1] + 1, len(data))]
        return os.write(fd, data)

    def close(self, fd):
        self._sync('close')
        f = self._fault('close')
        os.close(fd)
        if fd in self.fds:
            self.fds.remove(fd)
        if f == 'error':
            raise OSError(errno.EIO, 'injected')

    def rename(self, a, b):
        self._sync('rename')
        f = self._fault('rename')
        if f == 'error':
            raise OSError(errno.EACCES, 'injected')
        return os.rename(a, b)

    def access(self, p, mode):
        if self.kind == 'py':
            self._sync('access')
        return os.access(p, mode)

    def unlink(self, p):
        if self.kind == 'file':
            self._sync('unlink')
        f = self._fault('unlink')
        if f == 'error':
            raise OSError(errno.EACCES, 'injected')
        return os.unlink(p)

    def open(self, path, flags, *a, **kw):
        if flags & os.O_CREAT:          # creating the temporary file by other means than mkstemp
            self._sync('mkstemp')
            f = self._fault('mkstemp')
            if f == 'error':
                raise OSError(errno.EACCES, 'injected')
            fd = os.open(path, flags, *a, **kw)
            self.fds.append(fd)
            return fd
        return os.open(path, flags, *a, **kw)

    # --- tempfile
    def mkstemp(self, *a, **kw):
        self._sync('mkstemp')
        f = self._fault('mkstemp')
        if f == 'error':
            raise OSError(errno.EACCES, 'injected')
        fd, name = tempfile.mkstemp(*a, **kw)
        self.fds.append(fd)
        return fd, name

    # --- py_compile
    PyCompileError = py_compile.PyCompileError

    def compile(self, *a, **kw):
        self._sync('pycompile')
        f = self._fault('pycompile')
        if f == 'error':
            raise RuntimeError('injected')
        if f == 'soft':
            raise py_compile.PyCompileError(SyntaxError, SyntaxError('injected'), a[0])
        return None   # do not really byte-compile: keeps the directory listing simple

    def cleanup(self):
        for fd in self.fds:
            try:
                os.close(fd)
            except OSError:
                pass


class _PathProxy:
    def __init__(self, px):
        self.px = px

    def exists(self, p):
        self.px._sync('exists')
        return os.path.exists(p)

    def __getattr__(self, name):
        return getattr(os.path, name)


def make_writer(kind, d, pyc=True):
    from pysmi.writer.localfile import FileWriter
    from pysmi.writer.pyfile import PyFileWriter
    if kind == 'file':
        return FileWriter(d).setOptions(suffix='.json')
    w = PyFileWriter(d)
    w.pyCompile = pyc
    return w


def dest_name(kind):
    return MIB + ('.json' if kind == 'file' else '.py')


def install(kind, proxy):
    import pysmi.writer.localfile as lf
    import pysmi.writer.pyfile as pf
    mod = lf if kind == 'file' else pf
    saved = (mod.os, getattr(mod, 'tempfile', None), getattr(mod, 'py_compile', None))
    mod.os = proxy
    mod.tempfile = proxy
    if kind == 'py':
        mod.py_compile = proxy
    return mod, saved


def uninstall(mod, saved, kind):
    mod.os, mod.tempfile = saved[0], saved[1]
    if kind == 'py':
        mod.py_compile = saved[2]


def classify(content, texts):
    """texts: {who: bytes}.  Returns model-style content."""
    if content is None:
        return 'absent'
    if content == OLD:
        return 'old'
    best = None
    for who, t in texts.items():
        if t.startswith(content):
            # prefer the complete match / the writer whose text it is a prefix of
            if best is None or len(content) == len(t):
                best = ['data', who, len(content)]
    return best if best is not None else ['mixed', len(content)]


def observe(d, kind, texts):
    dest, tmps = None, []
    if os.path.isdir(d):
        for fn in sorted(os.listdir(d)):
            p = os.path.join(d, fn)
            if os.path.isdir(p):
                continue
            with open(p, 'rb') as f:
                c = f.read()
            if fn == dest_name(kind):
                dest = c
            else:
                tmps.append(c)
    return classify(dest, texts), [classify(t, texts) for t in tmps], os.path.isdir(d)


def run_impl_put(kind, data, pyc, dry, faults, dir_exists, dest):
    from pysmi import error
    base = scratch_dir()
    d = os.path.join(base, 'out')
    try:
        if dir_exists:
            os.makedirs(d)
            if dest == 'old':
                with open(os.path.join(d, dest_name(kind)), 'wb') as f:
                    f.write(OLD)
        proxy = Proxy(faults, kind=kind)
        mod, saved = install(kind, proxy)
        try:
            w = make_writer(kind, d, pyc)
            try:
                w.putData(MIB, data, dryRun=dry)
                res = 'ok'
            except error.PySmiWriterError:
                res = 'writerError'
            except Exception as e:
                res = 'osError'
        finally:
            uninstall(mod, saved, kind)
            proxy.cleanup()
        from pysmi.compat import encode
        dst, tmps, de = observe(d, kind, {0: encode(data)})
        return {'res': res, 'dest': dst, 'tmp': tmps[0] if tmps else None, 'ntmp': len(tmps), 'dirExists': de,
                'calls': proxy.calls}
    finally:
        shutil.rmtree(base, ignore_errors=True)


DATA = {
    'empty': '',
    'ascii': 'X = 1\n' * 3,
    'nonascii': '# café ☃ \U0001f600\nY = "ü"\n',
    'large': ('# ' + 'z' * 70 + '\n') * 300,
}


def single_cases(tier):
    """every call site x fault kind x fresh/existing x data; short-write patterns"""
    for kind in ('file', 'py'):
        for dname, data in DATA.items():
            for dir_exists, dest in ((False, 'absent'), (True, 'absent'), (True, 'old')):
                # fault-free
                yield kind, dname, True, False, [], dir_exists, dest
                yield kind, dname, True, True, [], dir_exists, dest          # dry run
                n_calls = 7
                for k in range(n_calls):
                    for fk in ('error', 'soft'):
                        fl = ['none'] * k + [fk]
                        yield kind, dname, True, False, fl, dir_exists, dest
                # short writes at the first write, then again, then an error afterwards
                pre = 1 if dir_exists else 2       # faultable calls before the first write (mkstemp [+ makedirs])
                nch, nby = len(data), len(data.encode('utf-8'))
                # short counts around the text's length in characters and in octets (they differ for non-ASCII text)
                for j in sorted(set(x for x in (0, 1, 5, nch - 2, nch - 1, nch, nby - 3, nby - 2) if x >= 0)):
                    yield kind, dname, True, False, ['none'] * pre + [['short', j]], dir_exists, dest
                    yield kind, dname, True, False, ['none'] * pre + [['short', j], ['short', 0], ['short', 3]], dir_exists, dest
                    yield kind, dname, True, False, ['none'] * pre + [['short', j], 'error'], dir_exists, dest
                    yield kind, dname, True, False, ['none'] * pre + [['short', j], 'none', 'error'], dir_exists, dest
                if kind == 'py':
                    yield kind, dname, False, False, [], dir_exists, dest    # pyCompile off
        if tier == 'quick':
            continue


def model_req_put(kind, data, pyc, dry, faults, dir_exists, dest):
    from pysmi.compat import encode
    return {'op': 'put', 'kind': kind, 'len': len(encode(data)), 'pyCompile': pyc, 'dryRun': dry, 'faults': faults,
            'dirExists': dir_exists, 'dest': dest}


def oracle_put(case, impl):
    kind, dname, pyc, dry, faults, dir_exists, dest = case
    fails = []
    from pysmi.compat import encode
    n = len(encode(DATA[dname]))
    new = ['data', 0, n]
    prev = dest if dest != 'absent' else 'absent'
    errors = sum(1 for f in faults if f == 'error')
    if dry:
        if impl['calls'] or impl['dest'] != prev or impl['ntmp'] or impl['dirExists'] != dir_exists:
            fails.append(('dryrun', 'dry-run modified the file system: %r' % impl))
        return fails
    if impl['dest'] not in (prev, new) and not (impl['dest'] == 'absent' and kind == 'py' and 'pycompile' in impl['calls']):
        # an empty new text equals an empty prefix: ['data',0,0] is complete when n == 0
        fails.append(('atomic', 'destination holds %r (previous %r, complete new %r)' % (impl['dest'], prev, new)))
    if errors <= 1:
        if impl['ntmp']:
            fails.append(('no-temp', 'temporary file left behind: %r' % impl['tmp']))
        if impl['res'] == 'osError':
            fails.append(('writer-error', 'a non-package exception escaped putData'))
    if impl['res'] == 'ok' and impl['dest'] != new:
        fails.append(('ok-means-stored', 'putData returned but destination holds %r' % (impl['dest'],)))
    # a fault that was hit must surface
    hit_error = any(f == 'error' for f in faults[:len(impl['calls'])])
    if hit_error and impl['res'] == 'ok':
        fails.append(('fault-surfaces', 'an injected I/O error was swallowed: %r' % (impl,)))
    return fails


# ---------------------------------------------------------------------------------------
# two writers under a schedule

class Gate:
    """Hands control to one writer thread at a time, one sync point per turn."""

    def __init__(self):
        self.cv = threading.Condition()
        self.turn = None          # wid allowed to pass its next sync point
        self.waiting = {}         # wid -> point it is parked at
        self.finished = set()
        self.free = False

    def arrive(self, wid, point):
        with self.cv:
            if self.free:
                return
            self.waiting[wid] = point
            self.cv.notify_all()
            while not self.free and self.turn != wid:
                self.cv.wait()
            self.turn = None
            self.waiting.pop(wid, None)

    def wait_parked(self, wid):
        with self.cv:
            while wid not in self.waiting and wid not in self.finished:
                self.cv.wait()

    def grant(self, wid):
        """let `wid` pass one sync point and run to its next one (or finish)"""
        with self.cv:
            if wid in self.finished:
                return
            self.turn = wid
            self.waiting.pop(wid, None)
            self.cv.notify_all()
        with self.cv:
            while self.turn == wid:
                self.cv.wait(0.001)
        self.wait_parked(wid)

    def finish(self, wid):
        with self.cv:
            self.finished.add(wid)
            self.cv.notify_all()

    def release_all(self):
        with self.cv:
            self.free = True
            self.cv.notify_all()


def run_impl_two(kinds, datas, fa, fb, sched, dir_exists, dest):
    """Both writers must be of the same kind (same destination file)."""
    from pysmi import error
    from pysmi.compat import encode
    kind = kinds[0]
    base = scratch_dir()
    d = os.path.join(base, 'out')
    results = {}
    try:
        if dir_exists:
            os.makedirs(d)
            if dest == 'old':
                with open(os.path.join(d, dest_name(kind)), 'wb') as f:
                    f.write(OLD)
        gate = Gate()
        proxies = [Proxy(fa, 0, gate, kind), Proxy(fb, 1, gate, kind)]
        local = threading.local()

        class Router:
            """module-level stand-in that routes to the calling thread's proxy"""
            def __getattr__(self, name):
                return getattr(local.px, name)
        router = Router()
        mod, saved = install(kind, router)

        def body(i):
            local.px = proxies[i]
            w = make_writer(kind, d, False)
            try:
                w.putData(MIB, datas[i])
                results[i] = 'ok'
            except error.PySmiWriterError:
                results[i] = 'writerError'
            except Exception:
                results[i] = 'osError'
            finally:
                gate.finish(i)
        ts = [threading.Thread(target=body, args=(i,)) for i in (0, 1)]
        try:
            for t in ts:
                t.start()
            gate.wait_parked(0)
            gate.wait_parked(1)
            for pick in sched:
                gate.grant(0 if pick else 1)
            texts = {0: encode(datas[0]), 1: encode(datas[1])}
            mid = observe(d, kind, texts)
            pcs = [results.get(i) for i in (0, 1)]
            gate.release_all()
            for t in ts:
                t.join(10)
            final = observe(d, kind, texts)
        finally:
            gate.release_all()
            uninstall(mod, saved, kind)
            for p in proxies:
                p.cleanup()
        return {'mid_dest': mid[0], 'mid_tmps': sorted(map(str, mid[1])), 'mid_done': pcs,
                'final_dest': final[0], 'final_ntmp': len(final[1]), 'results': [results.get(0), results.get(1)]}
    finally:
        shutil.rmtree(base, ignore_errors=True)


def two_cases(rng, tier):
    datas = ('AAAA' * 3, 'BBBBBBB' * 2)
    n = 40 if tier == 'quick' else 400
    for _ in range(n):
        kind = rng.choice(['file', 'py'])
        L = rng.randint(2, 14)
        sched = [rng.random() < 0.5 for _ in range(L)]
        fa = [rng.choice(['none', 'none', 'none', ['short', rng.randint(0, 4)], 'error']) for _ in range(rng.randint(0, 5))]
        fb = [rng.choice(['none', 'none', 'none', ['short', rng.randint(0, 4)], 'error']) for _ in range(rng.randint(0, 5))]
        yield kind, datas, fa, fb, sched, True, rng.choice(['absent', 'old'])
    # every interleaving of the first 3 steps of each of two fault-free writers
    for bits in itertools.product([True, False], repeat=6 if tier == 'quick' else 8):
        yield 'file', datas, [], [], list(bits), True, 'old'


KERNEL_CHILD = r'''
import os, resource, signal, sys
sys.path.insert(0, sys.argv[1])
kind, d, limit, dname = sys.argv[2], sys.argv[3], int(sys.argv[4]), sys.argv[5]
sys.path.insert(0, sys.argv[6])
from props import c13
from pysmi import error
w = c13.make_writer(kind, d, False)
signal.signal(signal.SIGXFSZ, signal.SIG_IGN)
resource.setrlimit(resource.RLIMIT_FSIZE, (limit, limit))
try:
    w.putData(c13.MIB, c13.DATA[dname])
    print('ok')
except error.PySmiWriterError:
    print('writerError')
except BaseException as e:
    print('other:' + type(e).__name__)
'''


def kernel_put(kind, dname, limit, dest):
    """putData in a child process whose files cannot grow beyond `limit` octets (RLIMIT_FSIZE): the kernel itself
    cuts a write short and fails the next one - no proxy stands between the writer and the system calls."""
    import subprocess
    import sys
    from common import REPO
    from pysmi.compat import encode
    base = scratch_dir()
    d = os.path.join(base, 'out')
    try:
        os.makedirs(d)
        if dest == 'old':
            with open(os.path.join(d, dest_name(kind)), 'wb') as f:
                f.write(OLD)
        here = os.path.dirname(os.path.dirname(os.path.abspath(__file__)))
        r = subprocess.run([sys.executable, '-c', KERNEL_CHILD, REPO, kind, d, str(limit), dname, here],
                           stdout=subprocess.PIPE, stderr=subprocess.PIPE, universal_newlines=True, timeout=120)
        out = r.stdout.strip() or ('crash:' + r.stderr.strip()[-200:])
        dst, tmps, de = observe(d, kind, {0: encode(DATA[dname])})
        return {'res': out, 'dest': dst, 'tmps': tmps}
    finally:
        shutil.rmtree(base, ignore_errors=True)


def kernel_failures(case, impl):
    kind, dname, limit, dest = case
    from pysmi.compat import encode
    n = len(encode(DATA[dname]))
    want_dest = ['data', 0, n] if impl['res'] == 'ok' else ('old' if dest == 'old' else 'absent')
    out = []
    if impl['res'] not in ('ok', 'writerError'):
        out.append(('kernel-limit', 'putData under a file-size limit of %d octets ended with %s' % (limit, impl['res'])))
    elif impl['dest'] != want_dest:
        out.append(('kernel-limit', 'putData of %d octets under a file-size limit of %d returned %s and left the destination %r (expected %r)' % (
            n, limit, impl['res'], impl['dest'], want_dest)))
    elif impl['res'] == 'ok' and limit < n:
        out.append(('kernel-limit', 'putData reported success although only %d of %d octets can have been stored' % (limit, n)))
    if impl['tmps']:
        out.append(('kernel-limit-temp', 'temporary file left behind: %r' % (impl['tmps'],)))
    return out


def kernel_cases(tier):
    from pysmi.compat import encode
    for kind in ('file', 'py'):
        for dname in ('ascii', 'nonascii', 'large'):
            n = len(encode(DATA[dname]))
            limits = sorted({1, n // 2, n - 1, n, n + 100} if tier == 'quick' else {1, 2, n // 3, n // 2, n - 2, n - 1, n, n + 1, n + 100})
            for limit in limits:
                for dest in ('fresh', 'old'):
                    yield kind, dname, limit, dest


def run(ctx):
    res = ctx.res
    res.rule = ('single writer: every faultable call site (makedirs, mkstemp, write, close, rename, unlink, py_compile) x fault kind '
                '(error, soft) x {dir missing, fresh, existing destination} x data {empty, ascii, non-ascii, large} x both writers, '
                'plus short-write patterns (1-3 consecutive short writes, optionally followed by an error) and dry-run; two writers: '
                'random schedules with random fault scripts and all 2^6 (quick) / 2^8 (thorough) schedule prefixes, executed with two '
                'real threads handed control at each proxied call; the writers in a child process under a kernel file-size limit '
                '(RLIMIT_FSIZE below, at and above the length of the text: a genuinely short write followed by EFBIG); '
                'non-trivial = at least one injected fault or two writers')
    reqs, metas = [], []
    for case in single_cases(ctx.tier):
        kind, dname, pyc, dry, faults, dir_exists, dest = case
        impl = run_impl_put(kind, DATA[dname], pyc, dry, faults, dir_exists, dest)
        res.case(case, bool(faults) or dry)
        res.count('writer:' + kind)
        res.count('result:' + impl['res'])
        for f in faults:
            res.count('fault:' + (f if isinstance(f, str) else 'short'))
        for key, what in oracle_put(case, impl):
            res.oracle_failures.append({'key': key, 'what': what, 'input': {'single': list(case)}})
        reqs.append(model_req_put(kind, DATA[dname], pyc, dry, faults, dir_exists, dest))
        metas.append(('single', case, impl))
    for case in two_cases(ctx.rng, ctx.tier):
        kind, datas, fa, fb, sched, dir_exists, dest = case
        impl = run_impl_two((kind, kind), datas, fa, fb, sched, dir_exists, dest)
        res.case(case, True)
        res.count('two-writers')
        for which in ('mid_dest', 'final_dest'):
            v = impl[which]
            complete = v in ('absent', 'old', ['data', 0, len(datas[0])], ['data', 1, len(datas[1])])
            if not complete:
                res.oracle_failures.append({'key': 'two-writers', 'what': '%s is partial/mixed: %r' % (which, v),
                                            'input': {'two': [kind, list(datas), fa, fb, sched, dir_exists, dest]}})
        if impl['final_ntmp'] and not any(f == 'error' for f in fa + fb):
            res.oracle_failures.append({'key': 'two-writers-temp', 'what': 'temporary file left after two fault-free writers',
                                        'input': {'two': [kind, list(datas), fa, fb, sched, dir_exists, dest]}})
        reqs.append({'op': 'put2', 'k0': kind, 'k1': kind, 'l0': len(datas[0]), 'l1': len(datas[1]), 'fa': fa, 'fb': fb,
                     'sched': sched, 'dirExists': dir_exists, 'dest': dest})
        metas.append(('two', case, impl))
    # the same faults produced by the kernel (no proxy): a file-size limit cuts a write short and fails the next one
    from concurrent.futures import ThreadPoolExecutor
    kc = list(kernel_cases(ctx.tier))
    with ThreadPoolExecutor(max_workers=8) as ex:
        kouts = list(ex.map(lambda c: kernel_put(*c), kc))
    for case, impl in zip(kc, kouts):
        res.case(('kernel',) + case, True)
        res.count('kernel-limit:' + impl['res'])
        for key, what in kernel_failures(case, impl):
            res.oracle_failures.append({'key': key, 'what': what, 'input': {'kernel': list(case)}})
    if ctx.model is not None:
        outs = ctx.model.batch(reqs)
        for (tag, case, impl), out in zip(metas, outs):
            if 'driver_error' in out:
                res.corr_failures.append({'what': 'driver error ' + out['driver_error'], 'case': case})
                continue
            if tag == 'single':
                m = {'res': out['res'], 'dest': out['dest'], 'tmp': out['tmp'], 'dirExists': out['dirExists'], 'calls': out['calls']}
                i = {k: impl[k] for k in m}
                if m != i:
                    res.corr_failures.append({'what': 'putData differs from Model.Writer.put', 'case': case, 'impl': i, 'model': m})
            else:
                def anon(x):     # an empty file carries no owner
                    return ['data', '*', 0] if isinstance(x, list) and x[0] == 'data' and x[2] == 0 else x
                mt = sorted(str(anon(x)) for x in (out['tmp0'], out['tmp1']) if x is not None)
                it = sorted(str(anon(eval(x))) for x in impl['mid_tmps'])
                if anon(out['dest']) != anon(impl['mid_dest']) or mt != it:
                    res.corr_failures.append({'what': 'two writers: state after the schedule differs from Model.Writer.runTwo',
                                              'case': case, 'impl': impl, 'model': out})
        res.sample({'single_case': metas[5][1], 'impl': metas[5][2]})
        res.sample({'two_writer_case': metas[-1][1], 'impl': metas[-1][2]})


def search(ctx):
    pass   # the single-fault enumeration above is already exhaustive per call site


def replay(payload):
    inp = payload['input']
    if 'kernel' in inp:
        case = tuple(inp['kernel'])
        impl = kernel_put(*case)
        fails = kernel_failures(case, impl)
        return {'fails': bool(fails), 'what': fails, 'impl': impl}
    if 'single' in inp:
        case = inp['single']
        kind, dname, pyc, dry, faults, dir_exists, dest = case
        impl = run_impl_put(kind, DATA[dname], pyc, dry, faults, dir_exists, dest)
        fails = oracle_put(case, impl)
        key = payload.get('key')
        if key:
            fails = [f for f in fails if f[0] == key]
        return {'fails': bool(fails), 'what': fails, 'impl': impl}
    kind, datas, fa, fb, sched, dir_exists, dest = inp['two']
    impl = run_impl_two((kind, kind), datas, fa, fb, sched, dir_exists, dest)
    bad = [v for v in (impl['mid_dest'], impl['final_dest'])
           if v not in ('absent', 'old', ['data', 0, len(datas[0])], ['data', 1, len(datas[1])])]
    return {'fails': bool(bad), 'what': bad, 'impl': impl}
