"""C16 — SMIv1 modules compile to the same objects as their SMIv2 transliteration."""
import copy
import json
import re
import random

from gen import v1gen
from impl import pipeline, recbuilder

LEVEL = 'proof'
MODULES = ['Pysmi.Props.C16', 'Pysmi.Pins.SkelC16']
LAKE_TARGETS = ['Pysmi.Props.C16', 'Pysmi.Pins.SkelC16']
THEOREMS = ['Pysmi.Pins.SkelC16.pin_intermediateGenImports', 'Pysmi.Pins.SkelC16.pin_symtableGenImports', 'Pysmi.Pins.SkelC16.pin_genTrapType', 'Pysmi.Imports.C16_converted_absent', 'Pysmi.Imports.C16_converted_present', 'Pysmi.Imports.C16_others_kept',
            'Pysmi.Imports.C16_convert_idempotent', 'Pysmi.Imports.symbolsOf_convert',
            'Pysmi.Generated.Smiv1.C16_targets_final', 'Pysmi.Generated.Smiv1.C16_targets_not_smiv1',
            'Pysmi.Generated.Smiv1.C16_every_v1_symbol_has_home', 'Pysmi.Generated.Smiv1.C16_rfc1158_groups_home', 'Pysmi.Generated.Smiv1.C16_type_map', 'Pysmi.Oid.C16_trap_oid']
TECHNIQUE = ('Lean 4 theorems about a model of the import rewriting of both generators (for every import dict: converted symbols leave '
             'their SMIv1 module, their replacements are imported, other imports stay, a second pass changes nothing) under a table '
             'condition decided by the kernel on convertImportv2 regenerated from the source; kernel-decided facts about the regenerated '
             'type-name tables; correspondence of the model with genImports of both generators on generated import dicts and every table '
             'entry; oracle over generated SMIv1 modules and their transliterations through both backends')
LEVEL_TEXT = ('Proved in Lean: the import-rewriting statements for every import dict (any modules, symbols, duplicates) given that no '
              'replacement is itself replaceable, which the kernel decides on the regenerated table; no replacement lives in an SMIv1-only '
              'module; the SMIv1 base symbols the property names are in the table of every module that defines them; Counter / Gauge / '
              'NetworkAddress / INTEGER name Counter32 / Gauge32 / IpAddress / Integer32 in the three type tables and TRAP-TYPE is imported as '
              'NotificationType; the TRAP-TYPE OID enterprise ++ [0, n] is the OID that { enterprise 0 n } denotes (over the OID resolver model of C01). NOT proved: that the generators produce equal records (OIDs, kinds, node types, references, maximum access, '
              'trap OID enterprise.0.n) for an SMIv1 module and its transliteration - no Lean model of genObjectType / genTrapType joins the '
              'two ASTs; this is decided by the oracle over generated pairs (partial). SMIv1 INDEX by type is a recorded finding.')
LEVEL_NOTE = 'Trusted: Lean kernel + standard axioms; translate.py (tables read from the classes); the SMIv1 generator and its transliteration; harness.'
ASSUMPTIONS = ['the transliteration keeps the ACCESS word as MAX-ACCESS value and maps STATUS mandatory/optional to current; STATUS is not compared',
               'IF-MIB, IP-MIB, TCP-MIB, UDP-MIB, SNMPv2-MIB are not available offline: replacements pointing there are checked at genImports level only']

SMIV1_ONLY = ('RFC1065-SMI', 'RFC1155-SMI', 'RFC1158-MIB', 'RFC-1212', 'RFC-1215')
JSON_TYPE_MAP = {}      # (was a tolerance for the SMIv1 spellings Counter / Gauge the JSON document kept: repaired in /repo)

# ground truth from the RFCs, not from the table: the scalars of the ip group of RFC 1213, all of which RFC 2011 / 4293 carry on in IP-MIB
RFC1213_IP_SCALARS = ['ipForwarding', 'ipDefaultTTL', 'ipInReceives', 'ipInHdrErrors', 'ipInAddrErrors', 'ipForwDatagrams', 'ipInUnknownProtos',
                      'ipInDiscards', 'ipInDelivers', 'ipOutRequests', 'ipOutDiscards', 'ipOutNoRoutes', 'ipReasmTimeout', 'ipReasmReqds', 'ipReasmOKs',
                      'ipReasmFails', 'ipFragOKs', 'ipFragFails', 'ipFragCreates', 'ipRoutingDiscards']
# likewise from the RFCs: objects of RFC 1158 (first edition of MIB-II) that RFC 1213 defines under the same name and OID and that no SMIv2
# module took over - the address translation group, the egp group and its table
RFC1158_IN_RFC1213 = ['at', 'atTable', 'atEntry', 'atIfIndex', 'atPhysAddress', 'atNetAddress', 'egp', 'egpInMsgs', 'egpInErrors', 'egpOutMsgs',
                      'egpOutErrors', 'egpNeighTable', 'egpNeighEntry', 'egpNeighState', 'egpNeighAddr', 'egpAs']
SKIP_CALLS = ('setStatus', 'setDescription', 'setReference', 'setUnits')


def json_summary(doc):
    out = {}
    for k, v in doc.items():
        if not isinstance(v, dict) or k in ('imports', 'meta'):
            continue
        rec = {'class': v.get('class'), 'oid': v.get('oid'), 'nodetype': v.get('nodetype'), 'maxaccess': v.get('maxaccess')}
        syn = v.get('syntax') or v.get('type')
        if isinstance(syn, dict):
            rec['type'] = JSON_TYPE_MAP.get(syn.get('type'), syn.get('type'))
            rec['constraints'] = syn.get('constraints')
        if 'default' in v:
            rec['default'] = v['default']
        if 'objects' in v:
            rec['objects'] = v['objects']
        if 'indices' in v:
            rec['indices'] = v['indices']
        out[k] = rec
    return out


def py_summary(text, name):
    b, ns = recbuilder.execute(text, name, load_texts=False)
    out = {}
    for sym, obj in b.exports.get(name, {}).items():
        d = recbuilder.describe(obj)
        d['calls'] = {k: v for k, v in d.get('calls', {}).items() if k not in SKIP_CALLS}
        out[sym] = d
    imports = {}
    for m, syms in b.imports:
        imports.setdefault(m, set()).update(syms)
    return out, imports


BRACED = re.compile(r'ENTERPRISE ([^\n{]*?)( VARIABLES | DESCRIPTION | REFERENCE | ::= )')


def dotted(oid):
    return '.'.join(map(str, oid))


def run(ctx):
    res, rng = ctx.res, ctx.rng
    res.rule = ('(i) generated SMIv1 modules (OID nodes incl. zero arcs, type assignments, scalars and tables over INTEGER / enumerations / '
                'ranges / OCTET STRING / Counter / Gauge / TimeTicks / IpAddress / NetworkAddress / Opaque / DisplayString / PhysAddress / user '
                'types, every ACCESS and STATUS word, DEFVAL, TRAP-TYPE under any node incl. nodes ending in .0, with and without VARIABLES / '
                'DESCRIPTION / REFERENCE; roots imported from RFC1155-SMI / RFC1213-MIB or RFC1065-SMI / RFC1158-MIB) and their transliteration: '
                'both backends, v1 under smiV1 and smiV1Relaxed, v2 under smiV2: per-symbol summaries equal to each other and to the '
                'generator\'s ground truth; imports only from SMIv2 homes; (ii) genImports of both generators vs the Lean model on generated '
                'import dicts and on every entry of convertImportv2; (iii) SMIv1 INDEX by type; non-trivial = module has a trap and a table')
    n = 30 if ctx.tier == 'quick' else 500
    base = ctx.seed * 1000 + 16000
    for i in range(n):
        g = v1gen.V1Gen(random.Random(base + i), size=rng.choice([5, 8, 12]), alt_homes=(i % 3 == 0)).build()
        t1, t2 = v1gen.render(g, 'v1'), v1gen.render(g, 'v2')
        res.case(('pair', t1), True)
        res.count('pairs')
        inp = {'v1': t1, 'v2': t2}
        sums = {}
        # the tolerated spelling ENTERPRISE { value } (relaxed grammar only) names the same enterprise
        t1b = BRACED.sub(lambda m: 'ENTERPRISE { %s }%s' % (m.group(1), m.group(2)), t1)
        if t1b != t1:
            inp['v1b'] = t1b
            res.count('braced-enterprise')
        for be in ('json', 'pysnmp'):
            for label, text, dialect in (('v1', t1, 'smiV1'), ('v1r', t1, 'smiV1Relaxed'), ('v2', t2, 'smiV2')) + (
                    (('v1b', t1b, 'smiV1Relaxed'),) if t1b != t1 else ()):
                try:
                    st, out, comp = pipeline.compile_set({g.name: text}, backend=be, dialect=dialect, genTexts=False)
                except Exception as e:
                    res.oracle_failures.append({'key': 'compile-raises', 'what': '%s/%s compile raised %s: %s' % (label, be, type(e).__name__, e), 'input': inp})
                    continue
                if str(st.get(g.name)) != 'compiled':
                    res.oracle_failures.append({'key': 'not-compiled', 'what': '%s text under %s, %s backend: %s (%s)' % (
                        label, dialect, be, st.get(g.name), getattr(st.get(g.name), 'error', None)), 'input': inp})
                    continue
                try:
                    if be == 'json':
                        doc = json.loads(out[g.name])
                        sums[(be, label)] = (json_summary(doc), {k: set(v) for k, v in doc.get('imports', {}).items() if isinstance(v, list)})
                    else:
                        sums[(be, label)] = py_summary(out[g.name], g.name)
                except BaseException as e:
                    res.oracle_failures.append({'key': 'output-unusable', 'what': '%s/%s output cannot be loaded: %s: %s' % (label, be, type(e).__name__, str(e)[:200]), 'input': inp})
        for be in ('json', 'pysnmp'):
            if (be, 'v2') not in sums:
                continue
            ref, ref_imp = sums[(be, 'v2')]
            for label in ('v1', 'v1r', 'v1b'):
                if (be, label) not in sums:
                    continue
                got, got_imp = sums[(be, label)]
                if got != ref:
                    diff = [k for k in sorted(set(got) | set(ref)) if got.get(k) != ref.get(k)]
                    k = diff[0]
                    res.oracle_failures.append({'key': 'v1-v2-differ', 'what': '%s backend: symbol %s of the SMIv1 text (%s) %r differs from the transliteration\'s %r' % (
                        be, k, label, got.get(k), ref.get(k)), 'input': inp})
                    break
                bad = [m for m in got_imp if m in SMIV1_ONLY]
                if bad:
                    res.oracle_failures.append({'key': 'v1-import-left', 'what': '%s backend imports from %s' % (be, bad), 'input': inp})
                    break
                for m in ref_imp:
                    if not set(ref_imp[m]) <= set(got_imp.get(m, ())):
                        res.oracle_failures.append({'key': 'v2-home-missing', 'what': '%s backend: %s imported from %s by the transliteration but not by the SMIv1 text' % (
                            be, sorted(set(ref_imp[m]) - set(got_imp.get(m, ()))), m), 'input': inp})
                        break
        # ground truth
        if ('json', 'v1r') in sums:
            got = sums[('json', 'v1r')][0]
            for name, t in g.truth.items():
                rec = got.get(name.replace('-', '_'))
                if rec is None:
                    res.oracle_failures.append({'key': 'symbol-missing', 'what': '%s missing from the JSON document' % name, 'input': inp})
                    break
                want_oid = dotted(t['oid']) if 'oid' in t else None
                prob = None
                if rec['class'] != t['class']:
                    prob = 'class %r, expected %r' % (rec['class'], t['class'])
                elif want_oid and rec['oid'] != want_oid:
                    prob = 'oid %s, expected %s' % (rec['oid'], want_oid)
                elif 'nodetype' in t and rec['nodetype'] != t['nodetype']:
                    prob = 'nodetype %r, expected %r' % (rec['nodetype'], t['nodetype'])
                elif 'maxaccess' in t and rec['maxaccess'] != t['maxaccess']:
                    prob = 'maxaccess %r, expected %r (ACCESS must be reported as the maximum access)' % (rec['maxaccess'], t['maxaccess'])
                elif 'objects' in t and [o['object'] for o in rec.get('objects', [])] != t['objects']:
                    prob = 'objects %r, expected %r' % (rec.get('objects'), t['objects'])
                elif 'indices' in t and [o['object'] for o in rec.get('indices', [])] != t['indices']:
                    prob = 'indices %r, expected %r' % (rec.get('indices'), t['indices'])
                if prob:
                    res.oracle_failures.append({'key': 'truth', 'what': 'JSON record of %s: %s' % (name, prob), 'input': inp})
                    break
        if ('pysnmp', 'v1r') in sums:
            got = sums[('pysnmp', 'v1r')][0]
            for name, t in g.truth.items():
                if 'pyclass' in t and t.get('nodetype') in ('scalar', 'column'):
                    d = got.get(name.replace('-', '_')) or got.get(name)
                    if d is None or t['pyclass'] not in (d.get('syntax') or []):
                        res.oracle_failures.append({'key': 'pysnmp-class', 'what': 'pysnmp object %s has syntax classes %r, expected %s among them' % (
                            name, d and d.get('syntax'), t['pyclass']), 'input': inp})
                        break
                if t['class'] == 'notificationtype':
                    d = got.get(name.replace('-', '_'))
                    if d is None or 'NotificationType' not in d.get('bases', []) or d.get('oid') != list(t['oid']):
                        res.oracle_failures.append({'key': 'pysnmp-trap', 'what': 'TRAP-TYPE %s came out as %r, expected a NotificationType at %s' % (
                            name, d and (d.get('bases'), d.get('oid')), dotted(t['oid'])), 'input': inp})
                        break
    # (iii) SMIv1 index by type
    for i in range(3 if ctx.tier == 'quick' else 20):
        g = v1gen.V1Gen(random.Random(base + 9000 + i), size=4, index_by_type=True).build()
        t1 = v1gen.render(g, 'v1')
        res.case(('index-by-type', t1), True)
        res.count('index-by-type')
        st, out, comp = pipeline.compile_set({g.name: t1}, backend='json', dialect='smiV1Relaxed')
        if str(st.get(g.name)) != 'compiled':
            res.oracle_failures.append({'key': 'smiv1-index-type', 'what': 'SMIv1 module with INDEX by type: %s (%s)' % (st.get(g.name), getattr(st.get(g.name), 'error', None)),
                                        'input': {'v1': t1}})
    # (ii) genImports vs the model
    from pysmi.codegen.base import AbstractCodeGen
    from pysmi.codegen.intermediate import IntermediateCodeGen
    from pysmi.codegen.symtable import SymtableCodeGen
    table = AbstractCodeGen.convertImportv2
    for sym in RFC1213_IP_SCALARS:
        res.case(('rfc1213-ip', sym), True)
        res.count('rfc1213-ip-scalars')
        out, mods = IntermediateCodeGen().genImports({'RFC1213-MIB': [sym]})
        em = {k: list(v) for k, v in out['imports'].items() if k != 'class'}
        if em.get('IP-MIB') != [sym] or 'RFC1213-MIB' in em:        # (the generators add their constant imports)
            res.oracle_failures.append({'key': 'v2-home-missing', 'what': '%s imported from RFC1213-MIB comes out as %r; its SMIv2 home is IP-MIB' % (sym, em),
                                        'input': {'imports': {'RFC1213-MIB': [sym]}, 'expect_home': {'IP-MIB': [sym]}}})
    for sym in RFC1158_IN_RFC1213:
        res.case(('rfc1158-1213', sym), True)
        res.count('rfc1158-in-rfc1213')
        out, mods = IntermediateCodeGen().genImports({'RFC1158-MIB': [sym]})
        em = {k: list(v) for k, v in out['imports'].items() if k != 'class'}
        if em.get('RFC1213-MIB') != [sym] or 'RFC1158-MIB' in em:
            res.oracle_failures.append({'key': 'v2-home-missing', 'what': '%s imported from RFC1158-MIB comes out as %r; RFC1213-MIB defines it' % (sym, em),
                                        'input': {'imports': {'RFC1158-MIB': [sym]}, 'expect_home': {'RFC1213-MIB': [sym]}}})
    dicts = []
    for m, syms in table.items():
        for s in syms:
            dicts.append({m: [s]})
    others = ['FOO-MIB', 'SNMPv2-SMI', 'SNMPv2-TC', 'RFC1213-MIB', 'IF-MIB']
    for _ in range(100 if ctx.tier == 'quick' else 2000):
        d = {}
        mods = rng.sample(list(table) + others, rng.randint(1, 5))
        for m in mods:
            pool = list(table.get(m, {})) + ['fooBar', 'Counter32', 'ifIndex', 'zzz', 'OBJECT-TYPE', 'Counter']
            d[m] = [rng.choice(pool) for _ in range(rng.randint(0, 5))]
        dicts.append(d)
    reqs, metas = [], []
    for d in dicts:
        res.case(('imports', json.dumps(d)), True)
        res.count('import-dicts')
        for gen_name, cls in (('intermediate', IntermediateCodeGen), ('symtable', SymtableCodeGen)):
            dd = copy.deepcopy(d)
            try:
                out, mods = cls().genImports(dd)
                impl = {'modules': list(mods)}
                # every module the text names in IMPORTS stays in the list compile() follows, also when all its symbols found
                # another home: its source is still looked up, and reported when it is missing or broken
                lost = [m for m in d if m not in mods]
                if lost and gen_name == 'symtable':
                    res.oracle_failures.append({'key': 'import-module-lost', 'what': 'modules %s are named in IMPORTS but are not among the imported modules %s the compiler follows' % (
                        lost, list(mods)), 'input': {'imports': d, 'expect_followed': lost}})
                if gen_name == 'intermediate':
                    impl['emitted'] = [[k, list(v)] for k, v in out['imports'].items() if k != 'class']
                # a second pass over the same (mutated) dict, as compile() does with the second generator
                out2, mods2 = cls().genImports(dd)
                if list(mods2) != list(mods) or (gen_name == 'intermediate' and [[k, list(v)] for k, v in out2['imports'].items() if k != 'class'] != impl['emitted']):
                    res.oracle_failures.append({'key': 'second-pass', 'what': '%s.genImports gives a different result on its own output dict' % gen_name,
                                                'input': {'imports': d}})
            except Exception as e:
                impl = {'raised': type(e).__name__}
            reqs.append({'op': 'imports', 'generator': gen_name, 'imports': [[k, v] for k, v in d.items()]})
            metas.append((gen_name, d, impl))
            if gen_name == 'intermediate' and 'emitted' in impl:
                em = dict((k, v) for k, v in impl['emitted'])
                for m, syms in d.items():
                    for s in syms:
                        if not (m in table and s in table[m]):
                            # a symbol without an SMIv2 home stays imported from the module the text names
                            if s not in em.get(m, []):
                                res.oracle_failures.append({'key': 'direct-import-lost', 'what': '%s is imported from %s in the text but not after the rewriting' % (s, m),
                                                            'input': {'imports': d, 'expect_kept': [m, s]}})
                        if m in table and s in table[m]:
                            if s in em.get(m, []) and (m, s) not in table[m][s]:
                                res.oracle_failures.append({'key': 'not-converted', 'what': '%s still imported from %s' % (s, m), 'input': {'imports': d}})
                            for tm, ts in table[m][s]:
                                if ts not in em.get(tm, []):
                                    res.oracle_failures.append({'key': 'home-missing', 'what': '%s from %s should be imported as %s from %s' % (s, m, ts, tm), 'input': {'imports': d}})
    if ctx.model is not None:
        for (gen_name, d, impl), out in zip(metas, ctx.model.batch(reqs)):
            res.count('model-imports')
            if 'raised' in impl:
                res.corr_failures.append({'what': '%s.genImports raised %s' % (gen_name, impl['raised']), 'imports': d})
                continue
            if out.get('modules') != impl['modules'] or (gen_name == 'intermediate' and out.get('emitted') != impl['emitted']):
                res.corr_failures.append({'what': '%s.genImports differs from Model.Imports.genImports' % gen_name, 'imports': d,
                                          'impl': str(impl)[:400], 'model': str({k: out.get(k) for k in ('emitted', 'modules')})[:400]})
    res.sample({'v1': t1[:900]})
    res.sample({'v2': t2[:900]})


def search(ctx):
    ctx.tier = 'thorough'
    run(ctx)


def replay(payload):
    inp = payload['input']
    key = payload.get('key', '')
    if 'imports' in inp:
        from pysmi.codegen.base import AbstractCodeGen
        from pysmi.codegen.intermediate import IntermediateCodeGen
        table = AbstractCodeGen.convertImportv2
        out, mods = IntermediateCodeGen().genImports(copy.deepcopy(inp['imports']))
        em = out['imports']
        if 'expect_kept' in inp:
            m, s = inp['expect_kept']
            return {'fails': s not in em.get(m, [])}
        if 'expect_followed' in inp:
            import copy as _copy
            from pysmi.codegen.symtable import SymtableCodeGen as _S
            _, mods = _S().genImports(_copy.deepcopy(inp['imports']))
            return {'fails': any(m not in mods for m in inp['expect_followed']), 'what': list(mods)}
        if 'expect_home' in inp:
            return {'fails': any(list(em.get(m, [])) != v for m, v in inp['expect_home'].items()) or any(m in em for m in inp['imports'])}
        for m, syms in inp['imports'].items():
            for s in syms:
                want = inp.get('expect', {}).get(m + '/' + s) or (table.get(m, {}).get(s))
                if want is None:
                    return {'fails': True}
                for tm, ts in want:
                    if ts not in em.get(tm, []):
                        return {'fails': True}
                if s in em.get(m, []):
                    return {'fails': True}
        return {'fails': False}
    if key == 'smiv1-index-type':
        st, out, comp = pipeline.compile_set({'ACME-V1-MIB': inp['v1']}, backend='json', dialect='smiV1Relaxed')
        return {'fails': str(st.get('ACME-V1-MIB')) != 'compiled'}
    name = 'ACME-V1-MIB'
    r = {}
    for label, text, dialect in (('v1', inp['v1'], 'smiV1Relaxed'), ('v2', inp['v2'], 'smiV2'), ('v1b', inp.get('v1b', inp['v1']), 'smiV1Relaxed')):
        st, out, comp = pipeline.compile_set({name: text}, backend='json', dialect=dialect)
        if str(st.get(name)) != 'compiled':
            return {'fails': True}
        r[label] = json_summary(json.loads(out[name]))
    return {'fails': r['v1'] != r['v2'] or r['v1b'] != r['v2']}
