"""C14 — readers return the right file for a module name, incl. sub-directories and nested ZIPs."""
import datetime
import warnings
import io
import os
import shutil
import time
import zipfile

from common import scratch_dir

LEVEL = 'proof'
MODULES = ['Pysmi.Props.C14', 'Pysmi.Props.C14Tree', 'Pysmi.Pins.SkelC14']
LAKE_TARGETS = ['Pysmi.Props.C14', 'Pysmi.Props.C14Tree', 'Pysmi.Pins.SkelC14']
THEOREMS = [
    'Pysmi.Pins.SkelC14.pin_fileReaderGet',
    'Pysmi.Pins.SkelC14.pin_fileReaderVariants',
    'Pysmi.Pins.SkelC14.pin_zipReaderGet',
    'Pysmi.Reader.C14_variants_sound',
    'Pysmi.Reader.C14_variants_complete', 'Pysmi.Reader.C14_variants_complete_all', 'Pysmi.Reader.C14_variants_total',
    'Pysmi.Reader.C14_variants_default_total',
    'Pysmi.Reader.C14_index_precedence', 'Pysmi.Reader.C14_index_absent', 'Pysmi.Reader.C14_index_last_wins', 'Pysmi.Reader.C14_index_short_lines',
    'Pysmi.Reader.C14_dir_lookup_sound',
    'Pysmi.Reader.C14_dir_lookup_none',
    'Pysmi.Reader.C14_never_truncated',
    'Pysmi.Reader.C14_zip_lookup_sound',
    'Pysmi.Reader.C14_zip_members_top',
    'Pysmi.Reader.C14_url_kind', 'Pysmi.Reader.C14_url_target', 'Pysmi.Reader.C14_plain_path_whole', 'Pysmi.Tree.C14_tree_count', 'Pysmi.Tree.C14_tree_every_dir_searched', 'Pysmi.Tree.C14_tree_root_first', 'Pysmi.Tree.C14_tree_parent_first',
]
TECHNIQUE = ('Lean 4 theorems about a model of getMibVariants, .index precedence, directory-tree lookup, the ZIP member table '
             '(any nesting) and URL->reader kind; differential correspondence against FileReader/ZipReader/getReadersFromUrls on '
             'generated directory trees (linked sub-directories, sub-second time stamps, undecodable index lines) and nested archives; getSubdirs modelled as the pre-order of a nested tree (Model/Tree, structural induction) and compared with the reader on every generated tree built by an independent walk; oracle search')
LEVEL_TEXT = ('Proved in Lean for every ASCII module name, every setting of the matching switches, every extension list, every '
              'directory tree (the reader searches the directories of the tree in pre-order, each once, whatever the depth, linked directories included: C14_tree_count, C14_tree_every_dir_searched, C14_tree_root_first, C14_tree_parent_first, compared with getSubdirs on every generated tree; only the order of a directory listing is a model input) and archives nested to any depth: every file name tried is a '
              'documented variant (never an unrelated name); for every setting of the switches the variant list exists and every spelling switched on is tried with every extension and every fuzzy form (C14_variants_total, C14_variants_complete_all); .index is a dictionary of its lines - last line for a module counts, lines without two fields map nothing - and its '
              'entry is the only file tried; the directory lookup returns a regular file of the tree named like a tried variant and '
              'reports not-found exactly when no directory holds one; every ZIP member-table entry is the content and mtime of an '
              'actual leaf file filed under its base name (plus disambiguating + signs), and the lookup returns only such entries with '
              'non-empty content; URL scheme/extension -> reader kind, and for zip://archive the path the reader is made for (C14_url_target). Not modelled (partial: runtime): zipfile itself, byte decoding, '
              'HTTP/FTP readers (no network). Tied by correspondence on generated trees and archives.')
LEVEL_NOTE = ('Trusted: Lean kernel + standard axioms; hand-written model (Model/Reader.lean) tied by correspondence; os.listdir order, '
              'zipfile, urlparse and utf-8 decoding in CPython; module names are ASCII (upper/lower are modelled for ASCII only).')
ASSUMPTIONS = [
    'module names and file names are ASCII',
    'the order of the entries of one directory (os.listdir) is taken from the file system and given to the model; the order of directories is the model\'s (pre-order of the tree built by an independent walk)',
    'zipfile reads nested members correctly once given a seekable file object',
]

EXTS = ['', '.txt', '.mib', '.my', '.TXT', '.MIB', '.MY']
NAMES = ['IF-MIB', 'Mixed-Case-MIB', 'plain', 'SNMPv2-SMI', 'ACME-MIB-EXT', 'A', 'acme-mib', 'lower-mib-ext']


def doc_variants(name, fuzzy, exts=EXTS, opts=None):
    """the documented variant set under the given switches (default: all spellings on); independent of the model"""
    cands = [c for c, on in ((name, not opts or opts['original']), (name.upper(), not opts or opts['uppercase']),
                             (name.lower(), not opts or opts['lowcase'])) if on]
    bases = list(cands)
    if fuzzy:
        k = name.lower().find('-mib')
        if k != -1:
            bases += [c[:k] for c in cands]
        else:
            bases += [(name + '-mib').upper(), (name + '-mib').lower()]
    return {b + e for b in bases for e in exts}


def liberal_variants(name):
    """most permissive reading: any documented spelling under any switch setting"""
    cands = [name, name.upper(), name.lower()]
    bases = set(cands) | {(name + '-mib').upper(), (name + '-mib').lower()}
    for c in cands:
        low = c.lower()
        k = low.find('-mib')
        while k != -1:
            bases.add(c[:k])
            k = low.find('-mib', k + 1)
    return {b + e for b in bases for e in EXTS}


CONTENTS = [b'plain ascii content\n', b'', b'caf\xc3\xa9 utf8\n', b'\xff\xfe invalid utf8 \x80\n', b'x' * 3000, b'second\n',
            b'third\n', b'4', b'5', b'6', b'7', b'8']


def gen_tree(rng, root, name):
    """materialise a directory tree with variant files, decoys, same-named directories"""
    files = {}
    dirs = ['']
    for _ in range(rng.randint(0, 4)):
        parent = rng.choice(dirs)
        d = os.path.join(parent, rng.choice(['sub', 'vendor', 'x.mib', 'IF-MIB', 'deep']) + str(len(dirs)))
        dirs.append(d)
    links = []
    for i, d in enumerate(dirs):
        if d and rng.random() < 0.2:
            # a sub-directory that is a symbolic link to a directory elsewhere: searched like any other
            target = os.path.join(os.path.dirname(root), 'linked%d' % i)
            os.makedirs(target)
            os.symlink(target, os.path.join(root, d))
            links.append(d)
        else:
            os.makedirs(os.path.join(root, d), exist_ok=True)
    gen_tree.links = links
    pool = sorted(liberal_variants(name))
    decoys = [name + 'X', 'X' + name, name + '.bak', name.lower() + '.text', name[:-1] if len(name) > 1 else 'zz', 'README']
    for _ in range(rng.randint(0, 5)):
        d = rng.choice(dirs)
        fn = rng.choice(pool) if rng.random() < 0.6 else rng.choice(decoys)
        p = os.path.join(root, d, fn)
        if os.path.exists(p):
            continue
        cid = rng.randrange(len(CONTENTS))
        if rng.random() < 0.12:
            os.makedirs(p)            # a directory named like a variant
            continue
        with open(p, 'wb') as f:
            f.write(CONTENTS[cid])
        mt = 1500000000 + rng.randint(0, 1000)
        # (the readers report whole seconds: the fraction a file system keeps is cut off)
        ns = mt * 10 ** 9 + rng.choice([0, 250000000, 999999999])
        os.utime(p, ns=(ns, ns))
        files[os.path.join(d, fn)] = (cid, mt)
    return files


def tree_dirs(root):
    """the directories below root (relative), following links - by an independent walk"""
    out = []
    for cur, sub, _ in os.walk(root, followlinks=True):
        out.append(os.path.relpath(cur, root))
    return out


def tree_of(path):
    """the tree below path as the model takes it: names of plain files (sorted) and sub-directories in listing order; a link to a
    directory is a directory"""
    files, subs = [], []
    for e in os.listdir(path):
        p = os.path.join(path, e)
        if os.path.isdir(p):
            subs.append(tree_of(p))
        elif os.path.isfile(p) and e != '.index':
            files.append(e)
    return {'files': sorted(files), 'subs': subs}


def run_filereader(rng, name, opts, use_index_entry):
    from pysmi.reader.localfile import FileReader
    from pysmi import error
    from pysmi.compat import decode
    base = scratch_dir()
    try:
        root = os.path.join(base, 'mibs')
        os.makedirs(root)
        files = gen_tree(rng, root, name)
        index = []
        junk = b''
        if use_index_entry and files:
            rel = rng.choice(sorted(files))
            index = [[name, os.path.basename(rel)]] if rng.random() < 0.7 else [['OTHER-MIB', os.path.basename(rel)]]
            if rng.random() < 0.4:
                # an earlier line for the same module (the later one counts, as in a dictionary), lines for other modules
                index = [[name, 'superseded.txt'], ['ELSE-MIB', os.path.basename(rel)]] + index
            # a line for some other module with bytes that are no UTF-8 (a Latin-1 file name, a stray byte): the other lines count as ever
            junk = rng.choice([b'', b'', b'OLD-MIB caf\xe9.txt\n', b'\xff\xfe\n', b'ODD-\x80MIB odd.txt\n'])
            with open(os.path.join(root, '.index'), 'wb') as f:
                # (a line that does not hold a module name and a file name maps nothing)
                f.write(rng.choice([b'', b'\n', b'   \n', b'loneword\n', b'# comment\n\n']))
                if rng.random() < 0.5:
                    f.write(junk)
                    junk_at = 'before'
                else:
                    junk_at = 'after'
                for k, v in index:
                    f.write(('%s %s\n' % (k, v)).encode())
                if junk_at == 'after':
                    f.write(junk)
                f.write(rng.choice([b'', b'\n', b'trailing-word\n']))
        limit = rng.choice([None, None, 3000, 3001, 20])
        kw = {} if limit is None else {'maxMibSize': limit}
        large = [] if limit is None else [i for i, c in enumerate(CONTENTS) if len(c) >= limit]
        r = FileReader(root).setOptions(originalMatching=opts['original'], uppercaseMatching=opts['uppercase'],
                                        lowcaseMatching=opts['lowcase'], fuzzyMatching=opts['fuzzy'], **kw)
        dirs = r.getSubdirs(root, True, True)
        link_idx = [i for i, d in enumerate(dirs) if os.path.islink(d)]
        # every directory of the tree, linked ones included, is searched
        want_dirs = sorted(os.path.normpath(os.path.join(root, d_)) for d_ in tree_dirs(root))
        if sorted(os.path.normpath(d) for d in dirs) != want_dirs:
            missing_dirs = sorted(set(want_dirs) - set(os.path.normpath(d) for d in dirs))
        else:
            missing_dirs = []
        listing = []
        for d in dirs:
            row = []
            for fn in os.listdir(d):
                p = os.path.join(d, fn)
                if os.path.isfile(p) and fn != '.index':
                    rel = os.path.relpath(p, root)
                    cid, mt = files[rel if not rel.startswith('./') else rel[2:]]
                    row.append([fn, cid, mt])
            listing.append(row)
        try:
            info, data = r.getData(name)
            rel = info.path[len('file://'):]
            with open(rel, 'rb') as f:
                raw = f.read()
            got = {'alias': info.name, 'file': info.file, 'content': CONTENTS.index(raw), 'mtime': info.mtime}
            exact = data == decode(raw) and os.path.basename(rel) == info.file and os.stat(rel)[8] == info.mtime
        except error.PySmiReaderFileNotFoundError:
            got, exact = 'notfound', True
        except error.PySmiError:
            got, exact = 'toolarge', True
        except Exception:
            got, exact = 'indexerror', True           # any exception that is not the package's
        req = dict(opts, op='filereader', name=name, exts=EXTS, index=index, useIndex=True, dirs=listing, large=large, indexJunk=list(junk), links=link_idx)
        present = {os.path.basename(k) for k in files}
        run_filereader.missing_dirs = [os.path.relpath(d, root) for d in missing_dirs]
        run_filereader.tree = (tree_of(root), [sorted(fn for fn in os.listdir(d) if os.path.isfile(os.path.join(d, fn)) and fn != '.index') for d in dirs])
        return got, exact, req, present, index
    finally:
        shutil.rmtree(base, ignore_errors=True)


# ---------------------------------------------------------------------------------------
# ZIP archives

def zmtime(dt):
    return time.mktime(datetime.datetime(*dt).timetuple())


def gen_archive(rng, name, depth, state):
    """returns (members spec for the model, zip bytes); state carries a content-id counter.  `name` is one module name or
    a list of them (members are drawn from the spellings of all of them)"""
    spec = []
    buf = io.BytesIO()
    names = [name] if isinstance(name, str) else list(name)
    pool = sorted(set(v for nm in names for v in liberal_variants(nm)))
    name = names[0]
    with zipfile.ZipFile(buf, 'w') as z:
        for _ in range(rng.randint(1, 4)):
            r = rng.random()
            if r < state.get('nest', 0.25) and depth < 3:
                inner_spec, inner_bytes = gen_archive(rng, names, depth + 1, state)
                # inner archives in different parents may well have the same name
                stem = 'inner%d' % state['n'] if rng.random() >= state.get('same', 0.5) else rng.choice(['mibs', 'inner'])
                path = rng.choice(['', 'nested/', 'a/b/']) + stem + rng.choice(['.zip', '.ZIP'])
                if any(m[1] == path for m in spec):
                    path = 'u%d-%s' % (state['n'], path.replace('/', '-'))
                state['n'] += 1
                z.writestr(zipfile.ZipInfo(path, (2020, 1, 1, 0, 0, 0)), inner_bytes)
                spec.append(['zip', path, inner_spec])
            elif r < 0.33:
                path = rng.choice(['dir/', 'a/b/'])
                z.writestr(zipfile.ZipInfo(path, (2020, 1, 1, 0, 0, 0)), b'')
                spec.append(['dir', path])
            elif r < 0.40:
                # a member that is named like an archive and is none (empty, text, a cut-off archive): it hides nothing but
                # itself; for the model it is an entry that is skipped, like a directory
                path = rng.choice(['', 'nested/']) + 'broken%d.zip' % state['n']
                state['n'] += 1
                z.writestr(zipfile.ZipInfo(path, (2020, 1, 1, 0, 0, 0)), JUNK_ZIP)
                spec.append(['dir', path])
            else:
                fn = rng.choice(pool) if rng.random() < 0.7 else rng.choice([name + 'X', 'README', 'x' + name])
                path = rng.choice(['', 'mibs/', 'a/b/']) + fn
                cid = rng.randrange(len(CONTENTS))
                dt = (2015 + rng.randint(0, 8), rng.randint(1, 12), rng.randint(1, 28), rng.randint(0, 23), rng.randint(0, 59),
                      2 * rng.randint(0, 29))
                if rng.random() < 0.06:
                    # a zeroed DOS time stamp (month 0, day 0): no such date, the member is as old as can be
                    z.writestr(zipfile.ZipInfo(path, ZERO_DATE), CONTENTS[cid])
                    spec.append(['file', path, cid, 0])
                    continue
                z.writestr(zipfile.ZipInfo(path, dt), CONTENTS[cid])
                spec.append(['file', path, cid, int(zmtime(dt))])
    return spec, buf.getvalue()


JUNK_ZIP = b'PK\x03\x04 this only looks like an archive'
ZERO_DATE = (1980, 0, 0, 0, 0, 0)


def leaves(spec):
    for m in spec:
        if m[0] == 'file':
            yield os.path.basename(m[1]), m[2], m[3]
        elif m[0] == 'zip':
            for x in leaves(m[2]):
                yield x


def run_zipreader(rng, name, opts, more=()):
    """one archive, one reader; looks up `name` and then each name in `more` through the same reader object.
    Returns (result, model request, spec) of the first lookup, or with `more` a list of them."""
    from pysmi.reader.zipreader import ZipReader
    from pysmi import error
    from pysmi.compat import decode
    base = scratch_dir()
    try:
        spec, data = gen_archive(rng, [name] + list(more), 0, {'n': 0, 'nest': 0.4, 'same': 0.9} if more else {'n': 0})
        zp = os.path.join(base, 'mibs.zip')
        with open(zp, 'wb') as f:
            f.write(data)
        r = ZipReader(zp).setOptions(originalMatching=opts['original'], uppercaseMatching=opts['uppercase'],
                                     lowcaseMatching=opts['lowcase'], fuzzyMatching=opts['fuzzy'])
        results = []
        for nm in [name] + list(more):
            try:
                info, text = r.getData(nm)
                cands = [c for c in range(len(CONTENTS)) if decode(CONTENTS[c]) == text]
                got = {'alias': info.name, 'file': info.file, 'content': cands, 'mtime': int(info.mtime)}
            except error.PySmiReaderFileNotFoundError:
                got = 'notfound'
            except error.PySmiError:
                got = 'notfound'
            except Exception:
                got = 'indexerror'
            req = dict(opts, op='zipreader', name=nm, exts=EXTS, members=spec,
                       empty=[i for i, c in enumerate(CONTENTS) if not c])
            if results:
                req['history'] = [x[1]['name'] for x in results]      # looked up earlier through the same reader object
            results.append((got, req, spec))
        return results if more else results[0]
    finally:
        shutil.rmtree(base, ignore_errors=True)


URLS = ['/tmp/mibs', 'file:///usr/share/snmp/mibs', '/data/mibs.zip', 'file:///data/mibs.zip', 'zip:///data/mibs.ZIP',
        'zip:///data/dir', 'mibs.ZIP', 'relative/dir', 'http://mibs.example.com/asn1/@mib@', 'https://h/x.zip',
        'ftp://host/pub/@mib@', 'sftp://u:p@host:2222/x/@mib@', 'gopher://x/y', 'telnet://h/@mib@.zip',
        # the archive named where a host would stand (the form the documentation gives)
        'zip://mymibs.zip', 'zip://dir/sub/mymibs.ZIP', 'zip://mymibs', 'zip://relative/dir',
        # plain local paths are no URLs: '#', '?', ';' and '%' are characters of the path
        '/tmp/mibs#2', '/tmp/mibs?', '/tmp/mibs;old', '/tmp/mibs%41', 'rel/dir#1/mibs', '/data/a#b.zip', '/data/mibs.zip#x', 'a%2Fb',
        # ... of a file: URL they are escaped
        'file:///tmp/mibs%232', 'file:///data/a%23b.zip']


def run_urls(ctx):
    try:
        from urllib import parse as urlparse
        from urllib.request import url2pathname
    except ImportError:
        return
    from pysmi.reader.url import getReadersFromUrls
    from pysmi import error
    res = ctx.res
    reqs, metas = [], []
    for u in URLS:
        try:
            rs = getReadersFromUrls(u)
            kind = {'FileReader': 'file', 'ZipReader': 'zip', 'HttpReader': 'http', 'FtpReader': 'ftp'}[type(rs[0]).__name__]
        except error.PySmiError as e:
            kind = 'unsupported' if 'Unsupported URL scheme' in str(e) else 'error:' + str(e)
        pr = urlparse.urlparse(u)
        path = url2pathname(pr.path) if pr.scheme in ('file', 'zip') else pr.path
        if not pr.scheme:
            path = u            # a plain local path denotes itself
        raw_path = path
        if pr.scheme == 'zip' and pr.netloc:
            path = url2pathname(pr.netloc + pr.path)
        have = None
        if kind in ('file', 'zip'):
            # ... and the reader is made for that path
            have = getattr(rs[0], '_name', None) if kind == 'zip' else getattr(rs[0], '_path', None)
            if have != (path if kind == 'zip' else os.path.normpath(path)):
                res.oracle_failures.append({'key': 'url-kind', 'what': 'URL %s gives a %s reader on %r, the URL names %r' % (u, kind, have, path),
                                            'input': {'url': u, 'want_path': path}})
        if pr.scheme in ('', 'file', 'zip'):
            reqs.append({'op': 'urlkind', 'scheme': pr.scheme, 'netloc': pr.netloc, 'path': raw_path})
            metas.append((u, [kind, have if kind == 'zip' else (raw_path if not (pr.scheme == 'zip' and pr.netloc) else path)]
                          if kind in ('file', 'zip') else kind))
        else:
            reqs.append({'op': 'urlkind', 'scheme': pr.scheme, 'path': path})
            metas.append((u, kind))
        res.case(('url', u), True)
        res.count('url:' + kind)
        # oracle: what scheme and extension denote
        want = None
        if pr.scheme in ('http', 'https'):
            want = 'http'
        elif pr.scheme in ('ftp', 'sftp'):
            want = 'ftp'
        elif pr.scheme == 'file':
            want = 'file'
        elif pr.scheme in ('', 'zip'):
            want = 'zip' if u.lower().endswith('.zip') else 'file'
        if want and want != kind:
            res.oracle_failures.append({'key': 'url-kind', 'what': 'URL %s mapped to %s reader, expected %s' % (u, kind, want),
                                        'input': {'url': u, 'want': want}})
    if ctx.model is not None:
        for (u, kind), out in zip(metas, ctx.model.batch(reqs)):
            if out != kind:
                res.corr_failures.append({'what': 'getReadersFromUrls differs from Model.Reader.urlKind', 'url': u,
                                          'impl': kind, 'model': out})


def gen_opts(rng):
    if rng.random() < 0.6:
        return {'original': True, 'uppercase': True, 'lowcase': True, 'fuzzy': rng.random() < 0.7}
    o = {k: rng.random() < 0.6 for k in ('original', 'uppercase', 'lowcase', 'fuzzy')}
    return o


def is_default(o):
    return o['original'] and o['uppercase'] and o['lowcase']


def run(ctx):
    warnings.simplefilter('ignore')
    res, rng = ctx.res, ctx.rng
    res.rule = ('directory trees (0-4 nested sub-directories, files named by documented variants, decoys sharing a prefix/suffix '
                'with the name, directories named like variants, optional .index) and ZIP archives nested to depth 3 (duplicate '
                'base names, directory entries, empty and invalid-UTF-8 contents) x module names x option settings (default and '
                'random switch settings); URL shapes enumerated; non-trivial = at least one file/member present; distinct by tree+request')
    n = 150 if ctx.tier == 'quick' else 2500
    reqs, metas, treqs = [], [], []
    for i in range(n):
        name = rng.choice(NAMES)
        opts = gen_opts(rng)
        got, exact, req, present, index = run_filereader(rng, name, opts, rng.random() < 0.3)
        res.case(('dir', req['dirs'], name, sorted(opts.items()), index), bool(present))
        res.count('filereader:' + (got if isinstance(got, str) else 'found'))
        indexed = any(k == name for k, _ in index)
        if run_filereader.missing_dirs:
            res.oracle_failures.append({'key': 'not-found', 'what': 'sub-directories %s of the tree are not searched' % run_filereader.missing_dirs,
                                        'input': {'filereader': dict(req, expect_dirs=len(req['dirs']) + len(run_filereader.missing_dirs))}})
        if isinstance(got, dict):
            if not exact:
                res.oracle_failures.append({'key': 'exact-content', 'what': 'FileReader returned altered content/mtime/name for %s' % name,
                                            'input': {'filereader': req}})
            if not indexed and got['file'] not in liberal_variants(name):
                res.oracle_failures.append({'key': 'unrelated-file', 'what': 'FileReader returned %s for module %s' % (got['file'], name),
                                            'input': {'filereader': req}})
            if indexed and got['file'] != [v for k, v in index if k == name][-1]:
                res.oracle_failures.append({'key': 'index-precedence', 'what': '.index maps %s to %s but %s was returned' % (
                    name, [v for k, v in index if k == name][-1], got['file']), 'input': {'filereader': req}})
        elif got == 'indexerror':
            res.oracle_failures.append({'key': 'raises', 'what': 'FileReader.getData(%s) raised an exception that is not the package error under %r' % (name, sorted(opts.items())),
                                        'input': {'filereader': req}})
        elif got == 'notfound' and not indexed:
            hit = present & doc_variants(name, opts['fuzzy'], opts=opts)
            if hit:
                res.oracle_failures.append({'key': 'not-found', 'what': 'FileReader reports %s not found although %s exist' % (
                    name, sorted(hit)), 'input': {'filereader': req}})
        reqs.append(req)
        metas.append(('dir', got))
        treqs.append(({'op': 'subdirs', 'tree': run_filereader.tree[0]}, run_filereader.tree[1]))
    lookups = []
    for i in range(n):
        name = rng.choice(NAMES)
        opts = gen_opts(rng)
        if i % 3 == 2:
            # several lookups through one reader object: an answer does not depend on what was looked up before
            if i % 2 == 0:
                opts = {'original': True, 'uppercase': True, 'lowcase': True, 'fuzzy': rng.random() < 0.7}
            seq = run_zipreader(rng, name, opts, more=[rng.choice(NAMES) for _ in range(rng.randint(1, 4))])
            res.count('zip-reader-reused')
            lookups.extend(seq)
        else:
            lookups.append(run_zipreader(rng, name, opts))
    for got, req, spec in lookups:
        name, opts = req['name'], {'original': req['original'], 'uppercase': req['uppercase'], 'lowcase': req['lowcase'], 'fuzzy': req['fuzzy']}
        lv = list(leaves(spec))
        res.case(('zip', spec, name, sorted(opts.items())), bool(lv))
        res.count('zipreader:' + (got if isinstance(got, str) else 'found'))
        res.count('zip-depth:%d' % max([0] + [str(spec).count("'zip'")]))
        if isinstance(got, dict):
            if not any(b == got['file'] and c in got['content'] and m == got['mtime'] for b, c, m in lv):
                res.oracle_failures.append({'key': 'exact-content', 'what': 'ZipReader returned content/mtime that is no member named %s' % got['file'],
                                            'input': {'zipreader': req}})
            if got['file'] not in liberal_variants(name):
                res.oracle_failures.append({'key': 'unrelated-file', 'what': 'ZipReader returned %s for module %s' % (got['file'], name),
                                            'input': {'zipreader': req}})
        elif got == 'indexerror':
            res.oracle_failures.append({'key': 'raises', 'what': 'ZipReader.getData(%s) raised IndexError under %r' % (name, sorted(opts.items())),
                                        'input': {'zipreader': req}})
        elif got == 'notfound':
            # a base name that also occurs with empty content may be shadowed by it (members are keyed by base name)
            shadowed = {b for b, c, m in lv if not CONTENTS[c]}
            hit = ({b for b, c, m in lv if CONTENTS[c]} - shadowed) & doc_variants(name, opts['fuzzy'], opts=opts)
            if hit:
                res.oracle_failures.append({'key': 'not-found', 'what': 'ZipReader reports %s not found although members %s exist' % (
                    name, sorted(hit)), 'input': {'zipreader': req}})
        reqs.append(req)
        metas.append(('zip', got))
    run_urls(ctx)
    if ctx.model is not None:
        for (tag, got), req, out in zip(metas, reqs, ctx.model.batch(reqs)):
            if isinstance(out, dict) and 'driver_error' in out:
                res.corr_failures.append({'what': 'driver error ' + out['driver_error'], 'req': req})
                continue
            ok = (out == got)
            if tag == 'zip' and isinstance(got, dict) and isinstance(out, dict):
                ok = (out['alias'] == got['alias'] and out['file'] == got['file'] and out['content'] in got['content']
                      and out['mtime'] == got['mtime'])
            if not ok:
                res.corr_failures.append({'what': '%s reader differs from Model.Reader' % tag, 'req': req, 'impl': got, 'model': out})
        res.sample({'request': reqs[0], 'impl': metas[0][1]})
        res.sample({'request': reqs[n], 'impl': metas[n][1]})
        # the directories searched, in order, vs the pre-order of the tree (Model.Tree)
        for (treq, impl_rows), out in zip(treqs, ctx.model.batch([t for t, _ in treqs])):
            res.count('subdirs-trees')
            if out.get('dirs') != impl_rows:
                res.corr_failures.append({'what': 'getSubdirs differs from Model.Tree.flatten', 'tree': treq['tree'], 'impl': impl_rows, 'model': out.get('dirs')})


def search(ctx):
    ctx.tier = 'thorough'
    run(ctx)


def build_zip(spec):
    buf = io.BytesIO()
    with zipfile.ZipFile(buf, 'w') as z:
        for m in spec:
            if m[0] == 'file':
                dt = datetime.datetime.fromtimestamp(m[3]).timetuple()[:6] if m[3] else ZERO_DATE
                z.writestr(zipfile.ZipInfo(m[1], dt), CONTENTS[m[2]])
            elif m[0] == 'dir':
                z.writestr(zipfile.ZipInfo(m[1], (2020, 1, 1, 0, 0, 0)), b'' if m[1].endswith('/') else JUNK_ZIP)
            else:
                z.writestr(zipfile.ZipInfo(m[1], (2020, 1, 1, 0, 0, 0)), build_zip(m[2]))
    return buf.getvalue()


def replay(payload):
    """re-materialises the recorded archive / directory listing and asks the real reader again"""
    warnings.simplefilter('ignore')
    from pysmi import error
    from pysmi.compat import decode
    inp = payload['input']
    if 'url' in inp:
        from pysmi.reader.url import getReadersFromUrls
        try:
            rs = getReadersFromUrls(inp['url'])
            kind = {'FileReader': 'file', 'ZipReader': 'zip', 'HttpReader': 'http', 'FtpReader': 'ftp'}.get(type(rs[0]).__name__, '?')
        except error.PySmiError as e:
            kind = 'error'
        if 'want_path' in inp:
            have = getattr(rs[0], '_name', None) or getattr(rs[0], '_path', None)
            return {'fails': have not in (inp['want_path'], os.path.normpath(inp['want_path'])), 'what': have}
        return {'fails': 'want' in inp and kind != inp['want'], 'what': kind}
    base = scratch_dir()
    try:
        if 'zipreader' in inp:
            from pysmi.reader.zipreader import ZipReader
            req = inp['zipreader']
            zp = os.path.join(base, 'mibs.zip')
            with open(zp, 'wb') as f:
                f.write(build_zip(req['members']))
            r = ZipReader(zp).setOptions(originalMatching=req['original'], uppercaseMatching=req['uppercase'],
                                         lowcaseMatching=req['lowcase'], fuzzyMatching=req['fuzzy'])
            lv = list(leaves(req['members']))
            for earlier in req.get('history', []):
                try:
                    r.getData(earlier)
                except error.PySmiReaderFileNotFoundError:
                    pass
            try:
                info, text = r.getData(req['name'])
                ok = any(b == info.file and decode(CONTENTS[c]) == text and m == int(info.mtime) for b, c, m in lv) \
                    and info.file in liberal_variants(req['name'])
                return {'fails': not ok, 'what': 'returned %s' % info.file}
            except error.PySmiReaderFileNotFoundError:
                shadowed = {b for b, c, m in lv if not CONTENTS[c]}
                hit = ({b for b, c, m in lv if CONTENTS[c]} - shadowed) & doc_variants(req['name'], req['fuzzy'], opts=req)
                return {'fails': bool(hit), 'what': 'not found although %s exist' % sorted(hit)}
            except error.PySmiError:
                raise
            except Exception as e:
                return {'fails': True, 'what': type(e).__name__}
        req = inp['filereader']
        from pysmi.reader.localfile import FileReader
        root = os.path.join(base, 'mibs')
        ndirs = max(len(req['dirs']), req.get('expect_dirs', 0))
        for i in range(ndirs):
            row = req['dirs'][i] if i < len(req['dirs']) else []
            d = os.path.join(root, *(['d%d' % k for k in range(1, i + 1)]))
            if i and (i in req.get('links', []) or i >= len(req['dirs'])):
                # (recorded as a link, or a directory the reader did not search: replayed as a linked directory)
                target = os.path.join(base, 'linked%d' % i)
                os.makedirs(target)
                os.symlink(target, d)
            else:
                os.makedirs(d, exist_ok=True)
            for fn, cid, mt in row:
                with open(os.path.join(d, fn), 'wb') as f:
                    f.write(CONTENTS[cid])
                os.utime(os.path.join(d, fn), ns=(mt * 10 ** 9 + 250000000,) * 2)
        if req['index']:
            with open(os.path.join(root, '.index'), 'wb') as f:
                f.write(b'\nloneword\n' + bytes(req.get('indexJunk', [])))
                for k, v in req['index']:
                    f.write(('%s %s\n' % (k, v)).encode())
        kw = {}
        if req.get('large'):
            kw['maxMibSize'] = min(len(CONTENTS[i]) for i in req['large'])
        r = FileReader(root).setOptions(originalMatching=req['original'], uppercaseMatching=req['uppercase'],
                                        lowcaseMatching=req['lowcase'], fuzzyMatching=req['fuzzy'], **kw)
        present = {fn for row in req['dirs'] for fn, _, _ in row}
        indexed = [v for k, v in req['index'] if k == req['name']]
        if 'expect_dirs' in req:
            got_dirs = r.getSubdirs(root, True, True)
            if len(got_dirs) != req['expect_dirs']:
                return {'fails': True, 'what': '%d of %d directories searched' % (len(got_dirs), req['expect_dirs'])}
        try:
            info, data = r.getData(req['name'])
            with open(info.path[len('file://'):], 'rb') as f:
                raw = f.read()
            ok = info.mtime == os.stat(info.path[len('file://'):])[8] and type(info.mtime) is int and data == decode(raw) and (info.file in liberal_variants(req['name']) or indexed) and \
                (not indexed or info.file == indexed[-1])
            return {'fails': not ok, 'what': 'returned %s' % info.file}
        except error.PySmiReaderFileNotFoundError:
            hit = present & doc_variants(req['name'], req['fuzzy'], opts=req)
            return {'fails': bool(hit) and not indexed, 'what': 'not found although %s exist' % sorted(hit)}
        except error.PySmiError:
            return {'fails': False, 'what': 'reader error (size limit)'}
        except Exception as e:
            return {'fails': True, 'what': type(e).__name__}
    finally:
        shutil.rmtree(base, ignore_errors=True)
