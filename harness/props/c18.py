"""C18 — the OID->module index covers every indexed OID and merges monotonically."""
import itertools
import json

from common import scratch_dir
import shutil
import os

LEVEL = 'proof'
TECHNIQUE = 'Lean 4 theorems (induction over the module list and the compaction loop) about a model of genIndex; differential correspondence model vs genIndex/buildIndex; oracle search'
LEVEL_TEXT = ('Cover, only-own, identity/enterprise/compliance sections and monotonicity are proved in Lean for every old '
              'index, every list of module summaries and every OID set (unbounded), generically in the prefix test and then '
              'for the exact string test the code performs (dotPrefix_iff: it is the component-wise prefix relation on all '
              'strings). Idempotence is proved too (C18_reindex_same): running genIndex again on the same results on top of its own output gives '
              'the same keys and the same modules under every key in all four sections, for every old index with distinct keys (a Python dict); '
              'it rests on the minimality of what the compaction pass keeps (it visits shallower keys first). The model is '
              'tied to genIndex by differential runs (exhaustive small scope + random build sequences). What buildIndex reads back as the old index is the writer\'s business, outside the model: that an index which exists but cannot be read or decoded is not taken for no index (it used to be, and was then written over) is decided by execution, with the read faulted (partial: runtime).')
LEVEL_NOTE = ('Trusted: Lean kernel + standard axioms, the hand-written model of genIndex up to order(), the correspondence '
              'harness, json/sorted in CPython. The order in which a status yields its OIDs is an explicit model input.')
MODULES = ['Pysmi.Props.C18', 'Pysmi.Props.C18Reindex', 'Pysmi.Pins.SkelC18']
LAKE_TARGETS = ['Pysmi.Props.C18', 'Pysmi.Props.C18Reindex', 'Pysmi.Pins.SkelC18']
THEOREMS = [
    'Pysmi.Pins.SkelC18.pin_jsonGenIndex',
    'Pysmi.Pins.SkelC18.pin_buildIndex',
    'Pysmi.Index.C18_cover_generic',
    'Pysmi.Index.C18_cover',
    'Pysmi.Index.C18_only_own',
    'Pysmi.Index.C18_identity_sections',
    'Pysmi.Index.C18_monotone',
    'Pysmi.Index.C18_monotone_str',
    'Pysmi.Index.dotPrefix_iff',
    'Pysmi.Index.C18_cover_false_for_string_prefix',
    'Pysmi.Index.compact_minimal',
    'Pysmi.Index.compact_reindex',
    'Pysmi.Index.C18_reindex_oids',
    'Pysmi.Index.C18_reindex_sections',
    'Pysmi.Index.C18_reindex_same',
    'Pysmi.Index.dotPrefix_strict',
]
ASSUMPTIONS = [
    'genIndex is modelled by hand (Model/Index.lean) up to the final order() call; tied by this run\'s correspondence',
    'json.loads/json.dumps and the sorting done by order() are library behaviour, canonicalised away',
    'the order in which a status object yields its OIDs is an input of the model (the real attribute is a set)',
]

SECTIONS = ('identity', 'enterprise', 'compliance', 'oids')

# OID universe: digit-sharing siblings 4/48/480, nested subtrees, enterprise arcs
UNIVERSE = ['1.3', '1.3.4', '1.3.48', '1.3.480', '1.3.4.1', '1.3.4.10', '1.3.48.1', '1.3.6.1.4.1.9',
            '1.3.6.1.4.1.99', '1.3.6.1.4.1.9.1', '1.3.6.1.4.1.99.2.1', '1.30']


def comp_prefix(a, b):
    x, y = a.split('.'), b.split('.')
    return x == y[:len(x)]


def canon(idx):
    return {s: {k: sorted(set(v)) for k, v in idx.get(s, {}).items()} for s in SECTIONS}


def canon_pairs(out):
    return {s: {k: sorted(set(v)) for k, v in out[s]} for s in SECTIONS}


class St:
    """stand-in for MibStatus with the attributes genIndex reads"""


def gen_case(rng, tier):
    nmods = rng.randint(1, 4)
    mods = []
    for i in range(nmods):
        name = rng.choice(['A', 'B', 'C', 'D-MIB', 'E'])
        if any(m['name'] == name for m in mods):
            continue
        k = rng.randint(0, 6)
        oids = rng.sample(UNIVERSE, k)
        if rng.random() < 0.2:
            oids.append('1.3.%d.%d' % (rng.randint(1, 500), rng.randint(0, 50)))
        mods.append({
            'name': name,
            'identity': rng.choice(oids) if oids and rng.random() < 0.6 else rng.choice([None, '']),
            'enterprise': rng.choice([None, '1.3.6.1.4.1.9', '1.3.6.1.4.1.99']),
            'compliance': rng.sample(oids, min(len(oids), rng.randint(0, 2))),
            'oids': oids,
        })
    return mods


def impl_index(mods, old_text):
    from pysmi.codegen.jsondoc import JsonCodeGen
    from pysmi.compiler import MibStatus
    processed = {}
    for m in mods:
        st = MibStatus('compiled').setOptions(identity=m['identity'], enterprise=m['enterprise'],
                                              compliance=list(m['compliance']), oids=list(m['oids']))
        processed[m['name']] = st
    kwargs = {}
    if old_text:
        kwargs['old_index_data'] = old_text
    return JsonCodeGen().genIndex(processed, **kwargs)


def to_model_req(mods, old_text):
    old = {s: [] for s in SECTIONS}
    if old_text:
        d = json.loads(old_text, object_pairs_hook=list)
        for k, v in d:
            if k in SECTIONS:
                old[k] = [[kk, vv] for kk, vv in v]
    return {'op': 'index', 'old': old,
            'mods': [{'name': m['name'], 'identity': m['identity'] or None, 'enterprise': m['enterprise'] or None,
                      'compliance': m['compliance'], 'oids': m['oids']} for m in mods]}


def oracle(mods, old_text, new_text):
    """The property, stated on the implementation's observable output. Returns list of failures."""
    fails = []
    try:
        new = canon(json.loads(new_text))
    except Exception as e:
        return ['index is not valid JSON: %r' % e]
    old = canon(json.loads(old_text)) if old_text else canon({})
    for m in mods:
        n = m['name']
        if m['identity'] and n not in new['identity'].get(m['identity'], []):
            fails.append('identity-section: %s not listed under %s' % (n, m['identity']))
        if m['enterprise'] and n not in new['enterprise'].get(m['enterprise'], []):
            fails.append('enterprise-section: %s not listed under %s' % (n, m['enterprise']))
        for c in m['compliance']:
            if n not in new['compliance'].get(c, []):
                fails.append('compliance-section: %s not listed under %s' % (n, c))
        for o in m['oids']:
            if not any(comp_prefix(k, o) and n in v for k, v in new['oids'].items()):
                fails.append('cover: OID %s of module %s has no component-wise prefix entry naming it' % (o, n))
    defined = {}
    for m in mods:
        defined.setdefault(m['name'], set()).update(m['oids'])
    for k, v in new['oids'].items():
        for n in v:
            if k not in defined.get(n, ()) and n not in old['oids'].get(k, []):
                fails.append('only-own: %s listed under %s which it does not define' % (n, k))
    for s in ('identity', 'enterprise', 'compliance'):
        for k, v in old[s].items():
            for n in v:
                if n not in new[s].get(k, []):
                    fails.append('monotone: old %s entry %s->%s lost' % (s, k, n))
    for k, v in old['oids'].items():
        for n in v:
            if not any(comp_prefix(k2, k) and n in v2 for k2, v2 in new['oids'].items()):
                fails.append('monotone: cover of %s for %s lost' % (k, n))
    return fails


def truth_summaries(g):
    """what the text of each generated module defines: OID of its MODULE-IDENTITY, the enterprise arc of its first symbol
    under enterprises (in declaration order), OIDs of its MODULE-COMPLIANCE statements, every OID"""
    from gen import mibgen
    out = []
    for mn, m in g.modules.items():
        ident, ent, comp, oids = None, None, [], []
        for d in m['decls']:
            t = g.truth.get((mn, d['name']))
            if not t or 'oid' not in t:
                continue
            o = mibgen.dotted(t['oid'])
            oids.append(o)
            if d['kind'] == 'moduleIdentity':
                ident = o
            if d['kind'] == 'moduleCompliance':
                comp.append(o)
            if ent is None and o.startswith('1.3.6.1.4.1.'):
                ent = '.'.join(o.split('.')[:7])
        out.append({'name': mn, 'identity': ident, 'enterprise': ent, 'compliance': comp, 'oids': oids})
    return out


def real_results_stream(ctx):
    """the index built from the results of real compile() calls over generated module sets, judged against what the texts define"""
    from props import codegen_common as cg
    from pysmi.codegen.jsondoc import JsonCodeGen
    from pysmi.compiler import MibStatus
    res = ctx.res
    n = 25 if ctx.tier == 'quick' else 400
    for i in range(n):
        seed = ctx.seed * 100000 + 90000 + i
        obs = cg.run_set(seed, backends=('json',), wild=(i % 4 == 0))
        mods = truth_summaries(obs['gen'])
        res.case(('real-index', tuple(sorted(obs['texts'].items()))), True)
        res.count('real-index-sets')
        if any(obs['status'].get('json', {}).get(m['name']) != 'compiled' for m in mods):
            continue
        inp = {'seed': seed, 'texts': obs['texts'], 'run_set': obs.get('run_set'), 'real_index': True}
        fails = real_index_failures(obs, mods)
        for fl in fails[:3]:
            res.oracle_failures.append({'key': 'real-' + fl.split(':')[0], 'what': 'index of real compile results: ' + fl, 'input': inp})


def real_index_failures(obs, mods):
    from pysmi.codegen.jsondoc import JsonCodeGen
    from pysmi.compiler import MibStatus
    fails = []
    processed = {}
    for m in mods:
        sm = obs['summary'].get(m['name'])
        if sm is None:
            continue
        for k in ('identity', 'enterprise'):
            if (sm.get(k) or None) != m[k]:
                fails.append('summary-%s: %s reports %r, its text defines %r' % (k, m['name'], sm.get(k), m[k]))
        if list(sm.get('compliance') or []) != m['compliance']:
            fails.append('summary-compliance: %s reports %r, its text defines %r' % (m['name'], sm.get('compliance'), m['compliance']))
        processed[m['name']] = MibStatus('compiled').setOptions(identity=sm.get('identity'), enterprise=sm.get('enterprise'),
                                                               compliance=list(sm.get('compliance') or []), oids=list(sm.get('oids') or []))
    # base modules compiled along with the set are 'untouched': they carry no data and must not disturb anything
    for name, stt in obs['status'].get('json', {}).items():
        if name not in processed:
            processed[name] = MibStatus(stt)
    text = JsonCodeGen().genIndex(processed)
    fails += oracle(mods, None, text)
    return fails


def run_case(ctx, mods, old_text, reqs, metas):
    res = ctx.res
    try:
        new_text = impl_index(mods, old_text)
    except Exception as e:
        res.oracle_failures.append({'key': 'genIndex-raises', 'what': 'genIndex raised %r' % e,
                                    'input': {'mods': mods, 'old': old_text}})
        return None
    fails = oracle(mods, old_text, new_text)
    # idempotence: re-index the same results on top of the result
    again = impl_index(mods, new_text)
    if canon(json.loads(again)) != canon(json.loads(new_text)):
        fails.append('idempotent: re-indexing the same results changed the index')
    for f in fails[:3]:
        res.oracle_failures.append({'key': f.split(':')[0], 'what': f, 'input': {'mods': mods, 'old': old_text}})
    reqs.append(to_model_req(mods, old_text))
    metas.append((mods, old_text, new_text))
    nontrivial = sum(len(m['oids']) for m in mods) >= 2
    res.case((mods, old_text), nontrivial)
    res.count('modules=%d' % len(mods))
    res.count('with_old_index' if old_text else 'fresh_index')
    shared = any(a != b and a.startswith(b) and not comp_prefix(b, a)
                 for m in mods for a in m['oids'] for b in m['oids'])
    if shared:
        res.count('digit_sharing_siblings')
    return new_text


def run(ctx):
    res, rng = ctx.res, ctx.rng
    res.rule = ('module summaries drawn from a 12-OID universe with digit-sharing siblings (4/48/480), nested and '
                'shared subtrees, plus random arcs; sequences of incremental builds where each build starts from '
                'the real previous output; non-trivial = at least two OIDs in the batch; distinct by full input')
    n_seq = 150 if ctx.tier == 'quick' else 2500
    reqs, metas = [], []
    # exhaustive small scope: one module, every ordered pair / triple of the universe
    scope = 2 if ctx.tier == 'quick' else 3
    for oids in itertools.permutations(UNIVERSE[:8], scope):
        mods = [{'name': 'A', 'identity': None, 'enterprise': None, 'compliance': [], 'oids': list(oids)}]
        run_case(ctx, mods, None, reqs, metas)
    for _ in range(n_seq):
        old = None
        for step in range(rng.randint(1, 4)):
            mods = gen_case(rng, ctx.tier)
            if not mods:
                continue
            old = run_case(ctx, mods, old, reqs, metas)
            if old is None:
                break
    # through MibCompiler.buildIndex + FileWriter read-back
    run_buildindex(ctx)
    real_results_stream(ctx)
    if ctx.model is not None:
        outs = ctx.model.batch(reqs)
        for (mods, old_text, new_text), out in zip(metas, outs):
            if 'driver_error' in out:
                res.corr_failures.append({'what': 'driver error ' + out['driver_error'], 'mods': mods})
                continue
            if canon_pairs(out) != canon(json.loads(new_text)):
                res.corr_failures.append({'what': 'genIndex output differs from Model.Index.buildStr',
                                          'mods': mods, 'old': old_text,
                                          'impl': canon(json.loads(new_text)), 'model': canon_pairs(out)})
        res.sample({'mods': metas[-1][0], 'old_index': metas[-1][1] and json.loads(metas[-1][1]),
                    'impl_index': canon(json.loads(metas[-1][2]))})


def build_sequence(builds, on_step=None):
    """builds: [(compiler number, module summaries)…] against one destination directory, each compiler object with its own
    FileWriter; returns the list of failures of the oracle (each step judged against the index file as it was before it)"""
    from pysmi.compiler import MibCompiler, MibStatus
    from pysmi.codegen.jsondoc import JsonCodeGen
    from pysmi.writer.localfile import FileWriter
    d = scratch_dir()
    fails = []
    try:
        comps = {}
        prev = None
        seen_names = set()
        for who, mods in builds:
            if who not in comps:
                comps[who] = MibCompiler(None, JsonCodeGen(), FileWriter(d).setOptions(suffix='.json'))
            processed = {m['name']: MibStatus('compiled').setOptions(
                identity=m['identity'], enterprise=m['enterprise'], compliance=m['compliance'], oids=m['oids'])
                for m in mods}
            # modules indexed by an earlier build come back as merely up to date / unprocessed / failed: no data, nothing to lose
            for k_, nm in enumerate(sorted(seen_names - set(processed))):
                if (len(processed) + k_) % 2 == 0:
                    processed[nm] = MibStatus(['untouched', 'unprocessed', 'failed', 'missing', 'borrowed'][(len(nm) + k_) % 5])
            seen_names.update(m['name'] for m in mods)
            comps[who].buildIndex(processed)
            with open(os.path.join(d, 'index.json')) as f:
                text = f.read()
            fails += oracle(mods, prev, text)
            if on_step:
                on_step()
            prev = text
    finally:
        shutil.rmtree(d, ignore_errors=True)
    return fails


def unreadable_index(mods_a, mods_b, how):
    """an index that exists but cannot be read back (no permission, or bytes that are no text) is not "no index": the build
    either merges into it or reports the writer's error and leaves it alone - it never starts from scratch and writes over it.
    Returns the list of failures."""
    import pysmi.writer.localfile as lf
    from pysmi import error
    from pysmi.compiler import MibCompiler, MibStatus
    from pysmi.codegen.jsondoc import JsonCodeGen
    d = scratch_dir()
    fails = []

    def st(mods):
        return {m['name']: MibStatus('compiled').setOptions(identity=m['identity'], enterprise=m['enterprise'], compliance=m['compliance'], oids=m['oids'])
                for m in mods}
    try:
        comp = MibCompiler(None, JsonCodeGen(), lf.FileWriter(d).setOptions(suffix='.json'))
        comp.buildIndex(st(mods_a))
        path = os.path.join(d, 'index.json')
        if how == 'undecodable':
            with open(path, 'rb') as f:
                raw = f.read()
            with open(path, 'wb') as f:
                f.write(raw.replace(b'{', b'{ "\xff\xfe": 1, ', 1))
        with open(path, 'rb') as f:
            before = f.read()
        real_open = open

        def no_permission(name, *a, **kw):
            if how == 'no-permission' and os.path.abspath(str(name)) == os.path.abspath(path) and not (a and 'w' in str(a[0])):
                raise IOError(13, 'Permission denied', str(name))
            return real_open(name, *a, **kw)
        lf.open = no_permission
        try:
            try:
                comp.buildIndex(st(mods_b))
                outcome = 'returned'
            except error.PySmiError:
                outcome = 'writer error'
            except BaseException as e:
                outcome = type(e).__name__
        finally:
            del lf.open
        with open(path, 'rb') as f:
            after = f.read()
        if outcome not in ('returned', 'writer error'):
            fails.append('unreadable-index: buildIndex over an index that is %s raised %s' % (how, outcome))
        if after != before:
            if outcome == 'writer error':
                fails.append('unreadable-index: buildIndex reported an error and changed the index all the same')
            else:
                old = json.loads(before.replace(b'"\xff\xfe": 1, ', b'').decode())
                try:
                    fails += oracle(mods_b, json.dumps(old), after.decode())
                except Exception as e:
                    fails.append('unreadable-index: the index written over one that is %s cannot be judged: %s' % (how, type(e).__name__))
    finally:
        shutil.rmtree(d, ignore_errors=True)
    return fails


def run_buildindex(ctx):
    """The same through MibCompiler.buildIndex with a real FileWriter (read-back of the old index): one compiler, and two
    or three compiler objects taking turns on the same destination directory."""
    for k in range(1 if ctx.tier == 'quick' else 20):
        for n_comp in (1, 2, 3):
            builds = [(ctx.rng.randrange(n_comp), gen_case(ctx.rng, ctx.tier)) for _ in range(6)]
            fails = build_sequence(builds, on_step=lambda: ctx.res.count('buildIndex_steps'))
            for fl in fails[:3]:
                ctx.res.oracle_failures.append({'key': fl.split(':')[0], 'what': 'buildIndex (%d compiler objects taking turns): %s' % (n_comp, fl),
                                                'input': {'builds': builds}})
    for k in range(2 if ctx.tier == 'quick' else 20):
        for how in ('no-permission', 'undecodable'):
            a, b = gen_case(ctx.rng, ctx.tier), gen_case(ctx.rng, ctx.tier)
            ctx.res.case(('unreadable-index', how, json.dumps(a, sort_keys=True), json.dumps(b, sort_keys=True)), True)
            ctx.res.count('unreadable-index:' + how)
            for fl in unreadable_index(a, b, how)[:2]:
                ctx.res.oracle_failures.append({'key': 'unreadable-index' if fl.startswith('unreadable-index') else fl.split(':')[0],
                                                'what': fl if fl.startswith('unreadable-index') else 'over an index that is %s: %s' % (how, fl),
                                                'input': {'unreadable': [a, b, how]}})


def search(ctx):
    """Extended oracle-only search for a failing input."""
    rng = ctx.rng
    reqs, metas = [], []
    for oids in itertools.permutations(UNIVERSE, 3):
        mods = [{'name': 'A', 'identity': None, 'enterprise': None, 'compliance': [], 'oids': list(oids)}]
        run_case(ctx, mods, None, reqs, metas)
        if ctx.res.oracle_failures:
            return
    for _ in range(3000):
        old = None
        for step in range(3):
            mods = gen_case(rng, 'thorough')
            if mods:
                old = run_case(ctx, mods, old, reqs, metas)
        if ctx.res.oracle_failures:
            return


def replay(payload):
    inp = payload['input']
    if inp.get('real_index'):
        from props import codegen_common as cg
        kw = dict(inp['run_set'])
        kw['backends'] = tuple(kw.get('backends') or ('json',))
        obs = cg.run_set(inp['seed'], **kw)
        fails = real_index_failures(obs, truth_summaries(obs['gen']))
        key = payload.get('key')
        if key:
            fails = [f for f in fails if 'real-' + f.split(':')[0] == key] or []
        return {'fails': bool(fails), 'what': fails[:5]}
    if 'unreadable' in inp:
        fails = unreadable_index(*inp['unreadable'])
        return {'fails': bool(fails), 'what': fails[:5]}
    if 'builds' in inp:
        fails = build_sequence([tuple(b) for b in inp['builds']])
        key = payload.get('key')
        if key:
            fails = [f for f in fails if f.split(':')[0] == key]
        return {'fails': bool(fails), 'what': fails[:5]}
    new_text = impl_index(inp['mods'], inp.get('old'))
    fails = oracle(inp['mods'], inp.get('old'), new_text)
    again = impl_index(inp['mods'], new_text)
    if canon(json.loads(again)) != canon(json.loads(new_text)):
        fails.append('idempotent: re-indexing the same results changed the index')
    key = payload.get('key')
    if key:
        fails = [f for f in fails if f.split(':')[0] == key]
    return {'fails': bool(fails), 'what': fails[:5], 'index': json.loads(new_text)}
