"""C12 — results depend only on the input: no state leaks, no hash-seed dependence."""
import copy
import json
import os
import random
import re
import subprocess
import sys

import grammar
import fieldflow
from common import HARNESS, REPO
from gen import mibgen
from impl import pipeline
from impl.hashseed_worker import status_view
from props import parse_common as pc

LEVEL = 'proof'
MODULES = ['Pysmi.Props.C12', 'Pysmi.Pins.Lex', 'Pysmi.Pins.SkelC12']
LAKE_TARGETS = ['Pysmi.Props.C12', 'Pysmi.Pins.Lex', 'Pysmi.Pins.SkelC12']
CLASSES = ['symtable', 'intermediate', 'pysnmp', 'jsondoc', 'parser', 'compiler']
THEOREMS = (['Pysmi.Pins.SkelC12.pin_lexerReset', 'Pysmi.Obj.C12_history_independent', 'Pysmi.Obj.C12_leak_witness', 'Pysmi.Obj.parseFrom_fresh',
             'Pysmi.Obj.C12_parser_history_independent', 'Pysmi.Obj.C12_sorted_order_free', 'Pysmi.Obj.C12_unsorted_witness'] +
            ['Pysmi.Generated.Fields.C12_covered_%s' % c for c in CLASSES] +
            ['Pysmi.Generated.Fields.pin_setIterations_%s' % c for c in CLASSES] + ['Pysmi.Generated.Fields.C12_no_class_level_state'])
TECHNIQUE = ('Lean 4 theorems: frame theorem for stateful objects (entry method re-initialises `resets`; body reads only `reads`, writes only '
             '`writes`; every field read is reset or never written => the output after ANY history equals the output of a fresh object), '
             'instantiated by kernel-decided coverage of the field tables regenerated from the Python source by a static analysis on every '
             'run; parser-object theorem (reset in finally => fresh answers after any history, tied to the LR/lexer model); sort-after-set '
             'theorem and pinned list of unsorted set iterations. The tables are validated against the running code (field scrambling, '
             'deep snapshots); histories through shared parser/generator/compiler objects vs fresh ones (changing module editions, broken-then-intact sets, changing per-call options including a user template); compile() with the package\'s debug logging of every category on and off; whole pipeline under several '
             'PYTHONHASHSEED values in subprocesses')
LEVEL_TEXT = ('Proved in Lean for histories of every length and content: an object whose fields satisfy the coverage condition answers every '
              'call as a fresh object would; the condition is decided by the kernel on the read/write/reset tables extracted from the source '
              'of SymtableCodeGen, IntermediateCodeGen, PySnmpCodeGen, JsonCodeGen and SmiV2Parser on every run; the parser object returns to '
              'its initial lexer state after every parse() whatever the outcome, hence parse() equals the fresh-parser model LR.parse; '
              'sorting after iterating a set removes the dependence on the enumeration order. Modelled rather than verified: that the body '
              'really reads/writes only the listed fields (static analysis of self.X accesses; aliasing through locals, class-level mutable '
              'data, module globals and the PLY objects are outside it) - this is what the scrambling/snapshot runs, the shared-object '
              'histories and the hash-seed subprocess runs check on every run (partial). MibCompiler keeps all per-call state in locals: its table of written fields is empty (C12_covered_compiler) and the '
              'histories exercise it. Class-level mutable data is covered by a second static table: no function of any of the 48 modules stores into an object that lives at class level (C12_no_class_level_state), which is the state that would cross objects and lexer / parser dialects; the dialect histories (fresh parsers of different dialects in one interpreter vs each step in an interpreter of its own) exercise that.')
LEVEL_NOTE = ('Trusted: Lean kernel + standard axioms; harness/fieldflow.py (static analysis) and translate.py; the harness; CPython set/dict '
              'semantics; PLY.')
ASSUMPTIONS = ['the error message of "Unknown parent symbol" may name a different one of several unknown parents under another hash seed; '
               'error class, status and line are compared, the named symbol is not',
               'time stamps in the generated header comment are masked before comparison']

STAMP = re.compile(r'Produced by \S+ at [^\n"\\]*')
SMIV1_INDEX = '''ACME-V1IDX-MIB DEFINITIONS ::= BEGIN
IMPORTS enterprises, Counter FROM RFC1155-SMI OBJECT-TYPE FROM RFC-1212;
acmeV1 OBJECT IDENTIFIER ::= { enterprises 97 }
acmeTable OBJECT-TYPE SYNTAX SEQUENCE OF AcmeEntry ACCESS not-accessible STATUS mandatory DESCRIPTION "t" ::= { acmeV1 1 }
acmeEntry OBJECT-TYPE SYNTAX AcmeEntry ACCESS not-accessible STATUS mandatory DESCRIPTION "e" INDEX { INTEGER } ::= { acmeTable 1 }
AcmeEntry ::= SEQUENCE { acmeCol Counter }
acmeCol OBJECT-TYPE SYNTAX Counter ACCESS read-only STATUS mandatory DESCRIPTION "c" ::= { acmeEntry 1 }
END
'''


def mask(text):
    return STAMP.sub('Produced by X', text) if isinstance(text, str) else text


def canon_status(st):
    d = status_view(st)
    if 'error' in d:
        # the symbol named by "Unknown parent symbol" may differ between enumerations of a set
        d['error'] = [d['error'][0], re.sub(r'Unknown parent symbol: \S+', 'Unknown parent symbol: X', d['error'][1])]
    return d


EDITIONS = []   # (index of edition a, index of edition b) of the two-edition module
PAIRS = []      # (index of a healthy set, index of its variant with a broken / missing member)


EDITION = '''ACME-ED-MIB DEFINITIONS ::= BEGIN
IMPORTS OBJECT-TYPE, enterprises, Integer32 FROM SNMPv2-SMI;
EdType ::= %(ty)s
edScalar OBJECT-TYPE SYNTAX %(ty)s MAX-ACCESS read-only STATUS current DESCRIPTION "d" DEFVAL { 'aabb'H } ::= { enterprises 801 }
edTyped OBJECT-TYPE SYNTAX EdType MAX-ACCESS read-only STATUS current DESCRIPTION "d" DEFVAL { '0102'H } ::= { enterprises 802 }
edTable OBJECT-TYPE SYNTAX SEQUENCE OF EdEntry MAX-ACCESS not-accessible STATUS current DESCRIPTION "d" ::= { enterprises 803 }
edEntry OBJECT-TYPE SYNTAX EdEntry MAX-ACCESS not-accessible STATUS current DESCRIPTION "d" INDEX { edIdx } ::= { edTable 1 }
EdEntry ::= SEQUENCE { edIdx Integer32%(extra)s }
edIdx OBJECT-TYPE SYNTAX Integer32 MAX-ACCESS read-only STATUS current DESCRIPTION "d" ::= { edEntry 1 }
%(extradecl)s
END
'''
EDITION_EXTRA = 'edExtra OBJECT-TYPE SYNTAX Integer32 MAX-ACCESS read-only STATUS current DESCRIPTION "d" ::= { edEntry 2 }'


def items(ctx):
    """the pool of inputs: (label, {name: text}, requested names)"""
    rng = ctx.rng
    del PAIRS[:]
    del EDITIONS[:]
    pool = []
    base = ctx.seed * 1000 + 12000
    n = 10 if ctx.tier == 'quick' else 60
    for i in range(n):
        r = random.Random(base + i)
        g = mibgen.SetGen(r, n_modules=r.choice([1, 1, 2, 3]), size=r.choice([3, 5, 8]))
        g.build()
        texts = {nm: mibgen.print_module(m, r, wild=(i % 3 == 0)) for nm, m in g.modules.items()}
        pool.append(('healthy', texts, list(texts)))
        healthy_idx = len(pool) - 1
        names = list(texts)
        if i % 2 == 1:
            # one member cannot be found at all (and is there on the next call, see the directed histories)
            gone = dict(texts)
            del gone[names[-1]]
            pool.append(('broken:missing-member', gone, names))
            PAIRS.append((healthy_idx, len(pool) - 1))
        if i % 3 == 0:
            # broken member: truncated text / illegal character / unknown parent
            bad = dict(texts)
            victim = names[-1]
            kind = r.choice(['truncate', 'badchar', 'comment-eof', 'unknown-parent', 'unknown-type', 'unknown-type'])
            if kind == 'truncate':
                bad[victim] = bad[victim][:len(bad[victim]) * 2 // 3]
            elif kind == 'badchar':
                k = len(bad[victim]) // 2
                bad[victim] = bad[victim][:k] + ' $ ' + bad[victim][k:]
            elif kind == 'comment-eof':
                bad[victim] = bad[victim].rstrip() + ' -- ends inside a comment'
            elif kind == 'unknown-type':
                # a symbol that stays postponed for ever in the symbol pass (its type is never declared)
                bad[victim] = re.sub(r'END\s*$', 'ZzPending ::= ZzNoSuchType\nEND\n', texts[victim])
            else:
                bad[victim] = re.sub(r'END\s*$', 'zzOrphan OBJECT IDENTIFIER ::= { zzNowhere 1 }\nEND\n', texts[victim])
            pool.append(('broken:' + kind, bad, names))
            PAIRS.append((healthy_idx, len(pool) - 1))
        if i % 4 == 1:
            pool.append(('missing-dependency', {names[0]: texts[names[0]].replace('IMPORTS', 'IMPORTS zzGhost FROM ZZ-GHOST-MIB', 1)}, [names[0]]))
    pool.append(('smiv1-index', {'ACME-V1IDX-MIB': SMIV1_INDEX}, ['ACME-V1IDX-MIB']))
    # two editions of one module: same module name, same symbol names, other base types under the same DEFVALs, another column
    # set - nothing remembered about the first edition may show in the second
    for tag, ty in (('a', 'OCTET STRING'), ('b', 'Integer32')):
        pool.append(('edition-' + tag, {'ACME-ED-MIB': EDITION % {'ty': ty, 'extra': '' if tag == 'a' else ', edExtra Integer32',
                                                                'extradecl': '' if tag == 'a' else EDITION_EXTRA}}, ['ACME-ED-MIB']))
    EDITIONS.append((len(pool) - 2, len(pool) - 1))
    # a chain of parent references through three modules: with the root module missing the resolution of every OID below it
    # fails deep inside the walk; the next call, with the root there, owes nothing to that failure (first of the directed pairs)
    chain = {'ACME-CX-MIB': 'ACME-CX-MIB DEFINITIONS ::= BEGIN IMPORTS enterprises FROM SNMPv2-SMI;\ncxRoot OBJECT IDENTIFIER ::= { enterprises 77 }\nEND\n',
             'ACME-CA-MIB': 'ACME-CA-MIB DEFINITIONS ::= BEGIN IMPORTS cxRoot FROM ACME-CX-MIB;\ncaNode OBJECT IDENTIFIER ::= { cxRoot 1 }\nEND\n',
             'ACME-CB-MIB': ('ACME-CB-MIB DEFINITIONS ::= BEGIN IMPORTS caNode FROM ACME-CA-MIB OBJECT-TYPE, Integer32 FROM SNMPv2-SMI;\ncbNode OBJECT IDENTIFIER ::= { caNode 1 }\n'
                             'cbLeaf OBJECT-TYPE SYNTAX Integer32 MAX-ACCESS read-only STATUS current DESCRIPTION "d" DEFVAL { 1 } ::= { cbNode 1 }\nEND\n')}
    pool.append(('chain', chain, ['ACME-CB-MIB']))
    pool.append(('broken:chain-root-missing', {k: v for k, v in chain.items() if k != 'ACME-CX-MIB'}, ['ACME-CB-MIB']))
    PAIRS.insert(0, (len(pool) - 2, len(pool) - 1))
    # one symbol imported from two modules that define it differently: which definition counts is a matter of the text (the
    # module named last in sorted order), not of the hash seed
    pool.append(('double-import', {
        'ACME-ALPHA-MIB': 'ACME-ALPHA-MIB DEFINITIONS ::= BEGIN IMPORTS enterprises FROM SNMPv2-SMI;\nacmeBase OBJECT IDENTIFIER ::= { enterprises 1 }\nEND\n',
        'ACME-BETA-MIB': 'ACME-BETA-MIB DEFINITIONS ::= BEGIN IMPORTS enterprises FROM SNMPv2-SMI;\nacmeBase OBJECT IDENTIFIER ::= { enterprises 2 }\nEND\n',
        'ACME-BOTH-MIB': ('ACME-BOTH-MIB DEFINITIONS ::= BEGIN IMPORTS acmeBase FROM ACME-ALPHA-MIB acmeBase FROM ACME-BETA-MIB;\n'
                          'bothNode OBJECT IDENTIFIER ::= { acmeBase 5 }\nbothLeaf OBJECT IDENTIFIER ::= { bothNode 1 }\nEND\n')}, ['ACME-BOTH-MIB']))
    pool.append(('macro-unterminated', {'ACME-M-MIB': 'ACME-M-MIB DEFINITIONS ::= BEGIN x MACRO ::= BEGIN never ends'}, ['ACME-M-MIB']))
    return pool


# per-call options: what a call is given must not depend on what an earlier call was given (omitted = the library default)
OPTION_SETS = [{'genTexts': True}, {}, {'genTexts': False}, {'genTexts': True, 'textFilter': (lambda symbol, text: text)},
               {'textFilter': (lambda symbol, text: text)}]


def _user_template():
    """a template of the user's own, in a directory of its own (removed when the check ends)"""
    import atexit
    import shutil
    import tempfile
    d = tempfile.mkdtemp(prefix='c12tpl-')
    atexit.register(shutil.rmtree, d, True)
    with open(os.path.join(d, 'user.j2'), 'w') as f:
        f.write('{# a template of the user\'s own #}rendered by user.j2: {{ mib|length }} entries\n')
    return os.path.join(d, 'user.j2')


_TPL = _user_template()
# (a bare file name, looked up in the working directory: the form both generators document)
OPTION_SETS.append({'dstTemplate': os.path.basename(_TPL), '_cwd': os.path.dirname(_TPL)})


class SharedCompiler(object):
    """one parser, one code generator, one MibCompiler (with its own symbol-table generator) for a whole history"""
    def __init__(self, backend):
        from pysmi.compiler import MibCompiler
        from pysmi.reader.callback import CallbackReader
        from pysmi.writer.callback import CallbackWriter
        from pysmi.searcher.stub import StubSearcher
        from pysmi.codegen.jsondoc import JsonCodeGen
        from pysmi.codegen.pysnmp import PySnmpCodeGen
        self.cur = {}
        self.out = {}
        self.codegen = JsonCodeGen() if backend == 'json' else PySnmpCodeGen()
        self.parser = pipeline.get_parser(fresh=True)
        self.comp = MibCompiler(self.parser, self.codegen, CallbackWriter(lambda n, d, c: self.out.__setitem__(n, d)))
        self.comp.addSources(CallbackReader(lambda n, c: self.cur[n] if n in self.cur else (pipeline.base_text(n) or '')))
        self.comp.addSearchers(StubSearcher(*PySnmpCodeGen.baseMibs))

    def step(self, texts, requested, opts=None):
        self.cur = texts
        self.out = {}
        kw = dict(OPTION_SETS[opts or 0])
        cwd, there = os.getcwd(), kw.pop('_cwd', None)
        try:
            if there:
                os.chdir(there)
            res = self.comp.compile(*requested, **kw)
            return {'status': {k: canon_status(v) for k, v in res.items()}, 'texts': {k: mask(v) for k, v in self.out.items()}}
        except BaseException as e:
            return {'raised': '%s: %s' % (type(e).__name__, e)}
        finally:
            os.chdir(cwd)


def first_diff(a, b, path=''):
    if type(a) != type(b):
        return path, a, b
    if isinstance(a, dict):
        for k in sorted(set(a) | set(b)):
            if k not in a or k not in b:
                return path + '/' + str(k), a.get(k), b.get(k)
            d = first_diff(a[k], b[k], path + '/' + str(k))
            if d:
                return d
        return None
    if isinstance(a, str) and a != b:
        la, lb = a.split('\n'), b.split('\n')
        for i, (x, y) in enumerate(zip(la, lb)):
            if x != y:
                return path + ':line %d' % (i + 1), x[:200], y[:200]
        return path + ':length', len(la), len(lb)
    if a != b:
        return path, a, b
    return None


# ---------------------------------------------------------------- direct generator level

class RecParser(object):
    """parser proxy logging every text handed to parse(), in order"""
    def __init__(self, real):
        self.real = real
        self.texts = []

    def parse(self, data, **kw):
        self.texts.append(data)
        return self.real.parse(data, **kw)


def snapshot(obj):
    out = {}
    for k, v in vars(obj).items():
        if callable(v):
            continue
        try:
            out[k] = copy.deepcopy(v)
        except Exception:
            out[k] = repr(v)
    return out


GARBAGE = {set: lambda: {'zzGarbage'}, dict: lambda: {'zzGarbage': ('zz', 'garbage')}, list: lambda: ['zzGarbage'],
           str: lambda: 'zzGarbage', type(None): lambda: '9.9.9.9'}


def scramble(obj, fields):
    """overwrite the named instance fields with garbage of the same shape"""
    for f in fields:
        name = f.split('[')[0]
        if name not in vars(obj):
            continue
        cur = getattr(obj, name)
        if '[' in f:
            key = eval(f[f.index('[') + 1:-1])
            cur[key] = 'zzGarbage' if not isinstance(cur[key], bool) else (not cur[key])
        elif type(cur) in GARBAGE:
            setattr(obj, name, GARBAGE[type(cur)]())


def run_direct(order_texts, symgen, codegen, parser, same_ast_twice=False, scramble_with=None, facts=None, res=None):
    """mimic compile(): symbol pass over every text in compile order, then code generation for every module.
    Returns {module: (mibinfo view, generated text)} and the per-call snapshot findings."""
    symmap = {}
    trees = []
    findings = []
    for text in order_texts:
        for tree in parser.parse(text):
            for rep in range(2 if same_ast_twice else 1):
                if scramble_with:
                    scramble(symgen, scramble_with['symtable'])
                before = snapshot(symgen)
                info, tab = symgen.genCode(tree, symmap)
                after = snapshot(symgen)
                if facts:
                    changed = set(k for k in after if k not in before or before[k] != after[k])
                    extra = changed - set(w.split('[')[0] for w in facts['symtable']['writes'])
                    if extra:
                        findings.append(('symtable', sorted(extra)))
            symmap[info.name] = tab
            trees.append((info.name, tree))
    out = {'symtab': {n: {'order': t.get('_symtable_order'), 'keys': sorted(k for k in t if not k.startswith('_symtable'))} for n, t in symmap.items()}}
    key = 'pysnmp' if type(codegen).__name__ == 'PySnmpCodeGen' else 'jsondoc'
    for name, tree in trees:
        for rep in range(2 if same_ast_twice else 1):
            if scramble_with:
                scramble(codegen, scramble_with[key])
            before = snapshot(codegen)
            try:
                info, text = codegen.genCode(tree, symmap, comments=['c'], genTexts=True)
                view = {'name': info.name, 'oid': repr(info.oid), 'identity': repr(info.identity), 'revision': repr(info.revision),
                        'oids': sorted(map(str, info.oids or [])), 'enterprise': repr(info.enterprise), 'compliance': list(info.compliance or []),
                        'imported': list(info.imported or []), 'text': text}
            except Exception as e:
                view = {'error': [type(e).__name__, re.sub(r'symbol: \S+', 'symbol: X', str(e))]}
            after = snapshot(codegen)
            if facts:
                changed = set(k for k in after if k not in before or before[k] != after[k])
                extra = changed - set(w.split('[')[0] for w in facts[key]['writes'])
                if extra:
                    findings.append((key, sorted(extra)))
            out[name + ('#2' if rep else '')] = view
    return out, findings


def compile_order(texts, requested):
    rp = RecParser(pipeline.get_parser(fresh=True))
    pipeline.compile_set(texts, requested=requested, backend='json', parser=rp)
    return rp.texts


def run(ctx):
    res, rng = ctx.res, ctx.rng
    res.rule = ('(A) histories of 2-7 compile() calls (healthy sets, sets with a truncated / illegal-character / comment-at-EOF / unknown-parent '
                'member, a missing dependency, an SMIv1 module with INDEX { INTEGER }, an unterminated MACRO; repeats) through ONE parser + '
                'code generator + MibCompiler per backend, each call compared (statuses with all attributes, error class and message, '
                'generated texts) with fresh objects; (B) the same inputs at generator level in compile order: symbol pass + code generator '
                'called twice on the same syntax tree, with every reset / unread field scrambled beforehand, deep snapshots of the objects '
                'before/after each call compared with the static write table; (C) histories of texts (valid, truncated, illegal tokens, '
                'ending in a comment, unterminated blocks) through one parser per dialect vs fresh parsers and vs the Lean parse model; '
                '(D) the pool compiled in subprocesses under PYTHONHASHSEED 0,1,2,3 (thorough: 12 seeds), outputs compared byte-wise; '
                'non-trivial = history position > 0 or a scrambled / repeated call')
    facts = dict(fieldflow.analyse_all())
    pool = items(ctx)
    # fresh references
    fresh = {}

    def fresh_result(be, idx, opt):
        if (be, idx, opt) not in fresh:
            fresh[(be, idx, opt)] = SharedCompiler(be).step(pool[idx][1], pool[idx][2], opt)
            res.count('fresh-compiles')
        return fresh[(be, idx, opt)]
    # (A)
    n_hist = 12 if ctx.tier == 'quick' else 150
    directed = []
    for hi, vi in (PAIRS if ctx.tier != 'quick' else PAIRS[:8]):
        # the same module set first with a broken or missing member, then intact (and the other way round): what went wrong
        # with a module in one call says nothing about the next call
        directed.append([vi, hi])
        directed.append([hi, vi, hi])
    for a_, b_ in EDITIONS:
        directed += [[a_, b_], [b_, a_], [a_, b_, a_]]
    for h in range(n_hist + len(directed)):
        be = 'json' if h % 2 == 0 else 'pysnmp'
        sc = SharedCompiler(be)
        if h >= n_hist:
            seq = directed[h - n_hist]
            res.count('directed-histories')
        else:
            seq = [rng.randrange(len(pool)) for _ in range(rng.randint(2, 7))]
            if rng.random() < 0.5:
                seq.append(seq[0])
        # most histories use one option set throughout, the others change options between calls
        opts = [0] * len(seq) if h % 3 != 2 else [rng.randrange(len(OPTION_SETS)) for _ in seq]
        if h in (0, 1):
            # the stock template, a template of the user's, the stock one again - through one generator
            seq = (seq * 3)[:3]
            opts = [0, len(OPTION_SETS) - 1, 0]
        for pos, idx in enumerate(seq):
            label, texts, req = pool[idx]
            got = sc.step(texts, req, opts[pos])
            res.case(('hist', be, tuple(seq[:pos + 1]), tuple(opts[:pos + 1])), pos > 0)
            res.count('history-steps:' + label.split(':')[0])
            want = fresh_result(be, idx, opts[pos])
            if got != want:
                d = first_diff(want, got)
                res.oracle_failures.append({
                    'key': 'compile-history',
                    'what': 'compile() through shared objects differs from fresh objects at step %d (%s) after %s: %s fresh=%r shared=%r' % (
                        pos, label, [pool[j][0] for j in seq[:pos]], d[0], d[1], d[2]),
                    'input': {'backend': be, 'history': [{'texts': pool[j][1], 'requested': pool[j][2], 'opts': opts[k]} for k, j in enumerate(seq[:pos + 1])]}})
                break
    # (B)
    from pysmi.codegen.symtable import SymtableCodeGen
    from pysmi.codegen.jsondoc import JsonCodeGen
    from pysmi.codegen.pysnmp import PySnmpCodeGen
    scr = {}
    for cname in ('symtable', 'jsondoc', 'pysnmp'):
        f = facts[cname]
        unread = [x for x in f['init'] if x not in [r.split('[')[0] for r in f['reads']] and x not in ('genRules', 'moduleName')]
        scr[cname] = list(f['resets']) + unread
    shared = {'json': (SymtableCodeGen(), JsonCodeGen()), 'pysnmp': (SymtableCodeGen(), PySnmpCodeGen())}
    shared_parser = pipeline.get_parser(fresh=True)
    n_direct = len(pool) if ctx.tier != 'quick' else min(len(pool), 14)
    seen_before = []
    for idx in list(range(len(pool)))[-n_direct:]:
        label, texts, req = pool[idx]
        if label.startswith('broken') or label in ('missing-dependency', 'macro-unterminated'):
            continue
        order = compile_order(texts, req)
        for be, Gen in (('json', JsonCodeGen), ('pysnmp', PySnmpCodeGen)):
            try:
                ref, _ = run_direct(order, SymtableCodeGen(), Gen(), pipeline.get_parser(fresh=True))
            except Exception as e:
                ref = {'raised': type(e).__name__}
            variants = [('same tree twice', dict(same_ast_twice=True)), ('scrambled fields', dict(scramble_with=scr)),
                        ('shared objects', dict())]
            for vname, kw in variants:
                if vname == 'shared objects':
                    sg, cg = shared[be]
                    ps = shared_parser
                else:
                    sg, cg, ps = SymtableCodeGen(), Gen(), pipeline.get_parser(fresh=True)
                try:
                    got, findings = run_direct(order, sg, cg, ps, facts=facts, **kw)
                except Exception as e:
                    got, findings = {'raised': type(e).__name__}, []
                res.case(('direct', be, vname, idx), True)
                res.count('direct:' + vname)
                for cname, extra in findings:
                    res.corr_failures.append({'what': 'field table of %s is incomplete: a call changed %s, not listed as written by the static analysis' % (cname, extra),
                                              'module_set': sorted(texts)})
                cmp_got = {k: v for k, v in got.items() if not k.endswith('#2')}
                if cmp_got != ref:
                    d = first_diff(ref, cmp_got)
                    res.oracle_failures.append({'key': 'generator-state:' + vname.replace(' ', '-'),
                                                'what': 'generator-level result differs (%s, %s): %s fresh=%r got=%r' % (be, vname, d[0], d[1], d[2]),
                                                'input': {'backend': be, 'variant': vname, 'texts': texts, 'requested': req,
                                                          'before': seen_before[-3:] if vname == 'shared objects' else []}})
                    continue
                for k, v in sorted(got.items()):
                    if k.endswith('#2') and v != got[k[:-2]]:
                        d = first_diff(got[k[:-2]], v)
                        res.oracle_failures.append({'key': 'tree-consumed',
                                                    'what': 'second genCode on the same syntax tree differs for %s: %s %r / %r' % (k[:-2], d[0], d[1], d[2]),
                                                    'input': {'backend': be, 'variant': vname, 'texts': texts, 'requested': req}})
                        break
        seen_before.append({'texts': texts, 'requested': req})
    # (C) parser histories
    reqs, metas = [], []
    loaded = set()
    texts_by_dialect = {}
    n_txt = 10 if ctx.tier == 'quick' else 60
    for dialect in pc.DIALECTS:
        lst = []
        for i in range(n_txt):
            g, m, t = pc.gen_module_text(ctx.seed * 100 + 7700 + i, wild=(i % 2 == 0), blocks=(i % 3 == 0))
            lst.append(t)
            cut = rng.randint(1, len(t) - 1)
            lst.append(t[:cut])
            lst.append(t[:cut] + ' $ ' + t[cut:])
            lst.append(t.rstrip() + ' -- no line end after this comment')
            lst.append(t[:cut] + '\nzz MACRO ::= BEGIN body without end')
            lst.append(t[:cut] + '\nEXPORTS a, b')
            lst.append(t[:cut] + '\nZz ::= CHOICE { a INTEGER')
            lst.append(t[:cut] + ' "unterminated string\n\n')
        lst += ['', '-- c', 'X DEFINITIONS ::= BEGIN END']
        texts_by_dialect[dialect] = lst
    n_ph = 30 if ctx.tier == 'quick' else 400
    fresh_parse = {}
    for h in range(n_ph):
        dialect = rng.choice(list(pc.DIALECTS))
        ex = grammar.build(pc.DIALECTS[dialect])
        from pysmi.parser.smi import parserFactory
        shared_p = parserFactory(**pc.DIALECTS[dialect])()
        lst = texts_by_dialect[dialect]
        seq = [rng.randrange(len(lst)) for _ in range(rng.randint(2, 8))]
        seq.append(seq[0])
        for pos, ti in enumerate(seq):
            t = lst[ti]
            got = pc.impl_parse(ex, t, parser=shared_p)
            if (dialect, ti) not in fresh_parse:
                fresh_parse[(dialect, ti)] = pc.impl_parse(ex, t, parser=parserFactory(**pc.DIALECTS[dialect])())
                if ex['key'] not in loaded:
                    loaded.add(ex['key'])
                    reqs.append(grammar.tables_request(ex))
                    metas.append(None)
                reqs.append(pc.parse_request(ex, t))
                metas.append((dialect, t, fresh_parse[(dialect, ti)]))
            res.case(('phist', dialect, tuple(seq[:pos + 1])), pos > 0)
            res.count('parser-history-steps')
            if got != fresh_parse[(dialect, ti)]:
                a, b = fresh_parse[(dialect, ti)], got
                res.oracle_failures.append({
                    'key': 'parser-history',
                    'what': 'parse() through a used parser differs from a fresh parser at step %d: fresh=%s used=%s' % (
                        pos, {k: v for k, v in a.items() if k != 'ast'} or 'tree', {k: v for k, v in b.items() if k != 'ast'} or 'tree'),
                    'input': {'dialect': dialect, 'history': [lst[j] for j in seq[:pos + 1]]}})
                break
    if ctx.model is not None:
        for meta, out in zip(metas, ctx.model.batch(reqs)):
            if meta is None:
                continue
            dialect, t, impl = meta
            a = (impl.get('error', 'ok').split(':')[0], impl.get('line'), impl.get('ast'))
            b = (out.get('error', 'ok').split(':')[0], out.get('line'), out.get('ast'))
            res.count('model-parses')
            if a != b:
                res.corr_failures.append({'what': 'fresh parser differs from Model.LR.parse (= Obj.parseCall after any history)', 'dialect': dialect,
                                          'text': t[:300], 'impl': str(a)[:300], 'model': str(b)[:300]})
    # (D) hash seeds
    seeds = ['0', '1', '2', '3'] if ctx.tier == 'quick' else [str(i) for i in range(12)]
    sets = [texts for label, texts, req in pool]
    payload = json.dumps(sets)
    outs = {}
    env_base = dict(os.environ, PYSMI_REPO=REPO)
    procs = []
    for s in seeds:
        env = dict(env_base, PYTHONHASHSEED=s)
        procs.append((s, subprocess.Popen([sys.executable, os.path.join(HARNESS, 'impl', 'hashseed_worker.py')], stdin=subprocess.PIPE,
                                          stdout=subprocess.PIPE, stderr=subprocess.PIPE, env=env, text=True)))
    for s, p in procs:
        o, e = p.communicate(payload, timeout=900)
        if p.returncode != 0:
            res.corr_failures.append({'what': 'hash-seed worker failed under PYTHONHASHSEED=%s: %s' % (s, e[-500:])})
            continue
        outs[s] = json.loads(o)['sets']
    if outs:
        ref_seed = seeds[0]
        for s in seeds[1:]:
            if s not in outs or ref_seed not in outs:
                continue
            for idx, (a, b) in enumerate(zip(outs[ref_seed], outs[s])):
                res.case(('hashseed', s, idx), True)
                res.count('hashseed-set-comparisons')
                a2, b2 = json.loads(mask(json.dumps(a))), json.loads(mask(json.dumps(b)))
                for x in (a2, b2):
                    for be in x.values():
                        for st in be.get('status', {}).values():
                            if 'error' in st:
                                st['error'][1] = re.sub(r'Unknown parent symbol: \S+', 'Unknown parent symbol: X', st['error'][1])
                if a2 != b2:
                    d = first_diff(a2, b2)
                    res.oracle_failures.append({'key': 'hash-seed',
                                                'what': 'output under PYTHONHASHSEED=%s differs from PYTHONHASHSEED=%s: %s %r / %r' % (s, ref_seed, d[0], d[1], d[2]),
                                                'input': {'texts': pool[idx][1], 'seeds': [ref_seed, s]}})
                    break
    dialect_histories(ctx)
    debug_independence(ctx)
    res.sample({'pool_labels': [p[0] for p in pool][:20]})
    res.sample({'field_tables': {k: {kk: v[kk] for kk in ('reads', 'writes', 'resets')} for k, v in facts.items() if k in ('symtable',)}})


DIALECT_TEXTS = {
    'v1-keywords': ('smiV1', 'ACME-D1-MIB DEFINITIONS ::= BEGIN\nIMPORTS enterprises, NetworkAddress FROM RFC1155-SMI OBJECT-TYPE FROM RFC-1212;\n'
                    'acmeAddr OBJECT-TYPE SYNTAX NetworkAddress ACCESS read-only STATUS mandatory ::= { enterprises 70 }\n'
                    'AcmeStr ::= OCTET STRING (SIZE (0..MAX))\nEND\n'),
    'v1-relaxed': ('smiV1Relaxed', 'ACME-D2-MIB DEFINITIONS ::= BEGIN\nIMPORTS enterprises, NetworkAddress, Counter FROM RFC1155-SMI OBJECT-TYPE FROM RFC-1212;\n'
                   'acmeCnt OBJECT-TYPE SYNTAX Counter ACCESS read-only STATUS mandatory ::= { enterprises 71 }\n'
                   'acmeAdr OBJECT-TYPE SYNTAX NetworkAddress ACCESS read-only STATUS mandatory ::= { enterprises 72 }\nEND\n'),
    'v2-plain-names': ('smiV2', 'ACME-D3-MIB DEFINITIONS ::= BEGIN\nIMPORTS enterprises, OBJECT-TYPE FROM SNMPv2-SMI NetworkAddress FROM RFC1155-SMI;\n'
                       'acmeAddr OBJECT-TYPE SYNTAX NetworkAddress MAX-ACCESS read-only STATUS current DESCRIPTION "a" ::= { enterprises 73 }\nEND\n'),
    'v2-own-type': ('smiV2', 'ACME-D4-MIB DEFINITIONS ::= BEGIN\nIMPORTS enterprises FROM SNMPv2-SMI;\nNetworkAddress ::= OCTET STRING (SIZE (4))\n'
                    'acmeN OBJECT IDENTIFIER ::= { enterprises 74 }\nEND\n'),
    'v2-forbidden': ('smiV2', 'ACME-D5-MIB DEFINITIONS ::= BEGIN\nIMPORTS enterprises FROM SNMPv2-SMI;\n\n\nAcmeStr ::= OCTET STRING (SIZE (0..MAX))\nEND\n'),
    'v1-bad': ('smiV1', 'ACME-D6-MIB DEFINITIONS ::= BEGIN\nIMPORTS enterprises FROM RFC1155-SMI;\nacme MAX OBJECT IDENTIFIER ::= { enterprises 75 }\nEND\n'),
}


def debug_compile(texts, backend, flags):
    """statuses and documents of one compile() with the package's debug logging switched to `flags` (printed nowhere)"""
    from pysmi import debug
    before = debug.logger
    try:
        if flags:
            debug.setLogger(debug.Debug(*flags, **dict(loggerName='verif.null')))       # (a logger nobody listens to)
        st, out, _ = pipeline.compile_set(texts, backend=backend, genTexts=True)
    finally:
        debug.setLogger(before)
    return {k: canon_status(v) for k, v in st.items()}, {k: mask(v) for k, v in out.items()}


def debug_independence(ctx):
    """(F) what is compiled, and into what, does not depend on which debug categories are being logged"""
    res = ctx.res
    for i in range(4 if ctx.tier == 'quick' else 40):
        g = mibgen.SetGen(random.Random(ctx.seed * 1000 + 7700 + i), n_modules=random.Random(i).choice([2, 3]), size=4)
        g.build()
        texts = {n: mibgen.print_module(m, random.Random(i)) for n, m in g.modules.items()}
        for be in ('json', 'pysnmp'):
            ref = debug_compile(texts, be, [])
            for flags in (['all'], ['codegen'], ['compiler', 'reader'], ['parser', 'lexer', 'grammar'], ['searcher', 'writer', 'borrower']):
                res.case(('debug-flags', i, be, tuple(flags)), True)
                res.count('debug-flag-runs')
                try:
                    got = debug_compile(texts, be, flags)
                except Exception as e:
                    got = 'raised %s: %s' % (type(e).__name__, e)
                if got != ref:
                    d = first_diff(ref, got) if not isinstance(got, str) else ('', 'a result', got)
                    res.oracle_failures.append({'key': 'debug-flags', 'what': 'with debug categories %s the %s result differs from the one without logging: %s %r / %r' % (
                        flags, be, d[0], str(d[1])[:200], str(d[2])[:200]), 'input': {'texts': texts, 'backend': be, 'debug_flags': flags}})
                    break


def dialect_run(steps):
    """outcomes of the steps, parsed one after the other in one fresh interpreter"""
    env = dict(os.environ, PYSMI_REPO=REPO)
    p = subprocess.run([sys.executable, os.path.join(HARNESS, 'impl', 'dialect_worker.py')], input=json.dumps({'steps': steps}),
                       stdout=subprocess.PIPE, stderr=subprocess.PIPE, env=env, text=True, timeout=600)
    if p.returncode != 0:
        return [{'error': 'other: worker failed: ' + p.stderr[-300:]}] * len(steps)
    return json.loads(p.stdout)


def dialect_histories(ctx):
    """(E) parsers of different dialects in one process: a step's outcome is its outcome alone in a process of its own"""
    from concurrent.futures import ThreadPoolExecutor
    res, rng = ctx.res, ctx.rng
    names = list(DIALECT_TEXTS)
    seqs = [[a, b] for a in names for b in names if a != b and DIALECT_TEXTS[a][0] != DIALECT_TEXTS[b][0]]
    for _ in range(6 if ctx.tier == 'quick' else 60):
        seqs.append([rng.choice(names) for _ in range(rng.randint(3, 5))])
    with ThreadPoolExecutor(max_workers=8) as ex:
        alone = dict(zip(names, ex.map(lambda n: dialect_run([list(DIALECT_TEXTS[n])])[0], names)))
        together = list(ex.map(lambda sq: dialect_run([list(DIALECT_TEXTS[n]) for n in sq]), seqs))
    for n in names:
        if str(alone[n].get('error', '')).startswith('other'):
            res.oracle_failures.append({'key': 'dialect-history', 'what': '%s alone: %s' % (n, alone[n]['error']), 'input': {'dialect_steps': [n]}})
    for sq, outs in zip(seqs, together):
        res.case(('dialect-history', tuple(sq)), True)
        res.count('dialect-histories')
        for pos, (n, got) in enumerate(zip(sq, outs)):
            if got != alone[n]:
                res.oracle_failures.append({'key': 'dialect-history',
                                            'what': 'step %d (%s under %s) after %s: %s; alone in a process of its own: %s' % (
                                                pos, n, DIALECT_TEXTS[n][0], sq[:pos], str({k: v for k, v in got.items() if k != 'ast'} or 'a different tree')[:200],
                                                str({k: v for k, v in alone[n].items() if k != 'ast'} or 'a tree')[:200]),
                                            'input': {'dialect_steps': sq[:pos + 1]}})
                break


def search(ctx):
    ctx.tier = 'thorough'
    run(ctx)


def replay(payload):
    if 'dialect_steps' in payload.get('input', {}):
        sq = payload['input']['dialect_steps']
        outs = dialect_run([list(DIALECT_TEXTS[n]) for n in sq])
        alone = dialect_run([list(DIALECT_TEXTS[sq[-1]])])[0]
        return {'fails': outs[-1] != alone or str(alone.get('error', '')).startswith('other')}
    inp = payload['input']
    key = payload.get('key', '')
    if key == 'debug-flags':
        return {'fails': debug_compile(inp['texts'], inp['backend'], inp['debug_flags']) != debug_compile(inp['texts'], inp['backend'], [])}
    if key == 'compile-history':
        sc = SharedCompiler(inp['backend'])
        got = None
        for st in inp['history']:
            got = sc.step(st['texts'], st['requested'], st.get('opts', 0))
        want = SharedCompiler(inp['backend']).step(inp['history'][-1]['texts'], inp['history'][-1]['requested'], inp['history'][-1].get('opts', 0))
        return {'fails': got != want}
    if key == 'parser-history':
        from pysmi.parser.smi import parserFactory
        ex = grammar.build(pc.DIALECTS[inp['dialect']])
        p = parserFactory(**pc.DIALECTS[inp['dialect']])()
        got = None
        for t in inp['history']:
            got = pc.impl_parse(ex, t, parser=p)
        want = pc.impl_parse(ex, inp['history'][-1], parser=parserFactory(**pc.DIALECTS[inp['dialect']])())
        return {'fails': got != want}
    if key == 'hash-seed':
        outs = []
        for s in inp['seeds']:
            env = dict(os.environ, PYSMI_REPO=REPO, PYTHONHASHSEED=s)
            p = subprocess.run([sys.executable, os.path.join(HARNESS, 'impl', 'hashseed_worker.py')], input=json.dumps([inp['texts']]),
                               stdout=subprocess.PIPE, stderr=subprocess.PIPE, env=env, text=True)
            outs.append(mask(json.dumps(json.loads(p.stdout)['sets'])))
        return {'fails': outs[0] != outs[1]}
    if key.startswith('generator-state') or key == 'tree-consumed':
        from pysmi.codegen.symtable import SymtableCodeGen
        from pysmi.codegen.jsondoc import JsonCodeGen
        from pysmi.codegen.pysnmp import PySnmpCodeGen
        Gen = JsonCodeGen if inp['backend'] == 'json' else PySnmpCodeGen
        order = compile_order(inp['texts'], inp['requested'])
        ref, _ = run_direct(order, SymtableCodeGen(), Gen(), pipeline.get_parser(fresh=True))
        if inp['variant'] == 'shared objects':
            # the leak needs a predecessor: run the same input twice through one pair of objects
            sg, cg, ps = SymtableCodeGen(), Gen(), pipeline.get_parser(fresh=True)
            for pre in inp.get('before', []):
                run_direct(compile_order(pre['texts'], pre['requested']), sg, cg, ps)
            run_direct(order, sg, cg, ps)
            got, _ = run_direct(order, sg, cg, ps)
            return {'fails': got != ref}
        facts = dict(fieldflow.analyse_all())
        kw = dict(same_ast_twice=True) if inp['variant'] == 'same tree twice' else {}
        got, _ = run_direct(order, SymtableCodeGen(), Gen(), pipeline.get_parser(fresh=True), **kw)
        bad = {k: v for k, v in got.items() if not k.endswith('#2')} != ref or any(k.endswith('#2') and v != got[k[:-2]] for k, v in got.items())
        return {'fails': bad}
    return {'fails': False}
