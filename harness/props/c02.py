"""C02 — the syntax tree is a faithful, layout-independent image of the MIB text."""
import random

import grammar
from gen import mibgen
from props import parse_common as pc

LEVEL = 'proof'
MODULES = ['Pysmi.Props.C02', 'Pysmi.Props.C02Macro', 'Pysmi.Pins.Lex', 'Pysmi.Pins.SkelC02']
LAKE_TARGETS = ['Pysmi.Props.C02', 'Pysmi.Props.C02Macro', 'Pysmi.Pins.Lex', 'Pysmi.Pins.SkelC02']
THEOREMS = ['Pysmi.Pins.SkelC02.pin_parserParse', 'Pysmi.Pins.SkelC02.pin_parserError', 
    'Pysmi.LR.C02_lr_sound',
    'Pysmi.LR.C02_no_accept_past_lexer_error',
    'Pysmi.Lexer.C02_blank_skipped',
    'Pysmi.Lexer.C02_comment_skipped',
    'Pysmi.Lexer.C02_separator_irrelevant',
    'Pysmi.Lexer.C02_exports_opaque',
    'Pysmi.Lexer.C02_choice_opaque',
    'Pysmi.Lexer.C02_macro_opaque',
    'Pysmi.Lexer.scan_macro',
    'Pysmi.Lexer.C02_number_value',
    'Pysmi.Py.C02_list_append_in_order',
    'Pysmi.Py.list_builder_fold',
    'Pysmi.Lexer.lexAll_eq_scan',
    'Pysmi.Lexer.scan_line_indep',
    'Pysmi.Pins.Lex.pin_rules',
    'Pysmi.Pins.Lex.pin_literals',
    'Pysmi.Pins.Lex.pin_ignore',
]
TECHNIQUE = ('Lean 4 theorems: generic LR soundness (accepted token list = frontier of the derivation tree, any tables), lexer lemmas '
             '(blanks, comments and whole separators are skipped leaving only the line counter changed; EXPORTS/CHOICE/MACRO bodies are opaque; '
             'number tokens carry the denoted integer), list-builder action lemma; productions, LALR tables and action bodies regenerated from '
             'the source on every run and interpreted by the model; correspondence of tokens and complete syntax trees against PLY and the '
             'real parser in all three dialects; layout-invariance oracle')
LEVEL_TEXT = ('Proved in Lean: for arbitrary LR tables the tree built for an accepted text has exactly the text\'s token list as frontier, in '
              'order (no token dropped, duplicated or reordered, any length); blanks (space, tab, LF, CR, CRLF) and `--` comments between '
              'tokens are skipped by the lexer without producing tokens, changing only the line counter, so any separator can be replaced by '
              'any other; the contents of EXPORTS, CHOICE and MACRO blocks do not reach the token stream (MACRO: any body free of END; after it the END token, then the text that follows); decimal number tokens carry the integer '
              'their digits denote; the left-recursive list builders append in source order. The complete syntax tree (every clause field) '
              'is not proved correct against a typed grammar: it is computed by interpreting action bodies translated from the p_* sources on '
              'every run and compared with the real parser\'s tree on generated modules (all clause kinds, optional parts on/off, lists, '
              'three dialects, wild layouts, MACRO/EXPORTS/CHOICE filler). Completeness of PLY\'s LALR tables is not proved (partial).')
LEVEL_NOTE = ('Trusted: Lean kernel + standard axioms; hand-written lexer model (pinned to the regenerated rule table), generic LR driver, the '
              'interpreter of the Python fragment the p_* actions are written in; the translator; PLY table construction; CPython re.')
ASSUMPTIONS = ['a comment glued to an identifier without white space (ifIndex-- x) is part of the identifier in pysmi\'s lexical convention: '
               'separators are required to start with a white-space character']


APP_TYPES_V1 = ('Counter', 'Gauge', 'TimeTicks', 'IpAddress', 'NetworkAddress', 'Opaque')


def smiv1_failures(vg, tree_mod):
    out = []
    decls = {}
    for d in tree_mod[3] or []:
        if d is not None:
            decls.setdefault(d[1], d)
    for d in vg.decls:
        sx = d.get('syntax')
        if isinstance(sx, dict) and not sx.get('user') and sx.get('name') in APP_TYPES_V1 and d['name'] in decls:
            node = pc._find(decls[d['name']], 'ApplicationSyntax')
            if node is None or node[1] != sx['name']:
                out.append('%s: SYNTAX %s is %r in the tree, not the application type' % (d['name'], sx['name'], decls[d['name']][2]))
    return out


def smiv1_stream(ctx):
    import random
    from gen import v1gen
    res = ctx.res
    for dialect in pc.DIALECTS:                      # parsers of all dialects exist, the SMIv2 one first
        grammar.build(pc.DIALECTS[dialect])
    base = ctx.seed * 1000 + 9700
    for i in range(10 if ctx.tier == 'quick' else 150):
        vg = v1gen.V1Gen(random.Random(base + i), size=8).build()
        text = v1gen.render(vg, 'v1')
        for dialect in ('smiV1', 'smiV1Relaxed'):
            ex = grammar.build(pc.DIALECTS[dialect])
            a = pc.impl_parse(ex, text)
            res.case(('smiv1-tree', dialect, text), True)
            res.count('smiv1-trees')
            inp = {'dialect': dialect, 'text': text, 'v1_seed': base + i}
            if 'ast' not in a:
                res.oracle_failures.append({'key': 'rejects-valid', 'what': 'well-formed SMIv1 text rejected under %s: %r' % (dialect, a), 'input': inp})
                continue
            bad = smiv1_failures(vg, pc.plain(a['ast'])[0])
            if bad:
                res.oracle_failures.append({'key': 'smiv1-syntax', 'what': '; '.join(bad[:3]), 'input': inp})
    # the other way round: with SMIv1 parsers alive (and used) in the process, the strict dialect still reads their words as names
    for word in DIALECT_WORDS:
        for ti in range(len(WORD_TEXTS)):
            res.case(('dialect-word', word, ti), True)
            res.count('dialect-words')
            for what in dialect_word_failures(word, ti):
                res.oracle_failures.append({'key': 'dialect-word', 'what': what, 'input': {'dialect': 'smiV2', 'word': word, 'word_text': ti,
                                                                                          'text': WORD_TEXTS[ti] % {'w': word}}})


DIALECT_WORDS = ['NetworkAddress', 'MAX']      # words only the SMIv1 dialects reserve
WORD_TEXTS = [
    # (text with %(w)s, dialects under which the word is an ordinary identifier there)
    ('ACME-W-MIB DEFINITIONS ::= BEGIN\nIMPORTS %(w)s FROM RFC1155-SMI OBJECT-TYPE, enterprises FROM SNMPv2-SMI;\n'
     'acmeAddr OBJECT-TYPE SYNTAX %(w)s MAX-ACCESS read-only STATUS current DESCRIPTION "a" ::= { enterprises 77 }\nEND\n'),
    ('ACME-W2-MIB DEFINITIONS ::= BEGIN\nIMPORTS enterprises FROM SNMPv2-SMI;\n%(w)s ::= OCTET STRING (SIZE (4))\n'
     'Other ::= %(w)s\nacmeNode OBJECT IDENTIFIER ::= { enterprises 78 }\nEND\n'),
]


def rename_leaves(x, old, new):
    if isinstance(x, str):
        return new if x == old else x
    if isinstance(x, tuple):
        return tuple(rename_leaves(v, old, new) for v in x)
    if isinstance(x, list):
        return [rename_leaves(v, old, new) for v in x]
    return x


def dialect_word_failures(word, ti):
    """under the strict SMIv2 dialect a word that only SMIv1 reserves is a name like any other: the tree is the tree of
    the same text with a neutral name, but for the name"""
    ex = grammar.build(pc.DIALECTS['smiV2'])
    neutral = 'AcmeNeutral'
    if word == 'MAX':
        return []       # forbidden in the SMIv2 dialect (t_UPPERCASE_IDENTIFIER): C11's business
    a = pc.impl_parse(ex, WORD_TEXTS[ti] % {'w': word})
    b = pc.impl_parse(ex, WORD_TEXTS[ti] % {'w': neutral})
    if 'ast' not in b:
        return ['the text with a neutral name is rejected: %r' % (b,)]
    if 'ast' not in a:
        return ['%s as a plain name under smiV2: %r' % (word, a)]
    if rename_leaves(pc.plain(b['ast']), neutral, word) != pc.plain(a['ast']):
        return ['%s as a plain name under smiV2: tree differs from the tree with a neutral name' % word]
    return []


def strip_fillers(ast):
    """drop the filler MACRO / CHOICE declarations the block stream inserts (canonical JSON AST)"""
    def s(x):
        return ''.join(map(chr, x['s'])) if isinstance(x, dict) and 's' in x else None
    if not isinstance(ast, dict) or 'l' not in ast:
        return ast
    mods = []
    for mod in ast['l']:
        t = list(mod['t'])
        decls = t[3]
        if isinstance(decls, dict) and 'l' in decls:
            keep = []
            for d in decls['l']:
                if d is None:
                    continue
                name = s(d['t'][1]) if isinstance(d, dict) and 't' in d and len(d['t']) > 1 else None
                if name and name.startswith('Filler') and s(d['t'][0]) == 'typeDeclaration':
                    continue
                keep.append(d)
            t[3] = {'l': keep}
        mods.append({'t': t})
    return {'l': mods}


def leaves(ast, out):
    if isinstance(ast, dict):
        if 's' in ast:
            out.add(''.join(map(chr, ast['s'])))
        else:
            for v in ast.values():
                leaves(v, out)
    elif isinstance(ast, list):
        for v in ast:
            leaves(v, out)
    elif isinstance(ast, int) and not isinstance(ast, bool):
        out.add(ast)
    return out


LITERAL = __import__('re').compile(r"'[0-9a-fA-F]*'[hHbB]|\"[^\"]*\"")


def run(ctx):
    res, rng = ctx.res, ctx.rng
    res.rule = ('(i) lexer: generated module texts in wild layouts plus character noise and hand-written fragments -> PLY token stream (type, '
                'value, line) vs model, both lexer variants; (ii) parser: generated modules (all clause kinds, optional parts, lists, nasty '
                'texts, boundary numbers) -> complete syntax tree of the real parser vs model, three dialects; (iii) oracle: the same module in '
                '3 layouts (spaces/tabs/CR/LF/CRLF/comments, EXPORTS/MACRO/CHOICE filler with random bodies) gives the same tree, its '
                'declarations are exactly the generated ones in order; non-trivial = at least 3 declarations')
    reqs, metas = [], []
    loaded = set()

    def ensure(ex):
        if ex['key'] not in loaded:
            loaded.add(ex['key'])
            reqs.append(grammar.tables_request(ex))
            metas.append(None)
    # (o) SMIv1 texts: the application types that only the SMIv1 dialects know as keywords (Counter, Gauge, NetworkAddress)
    # come out as application syntax, whichever dialects have had parsers built in this process before
    smiv1_stream(ctx)
    # (i) lexer stream
    alphabet = "abzAZ09-_ \t\n\r\"'{}()[];:,.|=hHbB\\^`MACROENDXPTSCHOIé"
    texts = []
    n = 40 if ctx.tier == 'quick' else 600
    base = ctx.seed * 1000 + 9000
    for i in range(n):
        g, m, text = pc.gen_module_text(base + i, wild=True, blocks=(i % 2 == 0), nasty=(i % 3 == 0))
        texts.append(text)
    for _ in range(600 if ctx.tier == 'quick' else 12000):
        texts.append(''.join(rng.choice(alphabet) for _ in range(rng.randint(0, 30))))
    texts += ["MACROS-X ::= 1 END", "x MACRO ::= BEGIN a\nb END END", "EXPORTS a, b\n;c", "CHOICE { a\n b } x", "a--b\nc", "'01'b '01'h '0G'h ''B",
              "-5 5- --c\n-", "99999999999999999999999 1", "18446744073709551616", "-18446744073709551615", "4294967296 -4294967295 4294967295",
              "MAX MIN Counter NetworkAddress", "a\r\nb\rc\n\r\nd", "\"multi\nline\r\nstring\" x", "FOO- x", "12ab 12 ab", "a[b]c^d_e`f", "-0 0 00 007"]
    for t in texts:
        v = rng.choice(['v1', 'v2'])
        impl = pc.impl_lex(t, v)
        res.case(('lex', v, t), True)
        res.count('lexer-cases')
        reqs.append({'op': 'lex', 'variant': v, 'text': pc.codepoints(t)})
        metas.append(('lex', v, t, impl))
    # (ii) + (iii)
    n = 40 if ctx.tier == 'quick' else 700
    for i in range(n):
        seed = base + 5000 + i
        g, m, plain = pc.gen_module_text(seed, wild=False, nasty=(i % 2 == 0))
        variants = [plain]
        for ls in (1, 2):
            _, _, t = pc.gen_module_text(seed, wild=True, blocks=(ls == 2), layout_seed=seed * 7 + ls, nasty=(i % 2 == 0))
            variants.append(t)
        asts = []
        for di, dialect in enumerate(pc.DIALECTS):
            ex = grammar.build(pc.DIALECTS[dialect])
            ensure(ex)
            for vi, t in enumerate(variants):
                impl = pc.impl_parse(ex, t)
                res.case(('parse', dialect, t), len(m['decls']) >= 3)
                res.count('parse:' + dialect)
                reqs.append(pc.parse_request(ex, t))
                metas.append(('parse', dialect, t, impl))
                inp = {'dialect': dialect, 'text': t}
                if 'error' in impl:
                    res.oracle_failures.append({'key': 'rejects-valid', 'what': 'well-formed text rejected under %s: %r' % (dialect, impl), 'input': inp})
                    continue
                asts.append((dialect, vi, strip_fillers(impl['ast']), inp))
        # a text whose last line is a comment without a line end, then the plain text again through the same parser
        for dialect in pc.DIALECTS:
            ex = grammar.build(pc.DIALECTS[dialect])
            t_nc = plain.rstrip() + ' -- trailing comment without a line end'
            a1 = pc.impl_parse(ex, t_nc)
            a2 = pc.impl_parse(ex, plain)
            reqs.append(pc.parse_request(ex, t_nc))
            metas.append(('parse', dialect, t_nc, a1))
            res.case(('parse', dialect, t_nc), True)
            if 'ast' in a1:
                asts.append((dialect, 3, strip_fillers(a1['ast']), {'dialect': dialect, 'text': t_nc}))
            else:
                res.oracle_failures.append({'key': 'rejects-valid', 'what': 'text ending in a comment without line end rejected: %r' % (a1,),
                                            'input': {'dialect': dialect, 'text': t_nc}})
            if 'ast' in a2:
                asts.append((dialect, 4, strip_fillers(a2['ast']), {'dialect': dialect, 'text': plain, 'after': t_nc}))
            else:
                res.oracle_failures.append({'key': 'comment-at-eof-leaks', 'what': 'after a text ending in a comment the same parser rejects a valid text: %r' % (a2,),
                                            'input': {'dialect': dialect, 'text': plain, 'after': t_nc}})
        if asts:
            ref = asts[0][2]
            lv = leaves(ref, set())
            seen_keys = set()
            for mo in LITERAL.finditer(plain):
                lit = mo.group(0)
                want = lit[1:-1] if lit.startswith('"') else lit
                if want not in lv and lit not in lv:
                    key = 'values-exact' + literal_context(plain, mo.start())
                    if key in seen_keys:
                        continue
                    seen_keys.add(key)
                    res.oracle_failures.append({'key': key, 'what': 'literal %s of the text does not appear in the tree as written' % lit,
                                                'input': dict(asts[0][3], expect_literal=want)})
            for dialect, vi, a, inp in asts[1:]:
                if a != ref:
                    res.oracle_failures.append({'key': 'layout-independent' if dialect == asts[0][0] else 'dialect-independent',
                                                'what': 'the tree changes with the layout / dialect (%s, layout %d)' % (dialect, vi),
                                                'input': dict(inp, reference=asts[0][3]['text'])})
                    break
            try:
                sd = pc.structure_diffs(m, pc.plain(ref)[0])
            except Exception as e:
                sd = ['the tree does not have the shape of a module: %s' % type(e).__name__]
            if sd:
                res.oracle_failures.append({'key': 'clause-arguments', 'what': 'clause arguments / list order in the tree differ from the text: ' + '; '.join(sd[:3]),
                                            'input': dict(asts[0][3], expect_structure=True, gen_seed=seed, nasty=(i % 2 == 0))})
            names = pc.decl_names(ref)
            want = [(m['name'], [d['name'] for d in m['decls']])]
            if names != want:
                res.oracle_failures.append({'key': 'declarations', 'what': 'declarations in the tree %r differ from the text\'s %r' % (names, want),
                                            'input': asts[0][3]})
    if ctx.model is not None:
        for meta, out in zip(metas, ctx.model.batch(reqs)):
            if meta is None:
                continue
            tag, d, t, impl = meta
            if out != impl:
                res.corr_failures.append({'what': ('PLY token stream differs from Model.Lexer' if tag == 'lex' else
                                                   'syntax tree / outcome of the real parser differs from Model.LR.parse'),
                                          'dialect': d, 'text': t[:500], 'impl': str(impl)[:600], 'model': str(out)[:600]})
    res.sample({'text': variants[1][:600]})
    res.sample({'lexer_text': texts[0][:200], 'tokens': metas[1][3].get('tokens', [])[:8] if metas[1] else None})


def search(ctx):
    ctx.tier = 'thorough'
    run(ctx)


def literal_context(text, pos):
    """which clause a literal at `pos` is the argument of, for the clauses whose arguments the parser discards by
    design (p_ComplianceGroup keeps the group name only); '' for every other place"""
    import re
    if re.search(r'\bGROUP\s+[A-Za-z0-9][\w-]*\s+DESCRIPTION\s+$', text[:pos]):
        return ':compliance-group-description'
    return ''


def replay(payload):
    inp = payload['input']
    ex = grammar.build(pc.DIALECTS[inp['dialect']])
    if 'word_text' in inp:
        for dialect in pc.DIALECTS:
            grammar.build(pc.DIALECTS[dialect])
        bad = dialect_word_failures(inp['word'], inp['word_text'])
        return {'fails': bool(bad), 'what': bad}
    if 'v1_seed' in inp:
        import random
        from gen import v1gen
        for dialect in pc.DIALECTS:
            grammar.build(pc.DIALECTS[dialect])
        vg = v1gen.V1Gen(random.Random(inp['v1_seed']), size=8).build()
        a = pc.impl_parse(ex, v1gen.render(vg, 'v1'))
        if 'ast' not in a:
            return {'fails': True, 'impl': a}
        bad = smiv1_failures(vg, pc.plain(a['ast'])[0])
        return {'fails': bool(bad), 'what': bad[:3]}
    if inp.get('expect_structure'):
        # the record of what was printed comes from the generator; should the generator have changed since the input was
        # stored, the text is regenerated with it so that text and record always belong together
        g, m, regenerated = pc.gen_module_text(inp['gen_seed'], wild=False, nasty=inp.get('nasty', False))
        a = pc.impl_parse(ex, regenerated)
        if 'ast' not in a:
            return {'fails': True, 'impl': a}
        try:
            sd = pc.structure_diffs(m, pc.plain(strip_fillers(a['ast']))[0])
        except Exception as e:
            sd = [type(e).__name__]
        return {'fails': bool(sd), 'what': sd[:5]}
    if 'expect_literal' in inp:
        a = pc.impl_parse(ex, inp['text'])
        return {'fails': 'ast' not in a or inp['expect_literal'] not in leaves(strip_fillers(a['ast']), set())}
    if 'after' in inp:
        pc.impl_parse(ex, inp['after'])
    a = pc.impl_parse(ex, inp['text'])
    if 'reference' in inp:
        b = pc.impl_parse(ex, inp['reference'])
        same = 'ast' in a and 'ast' in b and strip_fillers(a['ast']) == strip_fillers(b['ast'])
        return {'fails': not same}
    if 'expect_defval' in inp:
        import json
        return {'fails': inp['expect_defval'] not in json.dumps(a)}
    return {'fails': 'error' in a, 'impl': {k: v for k, v in a.items() if k != 'ast'}}
