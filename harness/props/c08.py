"""C08 — dependencies followed transitively, in source order, always terminating (decided on the Model/Compile.lean model of MibCompiler.compile)."""
from props import compile_common as cc

LEVEL = 'proof'
MODULES = ['Pysmi.Props.C08', 'Pysmi.Props.C08Closure']
LAKE_TARGETS = ['Pysmi.Props.C08', 'Pysmi.Props.C08Closure']
THEOREMS = [
    'Pysmi.Compile.C08_terminates',
    'Pysmi.Compile.discover_terminates_aux',
    'Pysmi.Compile.C08_nonterminating_witness',
    'Pysmi.Compile.C08_sources_in_order',
    'Pysmi.Compile.C08_fetch_once',
    'Pysmi.Compile.C08_closure',
    'Pysmi.Compile.trySources_closure',
]
TECHNIQUE = 'Lean 4 theorems about a model of MibCompiler.compile over abstract component oracles; differential correspondence (status map + full call trace) against the real compile() driven by scripted doubles; oracle search'
LEVEL_TEXT = ('Termination is proved in Lean for every configuration over any finite universe of names (all graphs: cycles, self loops, several modules per file, files named unlike their module; any sources and outcomes) by a lexicographic measure; the witness theorem shows the pre-fix loop diverges on the alias cycle. Also proved, for every configuration: each source is asked for each name at most once per call; the lookups for a name go through the sources in the order they were added and stop at the first source whose file parses and registers; and, when every file holds the module it is named after, the discovery loop ends with every requested name and every imported name of every parsed module settled (parsed or recorded failed / missing), i.e. the import closure is covered. That "parsed at most once" follows from fetch-once plus one parse per successful fetch is visible in the model, not stated as a separate theorem; that each settled name ends with one of the six statuses is C07.')
LEVEL_NOTE = ('Trusted: Lean kernel + standard axioms; the hand-written model of compile() (Model/Compile.lean), tied to '
              '/repo by the correspondence on every run; component doubles stand for readers/parser/generators/searchers/'
              'borrowers/writer (their real behaviour is the subject of other properties).')
ASSUMPTIONS = [
    'components signal failure only through the package error type (anything else propagates in code and is outside the property)',
    'component answers are functions of their arguments (scripted doubles)',
]


def run(ctx):
    n = 1200 if ctx.tier == 'quick' else 12000
    cc.run_stream(ctx, 'C08', n, 600 if ctx.tier == 'quick' else 6000)


def search(ctx):
    cc.run_stream(ctx, 'C08', 6000, 3000)


def replay(payload):
    return cc.replay_scenario('C08', payload)
