"""C08 — dependencies followed transitively, in source order, always terminating (decided on the Model/Compile.lean model of MibCompiler.compile)."""
from props import compile_common as cc

LEVEL = 'proof'
MODULES = ['Pysmi.Props.C08', 'Pysmi.Props.C08Closure', 'Pysmi.Pins.Compile']
LAKE_TARGETS = ['Pysmi.Props.C08', 'Pysmi.Props.C08Closure', 'Pysmi.Pins.Compile']
THEOREMS = [
    'Pysmi.Pins.Compile.pin_statuses',
    'Pysmi.Pins.Compile.pin_skeleton',
    'Pysmi.Compile.C08_terminates',
    'Pysmi.Compile.discover_terminates_aux',
    'Pysmi.Compile.C08_nonterminating_witness',
    'Pysmi.Compile.C08_sources_in_order',
    'Pysmi.Compile.C08_fetch_once',
    'Pysmi.Compile.C08_closure',
    'Pysmi.Compile.trySources_closure',
]
TECHNIQUE = 'Lean 4 theorems about a model of MibCompiler.compile over abstract component oracles; differential correspondence (status map + full call trace) against the real compile() driven by scripted doubles; oracle search'
LEVEL_TEXT = ('Termination is proved in Lean for every configuration over any finite universe of names (all graphs: cycles, self loops, several modules per file, files named unlike their module; any sources and outcomes) by a lexicographic measure; the witness theorem shows the pre-fix loop diverges on the alias cycle. Also proved, for every configuration: each source is asked for each name at most once per call; the lookups for a name go through the sources in the order they were added and stop at the first source whose file parses and registers; and, when every file holds the module it is named after, the discovery loop ends with every requested name and every imported name of every parsed module settled (parsed or recorded failed / missing), i.e. the import closure is covered. That "parsed at most once" follows from fetch-once plus one parse per successful fetch is visible in the model, not stated as a separate theorem; that each settled name ends with one of the six statuses is C07.')
LEVEL_NOTE = ('Trusted: Lean kernel + standard axioms; the hand-written model of compile() (Model/Compile.lean), tied to '
              '/repo by the correspondence on every run; component doubles stand for readers/parser/generators/searchers/'
              'borrowers/writer (their real behaviour is the subject of other properties).')
ASSUMPTIONS = [
    'components signal failure only through the package error type (anything else propagates in code and is outside the property)',
    'component answers are functions of their arguments (scripted doubles)',
]


def imports_of(text):
    """module names after FROM in the IMPORTS clause of a generated text (plain layout, no comments)"""
    import re
    m = re.search(r'\bIMPORTS\b(.*?);', text, re.S)
    return re.findall(r'\bFROM\s+([A-Za-z][A-Za-z0-9-]*)', m.group(1)) if m else []


def real_run(texts, requested, absent=(), dialect='smiV1Relaxed'):
    """compile through the real parser / symbol pass / JSON generator with a reader that records what it is asked for;
    modules in `absent` are not served although the harness has them"""
    from pysmi.compiler import MibCompiler
    from pysmi.reader.callback import CallbackReader
    from pysmi.writer.callback import CallbackWriter
    from pysmi.searcher.stub import StubSearcher
    from pysmi.codegen.jsondoc import JsonCodeGen
    from pysmi.codegen.pysnmp import PySnmpCodeGen
    from impl import pipeline
    asked = []

    def read(name, c):
        asked.append(name)
        if name in absent:
            return ''
        return texts[name] if name in texts else (pipeline.base_text(name) or '')
    comp = MibCompiler(pipeline.get_parser(dialect), JsonCodeGen(), CallbackWriter(lambda n, d, c: None))
    comp.addSources(CallbackReader(read))
    comp.addSearchers(StubSearcher(*PySnmpCodeGen.baseMibs))
    st = comp.compile(*requested, ignoreErrors=True, genTexts=False)
    return {k: str(v) for k, v in st.items()}, asked


def imports_failures(texts, requested, absent):
    st, asked = real_run(texts, requested, absent)
    bad = []
    seen, todo = set(), list(requested)
    while todo:                                     # the closure by the texts themselves
        n = todo.pop()
        if n in seen:
            continue
        seen.add(n)
        from impl import pipeline
        t = None if n in absent else (texts.get(n) or pipeline.base_text(n))
        if t:
            todo.extend(imports_of(t))
    for n in sorted(seen):
        if n not in st:
            bad.append('%s is requested or named in an IMPORTS clause of the closure but has no status' % n)
        if n not in asked:
            bad.append('%s is requested or named in an IMPORTS clause of the closure but no source was asked for it' % n)
        if asked.count(n) > 1:
            bad.append('%s was looked up %d times in one call' % (n, asked.count(n)))
    return bad


def real_stream(ctx):
    """the import closure on the real components: generated SMIv2 sets and SMIv1 modules (whose imports are rewritten to
    their SMIv2 homes by the symbol pass), with some of the imported base modules not available"""
    import random
    from gen import mibgen, v1gen
    res = ctx.res
    n = 40 if ctx.tier == 'quick' else 600
    for i in range(n):
        seed = ctx.seed * 100000 + 80000 + i
        rng = random.Random(seed)
        if i % 2 == 0:
            g = v1gen.V1Gen(random.Random(seed), size=rng.choice([4, 6, 9]), alt_homes=(i % 3 == 0)).build()
            texts = {g.name: v1gen.render(g, 'v1')}
        else:
            sg = mibgen.SetGen(rng, n_modules=rng.choice([2, 3]))
            sg.build()
            texts = {name: mibgen.print_module(m, random.Random(seed)) for name, m in sg.modules.items()}
        named = sorted(set(f for t in texts.values() for f in imports_of(t)))
        absent = [x for x in named if rng.random() < 0.3]
        requested = sorted(texts) if i % 4 != 3 else sorted(texts)[:1]
        res.case(('real-imports', tuple(sorted(texts.items())), tuple(absent), tuple(requested)), True)
        res.count('real-imports:' + ('smiv1' if i % 2 == 0 else 'smiv2'))
        try:
            bad = imports_failures(texts, requested, absent)
        except Exception as e:
            bad = ['compile() raised %s: %s' % (type(e).__name__, str(e)[:100])]
        for b in bad[:2]:
            res.oracle_failures.append({'key': 'real-imports', 'what': b, 'input': {'texts': texts, 'requested': requested, 'absent': absent, 'real_imports': True}})


def run(ctx):
    n = 1200 if ctx.tier == 'quick' else 12000
    cc.run_stream(ctx, 'C08', n, 600 if ctx.tier == 'quick' else 6000)
    real_stream(ctx)


def search(ctx):
    cc.run_stream(ctx, 'C08', 6000, 3000)
    ctx.tier = 'thorough'
    real_stream(ctx)


def replay(payload):
    inp = payload['input']
    if inp.get('real_imports'):
        try:
            bad = imports_failures(inp['texts'], inp['requested'], inp['absent'])
        except Exception as e:
            bad = [repr(e)]
        return {'fails': bool(bad), 'what': bad[:5]}
    return cc.replay_scenario('C08', payload)
