"""C08 — dependencies followed transitively, in source order, always terminating (decided on the Model/Compile.lean model of MibCompiler.compile)."""
from props import compile_common as cc

LEVEL = 'proof'
MODULES = ['Pysmi.Props.C08']
LAKE_TARGETS = ['Pysmi.Props.C08']
THEOREMS = [
    'Pysmi.Compile.C08_terminates',
    'Pysmi.Compile.discover_terminates_aux',
    'Pysmi.Compile.C08_nonterminating_witness',
]
TECHNIQUE = 'Lean 4 theorems about a model of MibCompiler.compile over abstract component oracles; differential correspondence (status map + full call trace) against the real compile() driven by scripted doubles; oracle search'
LEVEL_TEXT = ('Termination is proved in Lean for every configuration over any finite universe of names (all graphs: cycles, self loops, several modules per file, files named unlike their module; any sources and outcomes) by a lexicographic measure; the witness theorem shows the pre-fix loop diverges on the alias cycle. Closure, fetch-once and first-hit/source-order are not proved in Lean yet: they are decided by the oracle on every aligned scenario and pinned by the full call-trace correspondence.')
LEVEL_NOTE = ('Trusted: Lean kernel + standard axioms; the hand-written model of compile() (Model/Compile.lean), tied to '
              '/repo by the correspondence on every run; component doubles stand for readers/parser/generators/searchers/'
              'borrowers/writer (their real behaviour is the subject of other properties).')
ASSUMPTIONS = [
    'components signal failure only through the package error type (anything else propagates in code and is outside the property)',
    'component answers are functions of their arguments (scripted doubles)',
]


def run(ctx):
    n = 1200 if ctx.tier == 'quick' else 12000
    cc.run_stream(ctx, 'C08', n, 600 if ctx.tier == 'quick' else 6000)


def search(ctx):
    cc.run_stream(ctx, 'C08', 6000, 3000)


def replay(payload):
    return cc.replay_scenario('C08', payload)
