"""C15 — descriptive texts reach the output intact and only when requested."""
import json
import random
import re
import warnings

from impl import pipeline, recbuilder
from props import parse_common as pc

LEVEL = 'proof'
MODULES = ['Pysmi.Props.C15', 'Pysmi.Pins.SkelC15']
LAKE_TARGETS = ['Pysmi.Props.C15', 'Pysmi.Pins.SkelC15']
THEOREMS = ['Pysmi.Pins.SkelC15.pin_pyblock', 'Pysmi.Pins.SkelC15.pin_pyline', 'Pysmi.PyStr.C15_gating', 'Pysmi.PyStr.C15_normalise_idempotent', 'Pysmi.PyStr.C15_normalise_only_whitespace',
            'Pysmi.PyStr.C15_py_block', 'Pysmi.PyStr.C15_py_line', 'Pysmi.PyStr.C15_py_block_needs_escaping',
            'Pysmi.PyStr.evalBody_pyblock', 'Pysmi.PyStr.evalBody_pyline',
            'Pysmi.Generated.Text.pin_pysnmpTextSites', 'Pysmi.Generated.Text.pin_pyWhitespace']
TECHNIQUE = ('Lean 4 theorems about a model of Python string-literal evaluation (escape sequences, newline normalisation of the tokenizer), '
             'of the two literal shapes the pysnmp template uses with their escaping filters, of the default white-space filter (Python\'s '
             '\\s class regenerated from CPython) and of the text gating; the template\'s text sites are extracted from the .j2 source on '
             'every run and pinned; correspondence of every model function with CPython / Jinja / the real filters on generated strings; '
             'end-to-end oracle through both backends with the generated module executed against a recording builder')
LEVEL_TEXT = ('Proved in Lean for every text (any code points: backslashes, quotes, apostrophes, line breaks, NUL, non-ASCII): a block site '
              'evaluates to the source text up to white space for every wrapping function that only changes white space; a one-line site '
              'evaluates to exactly the text; the default filter is idempotent and changes only white space; gated texts are emitted iff '
              'text generation is on and the text is non-empty. Tied by correspondence rather than proved: that Jinja\'s wordwrap only '
              'changes white space (checked on every generated string), that the real filters / re.sub / CPython literal evaluation agree '
              'with the model, that every handler of the intermediate generator applies the gate and the filter as modelled (checked through '
              'the JSON output for every text-bearing clause), and the JSON serialisation (json round trip).')
LEVEL_NOTE = ('Trusted: Lean kernel + standard axioms; translate.py (white-space table from CPython re, text sites from the template by '
              'regular expression); the harness; CPython compile/exec; Jinja2.')
ASSUMPTIONS = ['"up to white space" = equal after deleting every character of Python\'s \\s class',
               'a MIB text cannot contain a double quote (lexer rule QUOTED_STRING); the literal model rejects bare double quotes instead of '
               'modelling where a triple-quoted literal would end']

TEMPLATE = '''ACME-TEXT-MIB DEFINITIONS ::= BEGIN
IMPORTS MODULE-IDENTITY, OBJECT-TYPE, OBJECT-IDENTITY, NOTIFICATION-TYPE, Integer32, enterprises FROM SNMPv2-SMI
  TEXTUAL-CONVENTION FROM SNMPv2-TC
  OBJECT-GROUP, NOTIFICATION-GROUP, MODULE-COMPLIANCE, AGENT-CAPABILITIES FROM SNMPv2-CONF;
acmeText MODULE-IDENTITY LAST-UPDATED "200201010000Z" ORGANIZATION "%(mi.organization)s" CONTACT-INFO "%(mi.contactinfo)s" DESCRIPTION "%(mi.description)s"
   REVISION "200201010000Z" DESCRIPTION "%(mi.revision)s" ::= { enterprises 95 }
AcmeTc ::= TEXTUAL-CONVENTION DISPLAY-HINT "%(tc.displayhint)s" STATUS current DESCRIPTION "%(tc.description)s" REFERENCE "%(tc.reference)s" SYNTAX Integer32
acmeObj OBJECT-TYPE SYNTAX AcmeTc UNITS "%(obj.units)s" MAX-ACCESS read-only STATUS current DESCRIPTION "%(obj.description)s" REFERENCE "%(obj.reference)s" ::= { acmeText 1 }
acmeIdent OBJECT-IDENTITY STATUS current DESCRIPTION "%(oi.description)s" REFERENCE "%(oi.reference)s" ::= { acmeText 2 }
acmeNotif NOTIFICATION-TYPE OBJECTS { acmeObj } STATUS current DESCRIPTION "%(nt.description)s" REFERENCE "%(nt.reference)s" ::= { acmeText 3 }
acmeGroup OBJECT-GROUP OBJECTS { acmeObj } STATUS current DESCRIPTION "%(og.description)s" REFERENCE "%(og.reference)s" ::= { acmeText 4 }
acmeNGroup NOTIFICATION-GROUP NOTIFICATIONS { acmeNotif } STATUS current DESCRIPTION "%(ng.description)s" REFERENCE "%(ng.reference)s" ::= { acmeText 5 }
acmeCompl MODULE-COMPLIANCE STATUS current DESCRIPTION "%(mc.description)s" REFERENCE "%(mc.reference)s" MODULE MANDATORY-GROUPS { acmeGroup } ::= { acmeText 6 }
acmeCaps AGENT-CAPABILITIES PRODUCT-RELEASE "%(ac.productrelease)s" STATUS current DESCRIPTION "%(ac.description)s" REFERENCE "%(ac.reference)s" SUPPORTS ACME-TEXT-MIB INCLUDES { acmeGroup } ::= { acmeText 7 }
END
'''
SLOTS = re.findall(r'%\(([a-z.]+)\)s', TEMPLATE)
SYMBOL = {'mi': 'acmeText', 'tc': 'AcmeTc', 'obj': 'acmeObj', 'oi': 'acmeIdent', 'nt': 'acmeNotif', 'og': 'acmeGroup', 'ng': 'acmeNGroup',
          'mc': 'acmeCompl', 'ac': 'acmeCaps'}
GATED = ('description', 'reference', 'organization', 'contactinfo')
FILTERED = ('description', 'reference', 'organization', 'contactinfo', 'units', 'revision', 'productrelease')
SETTER = {'description': 'setDescription', 'reference': 'setReference', 'organization': 'setOrganization', 'contactinfo': 'setContactInfo',
          'units': 'setUnits', 'productrelease': 'setProductRelease'}

WS = [chr(c) for c in (9, 10, 11, 12, 13, 28, 29, 30, 31, 32, 133, 160, 5760, 8192, 8232, 8233, 8239, 12288)]
SPECIAL = ['\\u0027', '\\u003c', '\\u0026', '\\u003e', '\\u2028', '\\u0022', '&amp;', '&#39;',      # spelled-out escapes of JSON / HTML writers
           '\\', '\\\\', '\\n', '\\x', '\\x4', '\\x41', '\\u12', '\\u0041', '\\U0001F600', '\\N{DASH}', '\\N', '\\0', '\\101', '\\8', "'", "'''", '\\\'',
           '{{ 1+1 }}', '{% raw %}', '#', '%s', '%(x)s', '$', '`', '\0', '\x01', '\x7f', '\x1b', 'é', 'ß', 'Ω', '中', ' ', '﻿', '\U0001D6C0',
           '\U0001F600', '\udc80' if False else 'ÿ', '<', '>', '&', '\\"'[:1],
           # code points that Unicode normalisation would replace (a text filter may touch white space only)
           '\u2126', '\u212a', '\u212b', 'e\u0301', 'A\u030a', '\uf900', '\ufb01', '\u1e9b\u0323', '\u00b5', '\u2460']
WORDS = ['the', 'quick', 'brown', 'fox', 'C:', 'new', 'table', 'x' * 90, 'a-b', 'RFC', '1213', 'see', 'section', '4.2', 'units/sec', 'END', 'BEGIN',
         'MACRO', '--', 'comment', 'inter-', 're-', '-', 'non-']


def gen_text(rng):
    r = rng.random()
    if r < 0.04:
        return ''
    if r < 0.08:
        return rng.choice(WS) * rng.randint(1, 3)
    n = rng.randint(1, 14)
    parts = []
    for _ in range(n):
        k = rng.random()
        if k < 0.45:
            parts.append(rng.choice(WORDS))
        elif k < 0.75:
            parts.append(rng.choice(SPECIAL))
        else:
            parts.append(rng.choice(WORDS) + rng.choice(SPECIAL))
        k = rng.random()
        if k < 0.6:
            parts.append(' ')
        elif k < 0.8:
            parts.append(rng.choice(['\n', '\r\n', '\r', '\n\n', '  ', '\t', ' \n  ']))
        elif k < 0.9:
            parts.append(rng.choice(WS))
    t = ''.join(parts).replace('"', '')
    if rng.random() < 0.15:
        t += '\\'
    return t


def default_filter(symbol, text):
    return re.sub(r'\s+', ' ', text)


def drop_ws(s):
    return re.sub(r'\s', '', s)


def py_literal(kind, body):
    """value of the literal the template would write with this body, or the error class"""
    src = ('x = """\\\n' + body + '\n"""\n') if kind == 'block' else ('x = "' + body + '"\n')
    try:
        with warnings.catch_warnings():
            warnings.simplefilter('ignore')
            ns = {}
            exec(compile(src, 'lit.py', 'exec'), ns)
        v = ns['x']
        return {'ok': [ord(c) for c in v]} if isinstance(v, str) else {'error': 'syntax'}
    except (SyntaxError, ValueError):
        return {'error': 'syntax'}


def cp(s):
    return [ord(c) for c in s]


def run(ctx):
    res, rng = ctx.res, ctx.rng
    res.rule = ('a module with every text-bearing clause (MODULE-IDENTITY organization / contact / description / revision description, '
                'TEXTUAL-CONVENTION display hint / description / reference, OBJECT-TYPE units / description / reference, OBJECT-IDENTITY, '
                'NOTIFICATION-TYPE, OBJECT-GROUP, NOTIFICATION-GROUP, MODULE-COMPLIANCE, AGENT-CAPABILITIES product release / description / '
                'reference), each slot filled with a generated string (words, backslash sequences, apostrophes, line breaks of all kinds, '
                'every white-space class member, control characters incl. NUL, Latin-1 / BMP / non-BMP, 90-character words, empty, Jinja '
                'and %-syntax); genTexts on/off x default/identity filter; JSON and pysnmp (executed); plus the model functions on every '
                'generated string and on random literal bodies; non-trivial = text contains a character outside [A-Za-z0-9 ]')
    n = 40 if ctx.tier == 'quick' else 800
    reqs, metas = [], []
    import jinja2
    env = jinja2.Environment()
    wrap = env.filters['wordwrap']
    try:
        from pysmi.codegen import jfilters
        real_block, real_line = jfilters.pyblock, jfilters.pyline
    except (ImportError, AttributeError):
        real_block = real_line = None
        res.corr_failures.append({'what': 'pysmi.codegen.jfilters has no pyblock / pyline: the template cannot escape texts as modelled'})

    def model(fn, s, meta, **kw):
        reqs.append(dict({'op': 'text', 'fn': fn, 's': cp(s)}, **kw))
        metas.append((fn, s, meta))

    seen_texts = set()
    for i in range(n):
        texts = {slot: gen_text(rng) for slot in SLOTS}
        if i < 24:
            # an unbroken word longer than a line with a backslash at every offset around the wrap column: whatever
            # cuts the word must not cut an escape in two
            texts['obj.description'] = 'x' * (66 + i) + '\\' + 'n' + 'y' * 20 + ' tail'
            texts['oi.description'] = 'w' * (66 + i) + '\\\\' + 'z' * 30
            # words hyphenated across a line end: flowing a text joins lines with a blank, it never rejoins words
            texts['nt.description'] = 'an inter-%sface with re-%sentrant co- %s operative parts' % (
                ('\n', '\r\n', '\r', '\n   ')[i % 4], ('\r\n  ', '\n')[i % 2], ('\n', '\t\n')[i % 2])
        gen_on = (i % 4) != 3
        identity = (i % 2) == 1
        flt = (lambda sym, t: t) if identity else None
        mib = TEMPLATE % texts
        for t in texts.values():
            res.case(('text', t), bool(re.search(r'[^A-Za-z0-9 ]', t)))
            if t not in seen_texts:
                seen_texts.add(t)
                model('normalize', t, cp(default_filter('x', t)))
                w = wrap(env, t) if t else t
                if drop_ws(w) != drop_ws(t):
                    res.corr_failures.append({'what': 'Jinja wordwrap changed more than white space (assumption of C15_py_block)', 'text': t})
                if real_block:
                    model('pyblock', w, cp(real_block(w)))
                    model('pyline', t, cp(real_line(t)))
                    model('blockValue', real_block(w), py_literal('block', real_block(w)))
                    model('lineValue', real_line(t), py_literal('line', real_line(t)))
                if '"' not in t:
                    model('blockValue', w, py_literal('block', w))      # what the unescaped template used to write
                    model('lineValue', t, py_literal('line', t))
        res.count('genTexts=%s,filter=%s' % (gen_on, 'identity' if identity else 'default'))
        inp = {'texts': texts, 'genTexts': gen_on, 'identity_filter': identity}
        for be in ('json', 'pysnmp'):
            try:
                st, out, comp = pipeline.compile_set({'ACME-TEXT-MIB': mib}, backend=be, genTexts=gen_on, textFilter=flt, dialect='smiV2')
            except Exception as e:
                res.oracle_failures.append({'key': 'compile-raises', 'what': 'compile raised %s: %s' % (type(e).__name__, e), 'input': inp})
                continue
            if str(st.get('ACME-TEXT-MIB')) != 'compiled':
                err = getattr(st.get('ACME-TEXT-MIB'), 'error', None)
                res.oracle_failures.append({'key': 'not-compiled', 'what': '%s backend: status %s (%s)' % (be, st.get('ACME-TEXT-MIB'), err), 'input': inp})
                continue
            if be == 'json':
                try:
                    doc = json.loads(out['ACME-TEXT-MIB'])
                except ValueError as e:
                    res.oracle_failures.append({'key': 'json-unreadable', 'what': 'the JSON document cannot be read back: %s' % e, 'input': inp})
                    continue
                for slot, src in texts.items():
                    who, key = slot.split('.')
                    rec = doc.get(SYMBOL[who], {})
                    if key == 'revision':
                        got = (rec.get('revisions') or [{}])[0].get('description')
                    else:
                        got = rec.get(key)
                    want_filtered = src if identity else default_filter(key, src)
                    if key in GATED:
                        model('gated', want_filtered, None if got is None else cp(got), on=gen_on, present=True)
                        if not gen_on and got is not None:
                            res.oracle_failures.append({'key': 'gating', 'what': 'JSON has %s of %s although genTexts is off' % (key, SYMBOL[who]), 'input': inp})
                            continue
                        if gen_on and src and got is None:
                            res.oracle_failures.append({'key': 'gating', 'what': 'JSON lacks %s of %s although genTexts is on' % (key, SYMBOL[who]), 'input': inp})
                            continue
                    if got is None:
                        continue
                    ok = (got == want_filtered) if key in FILTERED else (got in (src, want_filtered))
                    if not ok:
                        res.oracle_failures.append({'key': 'json-text', 'what': 'JSON %s of %s is %r, source %r (filter %s)' % (
                            key, SYMBOL[who], got[:80], src[:80], 'identity' if identity else 'default'), 'input': dict(inp, slot=slot)})
            else:
                text = out['ACME-TEXT-MIB']
                try:
                    b, ns = recbuilder.execute(text, 'ACME-TEXT-MIB', load_texts=True)
                except BaseException as e:
                    res.oracle_failures.append({'key': 'pysnmp-exec', 'what': 'generated module does not load: %s: %s' % (type(e).__name__, str(e)[:200]), 'input': inp})
                    continue
                exported = b.exports.get('ACME-TEXT-MIB', {})
                for slot, src in texts.items():
                    who, key = slot.split('.')
                    if key == 'revision':
                        continue
                    obj = exported.get(SYMBOL[who])
                    if obj is None:
                        res.oracle_failures.append({'key': 'pysnmp-export', 'what': '%s not exported' % SYMBOL[who], 'input': inp})
                        continue
                    if isinstance(obj, type):
                        attr = {'displayhint': 'displayHint'}.get(key, key)
                        got = obj.__dict__.get(attr)
                    else:
                        calls = [a for nme, a, k in obj.rec_calls if nme == SETTER.get(key)]
                        got = calls[-1][0] if calls else None
                    if key in GATED and not gen_on:
                        if got is not None:
                            res.oracle_failures.append({'key': 'gating', 'what': 'pysnmp module sets %s of %s although genTexts is off' % (key, SYMBOL[who]), 'input': inp})
                        continue
                    if got is None:
                        # the template writes REFERENCE only for object types and agent capabilities: nothing emitted, nothing to compare
                        if src and drop_ws(src) and (key not in GATED or gen_on) and (key != 'reference' or who in ('obj', 'ac')):
                            res.oracle_failures.append({'key': 'pysnmp-missing', 'what': 'pysnmp module does not set %s of %s' % (key, SYMBOL[who]), 'input': dict(inp, slot=slot)})
                        continue
                    if not isinstance(got, str) or drop_ws(got) != drop_ws(src):
                        res.oracle_failures.append({'key': 'pysnmp-text', 'what': 'pysnmp %s of %s evaluates to %r, source %r' % (
                            key, SYMBOL[who], str(got)[:80], src[:80]), 'input': dict(inp, slot=slot)})
    # random literal bodies for the evaluation model
    alphabet = ['\\', '\\', 'n', 'x', 'u', 'U', 'N', '{', '}', '0', '1', '7', '8', 'a', 'f', 'A', "'", '\n', '\r', ' ', 'é', '\U0001F600', 'q', '\t']
    for _ in range(300 if ctx.tier == 'quick' else 6000):
        body = ''.join(rng.choice(alphabet) for _ in range(rng.randint(0, 12)))
        model('blockValue', body, py_literal('block', body))
        model('lineValue', body, py_literal('line', body))
    if ctx.model is not None:
        for (fn, s, want), out in zip(metas, ctx.model.batch(reqs)):
            res.count('model:' + fn)
            if isinstance(out, dict) and out.get('error') == 'named-escape':
                continue
            if out != want:
                res.corr_failures.append({'what': 'Model.PyStr.%s differs from the implementation' % fn, 'input': s[:200], 'impl': str(want)[:200],
                                          'model': str(out)[:200]})
    res.sample({'texts': {k: v[:60] for k, v in list(texts.items())[:6]}})


def search(ctx):
    ctx.tier = 'thorough'
    run(ctx)


def replay(payload):
    inp = payload['input']
    key = payload.get('key', '')
    texts = inp['texts']
    flt = (lambda sym, t: t) if inp.get('identity_filter') else None
    mib = TEMPLATE % texts
    be = 'json' if key in ('json-text', 'json-unreadable') else 'pysnmp'
    st, out, comp = pipeline.compile_set({'ACME-TEXT-MIB': mib}, backend=be, genTexts=inp['genTexts'], textFilter=flt, dialect='smiV2')
    if str(st.get('ACME-TEXT-MIB')) != 'compiled':
        return {'fails': True}
    if be == 'pysnmp':
        try:
            b, ns = recbuilder.execute(out['ACME-TEXT-MIB'], 'ACME-TEXT-MIB', load_texts=True)
        except BaseException:
            return {'fails': True}
        if 'slot' in inp:
            who, k = inp['slot'].split('.')
            obj = b.exports['ACME-TEXT-MIB'].get(SYMBOL[who])
            if isinstance(obj, type):
                got = obj.__dict__.get({'displayhint': 'displayHint'}.get(k, k))
            else:
                calls = [a for nme, a, kk in obj.rec_calls if nme == SETTER.get(k)]
                got = calls[-1][0] if calls else None
            return {'fails': not isinstance(got, str) or drop_ws(got) != drop_ws(texts[inp['slot']])}
        return {'fails': False}
    try:
        doc = json.loads(out['ACME-TEXT-MIB'])
    except ValueError:
        return {'fails': True}
    if 'slot' not in inp:
        return {'fails': False}
    who, k = inp['slot'].split('.')
    got = doc.get(SYMBOL[who], {}).get(k)
    want = texts[inp['slot']] if inp.get('identity_filter') else default_filter(k, texts[inp['slot']])
    return {'fails': got != want}
