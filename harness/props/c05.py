"""C05 — types, constraints and default values survive compilation exactly."""
import re
from gen import mibgen
from props import codegen_common as cg
from props import c01

LEVEL = 'proof'
MODULES = ['Pysmi.Props.C05', 'Pysmi.Pins.SkelC05']
LAKE_TARGETS = ['Pysmi.Props.C05', 'Pysmi.Pins.SkelC05']
THEOREMS = [
    'Pysmi.Pins.SkelC05.pin_genDefVal',
    'Pysmi.Pins.SkelC05.pin_getBaseType',
    'Pysmi.Syntax.parse_render',
    'Pysmi.Syntax.C05_literal_denotation',
    'Pysmi.Syntax.C05_hex_case',
    'Pysmi.Syntax.C05_empty_literal',
    'Pysmi.Syntax.C05_ranges_in_order',
    'Pysmi.Syntax.C05_basetype_sound',
    'Pysmi.Syntax.C05_basetype_complete',
    'Pysmi.Syntax.C05_basetype_functional',
    'Pysmi.Syntax.C05_basetype_is_base',
    'Pysmi.Syntax.C05_defval_number',
    'Pysmi.Syntax.C05_defval_hex',
    'Pysmi.Syntax.C05_defval_bin',
    'Pysmi.Syntax.C05_defval_enum',
    'Pysmi.Syntax.C05_defval_string',
    'Pysmi.Syntax.C05_defval_empty_string_dropped',
    'Pysmi.Syntax.C05_defval_oid',
]
TECHNIQUE = ('Lean 4 theorems about str2int (hex/binary/decimal denotation for every magnitude), range/SIZE list mapping (any length), '
             'getBaseType over chains of derived types (any length, any modules: sound, complete, functional) and the DEFVAL form as a '
             'function of the resolved base type; correspondence of each against the real functions; ground-truth oracle on JSON documents')
LEVEL_TEXT = ('Proved in Lean: decimal, hexadecimal (either case) and binary spellings of one integer denote the same value, for every '
              'magnitude; empty hex/bin strings are errors; every range / SIZE alternative is emitted in order (single value: min = max) '
              'for lists of any length; getBaseType returns the base type at the end of any acyclic chain of derived types (any length, '
              'across modules) with the enumeration/bit lists met on the way, own list first; DEFVAL forms: number, hex/bin on integer '
              'and other bases, string (verbatim; the empty string kept on OCTET STRING and dropped on every other base), enumeration label '
              '(member of the resolved enumeration), OID label. The lexer\'s token classes (32/64-bit bounds) are C11/C02\'s lexer model. '
              'The pysnmp template\'s rendering of constraints and defaults is not modelled (checked by executing the module). Tied by '
              'calling the real str2int/genIntegerSubType/getBaseType on the same inputs and by JSON documents of generated modules.')
LEVEL_NOTE = c01.LEVEL_NOTE
ASSUMPTIONS = ['Python int(s, 16) / int(s, 2) on digit strings is Horner evaluation (checked by the correspondence)']


def lit_of_text(t):
    """'1F'H -> ['hex','1F']; decimal text -> int (as the parser delivers it)"""
    if t.startswith("'"):
        body, suf = t[1:-2], t[-1].lower()
        return ['hex' if suf == 'h' else 'bin', body]
    return int(t)


def ranges_stream(ctx, reqs, metas):
    """str2int / genIntegerSubType / genOctetStringSubType called directly on literal lists"""
    from pysmi.codegen.intermediate import IntermediateCodeGen
    from pysmi import error
    rng = ctx.rng
    cgn = IntermediateCodeGen()
    vals = [0, 1, -1, 7, 255, 256, 2 ** 31 - 1, 2 ** 31, -2 ** 31, 2 ** 32 - 1, 2 ** 32, 2 ** 63 - 1, 2 ** 63, 2 ** 64 - 1, 10 ** 25]

    def spell(v):
        r = rng.random()
        if v < 0 or r < 0.4:
            return v
        if r < 0.7:
            h = '%x' % v
            if rng.random() < 0.5:
                h = h.upper()
            if rng.random() < 0.3:
                h = '0' * rng.randint(1, 3) + h
            return "'%s'%s" % (h, rng.choice('hH'))
        return "'%s'%s" % ('0' * rng.randint(0, 2) + bin(v)[2:], rng.choice('bB'))
    n = 300 if ctx.tier == 'quick' else 5000
    for _ in range(n):
        alts, truth = [], []
        for _ in range(rng.randint(1, 5)):
            if rng.random() < 0.4:
                v = rng.choice(vals)
                alts.append([spell(v)])
                truth.append((v, v))
            else:
                a, b = sorted(rng.sample(vals, 2))
                alts.append([spell(a), spell(b)])
                truth.append((a, b))
        if rng.random() < 0.05:
            alts.append([rng.choice(["''H", "''b"])])
            truth = None
        which = rng.choice(['range', 'size'])
        try:
            out = (cgn.genIntegerSubType if which == 'range' else cgn.genOctetStringSubType)([alts])
            got = [[d['min'], d['max']] for d in out[which]]
        except error.PySmiSemanticError as e:
            got = 'emptyhex' if 'hex' in str(e) else 'emptybin'
        ctx.res.case(('ranges', str(alts)), True)
        ctx.res.count('ranges-direct')
        if truth is not None and got != [list(t) for t in truth]:
            ctx.res.oracle_failures.append({'key': 'range-values', 'what': 'alternatives %r emitted as %r, they denote %r' % (alts, got, truth),
                                            'input': {'alts': alts, 'which': which}})
        reqs.append({'op': 'ranges', 'alts': [[lit_of_text(x) if isinstance(x, str) else x for x in a] for a in alts]})
        metas.append(('ranges', alts, got))


def basetype_stream(ctx, obs, reqs, metas):
    """the real getBaseType on the captured cross-module symbol table vs the model"""
    from pysmi.codegen.intermediate import IntermediateCodeGen
    import copy
    symmap = obs['symmap']
    if not symmap:
        return
    names, mods = cg.Interner(), cg.Interner()
    rows, queries, got = [], [], []
    cgn = IntermediateCodeGen()
    cgn.symbolTable = copy.deepcopy(symmap)      # getBaseType extends lists in place: work on a copy
    for m, tab in symmap.items():
        for sym, props in tab.items():
            if isinstance(props, dict) and 'syntax' in props:
                (tname, tmod), sub = props['syntax']
                if not isinstance(tname, str):
                    continue
                subl = [[names(a), int(b)] for a, b in sub] if isinstance(sub, list) else None
                rows.append([mods(m), names(sym), names(tname), mods(tmod), subl])
                queries.append([names(sym), mods(m)])
                try:
                    (b, bm), bsub = cgn.getBaseType(sym, m)
                    # entries may repeat when a chain is walked again; compare as first occurrences
                    g = [names(b), [[names(x), int(y)] for x, y in bsub] if isinstance(bsub, list) else None]
                except Exception as e:
                    g = 'nosymbol' if 'no symbol' in str(e) or 'no module' in str(e) else 'unknowntype' if 'unknown type' in str(e) else 'fuel'
                got.append(g)
    if not rows:
        return
    base = [names(b) for b in IntermediateCodeGen.baseTypes]
    reqs.append({'op': 'basetype', 'base': base, 'empty': names(''), 'fuel': 900, 'types': rows, 'queries': queries})
    metas.append(('basetype', queries, got))


def expected_constraints(syn):
    c = {}
    if 'ranges' in syn:
        c['range'] = [{'min': r[0], 'max': r[-1]} for r in syn['ranges']]
    if 'sizes' in syn:
        c['size'] = [{'min': r[0], 'max': r[-1]} for r in syn['sizes']]
    if 'enum' in syn:
        c['enumeration'] = dict(syn['enum'])
    return c


def type_name(base):
    from pysmi.codegen.intermediate import IntermediateCodeGen
    return IntermediateCodeGen.SMI_TYPES.get(base, base).replace('-', '_') if hasattr(IntermediateCodeGen, 'SMI_TYPES') else base


def check_set(ctx, obs):
    res = ctx.res
    g = obs['gen']
    inp = {'seed': obs['seed'], 'texts': obs['texts'], 'run_set': obs.get('run_set')}
    for (mn, name), t in g.truth.items():
        doc = obs['json'].get(mn)
        if doc is None or '__invalid_json__' in doc:
            continue
        rec = doc.get(mibgen.jname(name))
        if rec is None or 'syntax' not in t:
            continue
        syn = t['syntax']
        if 'seqof' in syn or syn.get('rowref'):
            continue
        node = rec.get('syntax') if t['kind'] == 'objectType' else rec.get('type')
        if not isinstance(node, dict):
            res.oracle_failures.append({'key': 'syntax-missing', 'what': '%s::%s has no syntax/type record' % (mn, name), 'input': inp})
            continue
        # parent type name as written
        want_type = {'BITS': 'Bits'}.get(syn['base'], syn['base'])     # the JSON backend keeps the written type name
        if node.get('type') != want_type:
            res.oracle_failures.append({'key': 'parent-type', 'what': '%s::%s: emitted type %r, written %s' % (mn, name, node.get('type'), syn['base']),
                                        'input': inp})
        if 'bits' in syn:
            if node.get('bits') != dict(syn['bits']):
                res.oracle_failures.append({'key': 'bits', 'what': '%s::%s: emitted bits %r, written %r' % (mn, name, node.get('bits'), syn['bits']),
                                            'input': inp})
        else:
            want = expected_constraints(syn)
            if (node.get('constraints') or {}) != want:
                res.oracle_failures.append({'key': 'constraints', 'what': '%s::%s: emitted constraints %r, written %r' % (
                    mn, name, node.get('constraints'), want), 'input': inp})
        # default value
        d = next((x for x in g.modules[mn]['decls'] if x['name'] == name), None)
        if d and d.get('defval'):
            k, v = d['defval']
            dflt = (rec.get('default') or {}).get('default')
            base = t.get('chain_base', syn)
            is_int = base.get('kind') == 'int'
            want = None
            if k == 'num':
                want = {'value': v, 'format': 'decimal'}
            elif k == 'hex':
                want = {'value': str(v), 'format': 'hex'} if is_int else {'value': '%X' % v, 'format': 'hex'}
            elif k == 'bin':
                want = {'value': str(v), 'format': 'bin'} if is_int else None
            elif k == 'enum':
                want = {'value': v, 'format': 'enum'}
            elif k == 'str':
                want = {'value': v, 'format': 'string'}
                if v == '' and not oct_base(base):
                    # the empty string is a default only an OCTET STRING can have; on other bases it is dropped
                    want = None
                    if dflt is not None:
                        res.oracle_failures.append({'key': 'defval', 'what': '%s::%s: DEFVAL "" on %s emitted as %r, expected none' % (
                            mn, name, syn['base'], dflt), 'input': inp})
            elif k == 'hexstr':
                want = {'value': v, 'format': 'hex'}
            elif k == 'binstr':
                want = {'value': '%0*x' % ((len(v) + 3) // 4, int(v, 2)), 'format': 'hex'}
            elif k == 'oid':
                oid = g.truth[(d.get('defval_module', mn), v)]['oid']
                want = {'value': str(tuple(oid)), 'format': 'oid'}
            elif k == 'bits':
                pos = dict(syn['bits'])
                want = {'format': 'bits'}
                got_bits = ((rec.get('default') or {}).get('value') or {}).get('bits')
                exp_bits = {b: pos[b] for b in sorted(v, key=lambda b: pos[b])}
                if (rec.get('default') or {}).get('format') != 'bits' or got_bits != exp_bits:
                    res.oracle_failures.append({'key': 'defval-bits', 'what': '%s::%s: DEFVAL bits %r emitted as %r' % (mn, name, v, rec.get('default')),
                                                'input': inp})
                continue
            # correspondence of Model.Syntax.genDefVal with the emitted record (literal notations; labels and bit lists above)
            if k in ('num', 'hex', 'bin', 'str', 'hexstr', 'binstr') and ctx.defval_reqs is not None:
                lit = {'num': ['num', v], 'hex': ['hex', '%X' % v] if k == 'hex' else None, 'bin': ['bin', bin(v)[2:]] if k == 'bin' else None,
                       'str': ['str', v], 'hexstr': ['hex', v], 'binstr': ['bin', v]}[k]
                ctx.defval_reqs.append({'op': 'defval', 'isInt': is_int, 'isOid': base.get('base') == 'OBJECT IDENTIFIER', 'isBits': 'bits' in base, 'isOctets': oct_base(base),
                                        'enum': None, 'known': [], 'defval': lit})
                ctx.defval_metas.append(('defval', (mn, name, d['defval'], syn['base']), dflt))
            if want is not None:
                if dflt is None or any(dflt.get(kk) != vv for kk, vv in want.items()):
                    res.oracle_failures.append({'key': 'defval', 'what': '%s::%s: DEFVAL %r on %s emitted as %r, expected %r' % (
                        mn, name, d['defval'], syn['base'], dflt, want), 'input': inp})


def compare(ctx, reqs, metas):
    res = ctx.res
    if ctx.model is None or not reqs:
        return
    for (tag, a, got), out in zip(metas, ctx.model.batch(reqs)):
        if isinstance(out, dict) and 'driver_error' in out:
            res.corr_failures.append({'what': 'driver error ' + out['driver_error']})
            continue
        if tag == 'defval':
            # canonical image of the emitted record in the model's vocabulary
            if got is None:
                impl = 'nothing'
            elif 'format' not in got:
                impl = 'basetypeonly'
            elif got['format'] == 'decimal':
                impl = ['decimal', got['value']]
            elif got['format'] in ('hex', 'bin') and isinstance(out, list) and out[0] in ('hexofint', 'binofint'):
                impl = [out[0], int(got['value'])] if str(got['value']).lstrip('-').isdigit() and got['format'] == out[0][:3] else ['?', got]
            elif got['format'] == 'hex' and isinstance(out, list) and out[0] == 'hexdigits':
                impl = ['hexdigits', got['value']]
            elif got['format'] == 'hex' and isinstance(out, list) and out[0] == 'hexofbin':
                impl = ['hexofbin', None] if got['value'] == '' else ['hexofbin', len(got['value']), int(got['value'], 16)]
            elif got['format'] == 'string':
                impl = ['string', got['value']]
            else:
                impl = ['?', got]
            if impl != out:
                res.corr_failures.append({'what': 'emitted DEFVAL record differs from Model.Syntax.genDefVal', 'object': a, 'impl': got, 'model': out})
            continue
        if tag == 'ranges':
            if out != got:
                res.corr_failures.append({'what': 'genIntegerSubType/str2int differs from Model.Syntax.genRanges', 'alts': a, 'impl': got, 'model': out})
        elif tag == 'basetype':
            for q, gi, mo in zip(a, got, out):
                if isinstance(gi, list) and isinstance(mo, list):
                    same = gi[0] == mo[0] and (gi[1] is None) == (mo[1] is None) and \
                        (gi[1] is None or dedup(gi[1]) == dedup(mo[1]))
                else:
                    same = gi == mo
                if not same:
                    res.corr_failures.append({'what': 'getBaseType differs from Model.Syntax.getBaseType', 'query': q, 'impl': gi, 'model': mo})
                    break


def dedup(l):
    out = []
    for x in l:
        if x not in out:
            out.append(x)
    return out


def check_pysnmp_defaults(ctx, obs):
    """the default written into the syntax class of the generated pysnmp module (defaultValue / defaultHexValue /
    defaultBinValue of `_<Name>_Type`) denotes the number the MIB gives, for integer-valued defaults"""
    res = ctx.res
    g = obs['gen']
    inp = {'seed': obs['seed'], 'texts': obs['texts'], 'backend': 'pysnmp', 'run_set': obs.get('run_set')}
    for mn, m in g.modules.items():
        ex = obs['pysnmp'].get(mn)
        if not ex or ex.get('ns') is None:
            continue
        for d in m['decls']:
            if d['kind'] != 'objectType' or not d.get('defval'):
                continue
            k, v = d['defval']
            t = g.truth[(mn, d['name'])]
            base = t.get('chain_base', d['syntax'])
            pyname = mibgen.jname(d['name'])
            cls = ex['ns'].get('_%s_Type' % (pyname[:1].upper() + pyname[1:]))
            if k == 'str' and oct_base(base) and cls is not None and 'defaultValue' in getattr(cls, '__dict__', {}):
                # a string default is written as OctetString("<text>"): executing the module must give the text back
                dv = cls.__dict__['defaultValue']
                text = dv.rec_args[0] if getattr(dv, 'rec_args', None) else dv
                res.count('pysnmp-default:str')
                if text != v:
                    res.oracle_failures.append({'key': 'pysnmp-default', 'what': '%s::%s: DEFVAL { "%s" } reaches the pysnmp module as %r' % (
                        mn, d['name'], v, text), 'input': inp})
                continue
            if k not in ('num', 'hex', 'bin') or base.get('kind') != 'int':
                continue
            if cls is None:
                continue
            res.count('pysnmp-default:' + k)
            got = {a: cls.__dict__[a] for a in ('defaultValue', 'defaultHexValue', 'defaultBinValue') if a in getattr(cls, '__dict__', {})}
            vals = []
            for a, x in got.items():
                try:
                    vals.append(int(x))
                except Exception:
                    vals.append(x)
            if vals != [v]:
                res.oracle_failures.append({'key': 'pysnmp-default', 'what': '%s::%s: DEFVAL %s (%d) reaches the pysnmp module as %r' % (
                    mn, d['name'], mibgen.defval_text(d['defval']), v, got), 'input': inp})


def oct_base(base):
    """the resolved base type is OctetString for the code generator: OCTET STRING, DisplayString and other string TCs, and
    Opaque (which pysmi resolves to OctetString as well)"""
    return base.get('base') in ('OCTET STRING', 'DisplayString', 'Opaque') or base.get('kind') == 'str'


DIRECTED = [
    # an enumeration label spelled like an imported node, used as the default: a label, never that node's OID
    ('enum-label-like-import', {
        'texts': {'ACME-N-MIB': 'ACME-N-MIB DEFINITIONS ::= BEGIN IMPORTS enterprises FROM SNMPv2-SMI;\nacmeRoot OBJECT IDENTIFIER ::= { enterprises 66 }\nEND\n',
                  'ACME-O-MIB': 'ACME-O-MIB DEFINITIONS ::= BEGIN IMPORTS OBJECT-TYPE, enterprises FROM SNMPv2-SMI acmeRoot FROM ACME-N-MIB;\n'
                                'acmeState OBJECT-TYPE SYNTAX INTEGER { acmeRoot(1), other(2) } MAX-ACCESS read-only STATUS current DESCRIPTION "d" '
                                'DEFVAL { acmeRoot } ::= { acmeRoot 1 }\nEND\n'},
        'expect_default': {'ACME-O-MIB': {'acmeState': {'value': 'acmeRoot', 'format': 'enum'}}}}),
    # the same label on a named type two levels up
    ('enum-label-through-types', {
        'texts': {'ACME-P-MIB': 'ACME-P-MIB DEFINITIONS ::= BEGIN IMPORTS OBJECT-TYPE, enterprises FROM SNMPv2-SMI;\n'
                                'AcmeE ::= INTEGER { up(1), down(2), testing(3) }\nAcmeE2 ::= AcmeE\n'
                                'acmeP OBJECT-TYPE SYNTAX AcmeE2 MAX-ACCESS read-only STATUS current DESCRIPTION "d" DEFVAL { testing } ::= { enterprises 67 }\nEND\n'},
        'expect_default': {'ACME-P-MIB': {'acmeP': {'value': 'testing', 'format': 'enum'}}}}),
]


def run(ctx):
    res = ctx.res
    res.rule = ('(a) literal lists with boundary values 0, +-1, 2^31+-1, 2^32-1, 2^32, 2^63, 2^64-1, 10^25 in decimal / hex (either case, leading '
                'zeros) / binary spellings, empty hex/bin strings, through the real genIntegerSubType/genOctetStringSubType; (b) generated '
                'module sets with every built-in and application type, inline refinements, enumerations, BITS, chains of 2-5 derived types / '
                'textual conventions within and across modules, every DEFVAL notation (number, hex, binary, string, enum label, bit list, OID '
                'label); non-trivial = at least one refinement or DEFVAL; distinct by generated text')
    for label, inp in DIRECTED:
        res.case(('directed', label), True)
        res.count('directed')
        try:
            r = replay({'input': inp})
        except BaseException as e:
            r = {'fails': True, 'what': ['%s: %s' % (type(e).__name__, e)]}
        if r['fails']:
            res.oracle_failures.append({'key': 'defval', 'what': 'directed module %s: %s' % (label, '; '.join(map(str, r.get('what') or []))[:300]), 'input': inp})
    reqs, metas = [], []
    ctx.defval_reqs, ctx.defval_metas = reqs, metas
    ranges_stream(ctx, reqs, metas)
    n = 100 if ctx.tier == 'quick' else 1500
    base = ctx.seed * 100000 + 20000
    for i in range(n):
        obs = cg.run_set(base + i, backends=('json',), exotic_defvals=True)
        nt = sum(1 for t in obs['gen'].truth.values() if 'syntax' in t)
        res.case(tuple(sorted(obs['texts'].items())), nt >= 1)
        for m in obs['gen'].modules.values():
            for d in m['decls']:
                if d.get('defval'):
                    res.count('defval:' + d['defval'][0])
                if 'syntax' in d and isinstance(d['syntax'], dict):
                    for k in ('ranges', 'sizes', 'enum', 'bits', 'user'):
                        if k in d['syntax']:
                            res.count('syntax:' + k)
        check_set(ctx, obs)
        basetype_stream(ctx, obs, reqs, metas)
        if i % 4 == 0:
            tolerated_spelling(ctx, obs)
        if True:
            # the same defaults through the pysnmp backend (sets drawn without the two constructs its template cannot load)
            obs2 = cg.run_set(base + 50000 + i, backends=('pysnmp',), exotic_defvals=True, pysnmp_safe=True)
            check_pysnmp_defaults(ctx, obs2)
    compare(ctx, reqs, metas)
    res.sample({'literal_case': metas[0][1], 'impl': metas[0][2]})
    res.sample({'module_text': list(obs['texts'].values())[0][:1200]})


ENUM_BODY = re.compile(r'(INTEGER|Integer32)(\s*)\{([^{}]*)\}')


def spaced_enums(text):
    """the same module with every other comma of its enumerations left out (a spelling the relaxed grammar accepts)"""
    def body(m):
        k = [0]

        def comma(c):
            k[0] += 1
            return ') ' if k[0] % 2 else c.group(0)
        return m.group(1) + m.group(2) + '{' + re.sub(r'\)\s*,', comma, m.group(3)) + '}'
    return ENUM_BODY.sub(body, text)


def tolerated_spelling(ctx, obs):
    """enumerations written with blanks instead of some commas (tolerated by the default, relaxed grammar) declare the
    same labels: the JSON documents of both spellings are equal"""
    import json
    from impl import pipeline
    res = ctx.res
    texts2 = {m: spaced_enums(t) for m, t in obs['texts'].items()}
    if texts2 == obs['texts']:
        return
    res.count('tolerated-spelling-sets')
    inp = {'seed': obs['seed'], 'texts': texts2, 'plain_texts': obs['texts']}
    try:
        st, out, _ = pipeline.compile_set(texts2, backend='json', genTexts=True)
    except Exception as e:
        res.oracle_failures.append({'key': 'tolerated-spelling', 'what': 'compile raised %s: %s' % (type(e).__name__, e), 'input': inp})
        return
    for m in texts2:
        want = obs['json'].get(m)
        if want is None or '__invalid_json__' in want:
            continue
        if str(st.get(m)) != 'compiled':
            res.oracle_failures.append({'key': 'tolerated-spelling', 'what': '%s with space-separated enumeration items: %s (%s)' % (
                m, st.get(m), getattr(st.get(m), 'error', None)), 'input': inp})
            return
        got = json.loads(out[m])
        bad = [k for k in sorted(set(want) | set(got)) if k != 'meta' and got.get(k) != want.get(k)]     # meta carries the time of day
        if bad:
            res.oracle_failures.append({'key': 'tolerated-spelling', 'what': '%s::%s differs when enumeration items are separated by blanks: %r, with commas %r' % (
                m, bad[0] if bad else '?', str(got.get(bad[0]) if bad else None)[:300], str(want.get(bad[0]) if bad else None)[:300]), 'input': inp})
            return


def search(ctx):
    ctx.tier = 'thorough'
    run(ctx)


def replay(payload):
    import json
    from impl import pipeline
    if payload.get('key') == 'tolerated-spelling':
        i2 = payload['input']
        try:
            st1, out1, _ = pipeline.compile_set(i2['plain_texts'], backend='json', genTexts=True)
            st2, out2, _ = pipeline.compile_set(i2['texts'], backend='json', genTexts=True)
        except Exception:
            return {'fails': True}
        return {'fails': any(str(st1.get(m)) == 'compiled' and (str(st2.get(m)) != 'compiled' or dict(json.loads(out1[m]), meta=0) != dict(json.loads(out2[m]), meta=0)) for m in i2['texts'])}
    inp = payload['input']
    if 'alts' in inp:
        from pysmi.codegen.intermediate import IntermediateCodeGen
        cgn = IntermediateCodeGen()
        out = (cgn.genIntegerSubType if inp['which'] == 'range' else cgn.genOctetStringSubType)([inp['alts']])
        return {'fails': False, 'what': out}
    if inp.get('backend') == 'pysnmp':
        import common

        class C:
            pass
        c = C()
        c.res = common.Result('C05', 'quick', 0)
        return cg.replay_regenerated('C05', dict(inp, run_set=inp.get('run_set') or dict(backends=['pysnmp'], exotic_defvals=True, pysnmp_safe=True)),
                                     check_pysnmp_defaults, payload.get('key'))
    if inp.get('run_set'):
        return cg.replay_regenerated('C05', inp, check_set, payload.get('key'))
    texts = inp['texts']
    r, out, _ = pipeline.compile_set(texts, genTexts=True)
    bad = []
    for mod, exp in (inp.get('expect_enum') or {}).items():
        doc = json.loads(out[mod]) if mod in out else {}
        for sym, want in exp.items():
            got = (((doc.get(sym) or {}).get('type') or {}).get('constraints') or {}).get('enumeration')
            if got != want:
                bad.append('%s::%s enumeration %r, expected %r' % (mod, sym, got, want))
    for mod, exp in (inp.get('expect_default') or {}).items():
        doc = json.loads(out[mod]) if mod in out else {}
        for sym, want in exp.items():
            got = ((doc.get(sym) or {}).get('default') or {}).get('default')
            if got is None or any(got.get(k) != v for k, v in want.items()):
                bad.append('%s::%s default %r, expected %r' % (mod, sym, got, want))
    for mod, exp in (inp.get('expect_pysnmp_defaults') or {}).items():
        from impl import recbuilder
        r2, out2, _ = pipeline.compile_set(texts, backend='pysnmp', genTexts=True)
        try:
            b, ns = recbuilder.execute(out2[mod], mod)
        except BaseException as e:
            bad.append('%s: generated module does not load: %s' % (mod, type(e).__name__))
            continue
        for sym, want in exp.items():
            cls = ns.get('_%s_Type' % (sym[:1].upper() + sym[1:]))
            dv = getattr(cls, '__dict__', {}).get('defaultValue')
            text = dv.rec_args[0] if getattr(dv, 'rec_args', None) else dv
            if text != want:
                bad.append('%s::%s default %r, expected %r' % (mod, sym, text, want))
    return {'fails': bool(bad), 'what': bad}
