"""C03 — JSON output is well formed and holds exactly the declared symbols."""
from gen import mibgen
from props import codegen_common as cg
from props import c01

LEVEL = 'proof'
MODULES = ['Pysmi.Props.C03', 'Pysmi.Props.C03Time', 'Pysmi.Props.C03Records', 'Pysmi.Props.C03Names', 'Pysmi.Pins.SkelC03']
LAKE_TARGETS = ['Pysmi.Props.C03', 'Pysmi.Props.C03Time', 'Pysmi.Props.C03Records', 'Pysmi.Props.C03Names', 'Pysmi.Pins.SkelC03']
THEOREMS = ['Pysmi.Pins.SkelC03.pin_intermediateGenCode', 'Pysmi.Pins.SkelC03.pin_genRevisions', 
    'Pysmi.Symtab.C03_order_is_perm',
    'Pysmi.Symtab.inv_regDecl',
    'Pysmi.Symtab.fixpoint_stable',
    'Pysmi.Symtab.C01_success_characterised',
    'Pysmi.Time.C03_revision_long',
    'Pysmi.Time.C03_revision_short',
    'Pysmi.Time.C03_revision_total',
    'Pysmi.Time.pin_genTime_source',
    'Pysmi.Time.pin_dummy',
    'Pysmi.Records.C03_arity',
    'Pysmi.Records.C03_record_class',
    'Pysmi.Records.C03_record_fields',
    'Pysmi.Records.C03_clause_values',
    'Pysmi.Records.C03_clause_tags',
    'Pysmi.Names.C03_trans_no_hyphen',
    'Pysmi.Names.C03_trans_idempotent',
    'Pysmi.Names.C03_trans_only_hyphens',
    'Pysmi.Names.C03_trans_injective',
    'Pysmi.Names.C03_trans_collision_witness',
    'Pysmi.Names.C03_keys_nodup',
]
TECHNIQUE = ('Lean 4 invariant proof that the emission order of the symbol pass is a duplicate-free permutation of the declared names; '
             'theorems about a model of genTime (CPython strptime regular expression with backtracking, calendar check, glibc %Y) for every date; '
             'correspondence of the registration model against the real SymtableCodeGen and of Model.Time.genTime against the real genTime '
             'on well-formed, boundary and malformed stamps; JSON documents of generated modules checked '
             'against the generator\'s declarations (keys, class, node type, status, access, units, revisions); theorems about the renaming transOpers (Names.trans: hyphens only, injective on names without underscores), compared with the implementation on drawn names; directed modules with hyphenated names of every kind and with declarations that repeat imported symbols')
LEVEL_TEXT = ('Proved in Lean for any number and mix of declarations: when the symbol pass succeeds the list from which the JSON (and '
              'pysnmp) document is emitted is a duplicate-free permutation of the declared (renamed) symbol names - nothing dropped, nothing '
              'duplicated; the emission loop stores each record under its own name; the renaming itself (transOpers, compared on drawn names) touches hyphens only, position by position, and keeps names without an underscore apart (C03_trans_only_hyphens, C03_trans_injective, C03_keys_nodup; with underscores a-b and a_b share a key: C03_trans_collision_witness). Revision data: for every existing date and time of day a '
              'well-formed YYYYMMDDHHMMZ stamp is rendered as that date, the short form YYMMDDHHMMZ as 19YY (C03_revision_long/short), and every '
              'other text gives the dummy date or the rendering of an existing date (C03_revision_total); ASCII stamps (CPython\'s \\d also '
              'accepts other Unicode digits: not modelled). Per-kind attribute copying: decided by the kernel over tables regenerated from the Python AST of the parser actions and the '
              'generator\'s handlers - for every declaration kind, class is the constant of the kind and status, access, units, description, '
              'reference, name, OID value, object lists, revisions are computed from the name unpacked at the position where the parser put the '
              'clause of that meaning, whose tag is handled by a handler returning its argument unchanged or through the text filter '
              '(C03_record_class/fields/clause_values/clause_tags); Python\'s tuple unpacking and dict assignment themselves, nodetype and JSON syntax (json.dumps) are not modelled: they are checked by the oracle on every generated '
              'module, including texts with backslashes, apostrophes, non-ASCII and long words. Symbols named meta/imports collide with the '
              'document sections (recorded finding).')
LEVEL_NOTE = c01.LEVEL_NOTE
ASSUMPTIONS = ['no declared symbol is named "meta" or "imports" (recorded finding F13)']

CLASS = {'valueDecl': 'objectidentity', 'moduleIdentity': 'moduleidentity', 'objectIdentity': 'objectidentity',
         'objectType': 'objecttype', 'notificationType': 'notificationtype', 'objectGroup': 'objectgroup',
         'notificationGroup': 'notificationgroup', 'moduleCompliance': 'modulecompliance', 'typeDecl': 'type',
         'textualConvention': 'textualconvention'}


def check_set(ctx, obs):
    res = ctx.res
    g = obs['gen']
    inp = {'seed': obs['seed'], 'texts': obs['texts'], 'run_set': obs.get('run_set')}
    for mn, m in g.modules.items():
        doc = obs['json'].get(mn)
        if doc is None:
            continue
        if '__invalid_json__' in doc:
            res.oracle_failures.append({'key': 'valid-json', 'what': '%s: JSON backend output is not valid JSON: %s' % (mn, doc['__invalid_json__']),
                                        'input': inp})
            continue
        want = {mibgen.jname(d['name']): d for d in m['decls'] if d['kind'] != 'sequenceDecl'}
        keys = set(doc) - {'imports', 'meta'}
        for k in sorted(set(want) - keys):
            res.oracle_failures.append({'key': 'dropped', 'what': '%s: declared symbol %s missing from the JSON document' % (mn, k), 'input': inp})
        for k in sorted(keys - set(want)):
            res.oracle_failures.append({'key': 'extra', 'what': '%s: JSON document has an entry %s for no declared symbol' % (mn, k), 'input': inp})
        if 'imports' not in doc or 'meta' not in doc:
            res.oracle_failures.append({'key': 'sections', 'what': '%s: imports/meta section missing' % mn, 'input': inp})
        for k, d in want.items():
            rec = doc.get(k)
            if rec is None:
                continue
            if rec.get('name') != k:
                res.oracle_failures.append({'key': 'own-record', 'what': '%s: entry %s carries the record of %r' % (mn, k, rec.get('name')), 'input': inp})
            if rec.get('class') != CLASS[d['kind']]:
                res.oracle_failures.append({'key': 'class', 'what': '%s::%s has class %r, declared as %s' % (mn, k, rec.get('class'), d['kind']), 'input': inp})
            t = g.truth[(mn, d['name'])]
            if d['kind'] == 'objectType':
                if rec.get('nodetype') != t['nodetype']:
                    res.oracle_failures.append({'key': 'nodetype', 'what': '%s::%s nodetype %r, expected %s' % (mn, k, rec.get('nodetype'), t['nodetype']), 'input': inp})
                if rec.get('maxaccess') != d['access']:
                    res.oracle_failures.append({'key': 'access', 'what': '%s::%s maxaccess %r, declared %s' % (mn, k, rec.get('maxaccess'), d['access']), 'input': inp})
                if (rec.get('units') or None) != (d['units'] and ' '.join(d['units'].split()) or None):
                    res.oracle_failures.append({'key': 'units', 'what': '%s::%s units %r, declared %r' % (mn, k, rec.get('units'), d['units']), 'input': inp})
            if 'status' in d and d['kind'] not in ('typeDecl',) and rec.get('status') != d['status']:
                res.oracle_failures.append({'key': 'status', 'what': '%s::%s status %r, declared %s' % (mn, k, rec.get('status'), d['status']), 'input': inp})
            if d['kind'] == 'moduleIdentity':
                got = [r.get('revision') for r in rec.get('revisions', [])]
                full = [(len(x[0]) == 11 and '19' or '') + x[0] for x in d['revisions']]     # short form: year 19YY
                wantr = []
                for x in full:
                    try:
                        __import__('datetime').datetime(int(x[0:4]), int(x[4:6]), int(x[6:8]), int(x[8:10]), int(x[10:12]))
                        wantr.append('%s-%s-%s %s:%s' % (x[0:4], x[4:6], x[6:8], x[8:10], x[10:12]))
                    except ValueError:
                        wantr.append('1970-01-01 00:00')             # a stamp that names no date: the documented dummy
                if got != wantr:
                    res.oracle_failures.append({'key': 'revisions', 'what': '%s::%s revisions %r, declared %r' % (mn, k, got, wantr), 'input': inp})


def gen_stamp(rng):
    """REVISION / LAST-UPDATED arguments: well-formed long and short stamps, calendar boundaries, and malformed ones
    (wrong length, out-of-range fields, blanks, stray characters) - ASCII only, see Model/Time.lean"""
    r = rng.random()
    y = rng.choice([rng.randint(0, 9999), rng.randint(1900, 2100), rng.choice([0, 1, 999, 1000, 1900, 1999, 2000, 2004, 2100, 9999])])
    mo = rng.choice([rng.randint(1, 12), rng.randint(0, 13), 2])
    d = rng.choice([rng.randint(1, 28), rng.randint(28, 32), rng.randint(0, 32)])
    h = rng.choice([rng.randint(0, 23), rng.randint(0, 25)])
    mi = rng.choice([rng.randint(0, 59), rng.randint(0, 61)])
    if r < 0.35:
        return '%04d%02d%02d%02d%02dZ' % (y, mo, d, h, mi)
    if r < 0.6:
        return '%02d%02d%02d%02d%02dZ' % (y % 100, mo, d, h, mi)
    if r < 0.75:                                                   # single-digit fields: the regular expression backtracks
        parts = ['%04d' % y] + [rng.choice(['%d', '%02d', '%2d']) % v for v in (mo, d, h, mi)]
        return ''.join(parts) + rng.choice(['Z', 'z', 'Z', ''])
    if r < 0.9:
        base = list('%04d%02d%02d%02d%02dZ' % (y, mo, d, h, mi))
        for _ in range(rng.randint(1, 3)):
            k = rng.randrange(len(base) + 1)
            op = rng.random()
            if op < 0.4 and base:
                del base[min(k, len(base) - 1)]
            elif op < 0.8:
                base.insert(k, rng.choice('0123456789 Zz-:T+x'))
            elif base:
                base[min(k, len(base) - 1)] = rng.choice('0123456789 Zz-:')
        return ''.join(base)
    return ''.join(rng.choice('0123456789 Zz') for _ in range(rng.randint(0, 15)))


def time_stream(ctx):
    """genTime of the real code generator against Model.Time.genTime, and the RFC 2578 reading of well-formed stamps"""
    import random
    import re
    res = ctx.res
    from pysmi.codegen.jsondoc import JsonCodeGen
    cgen = JsonCodeGen()
    rng = random.Random(ctx.seed * 7919 + 3)
    n = 3000 if ctx.tier == 'quick' else 60000
    reqs, metas = [], []
    seen = set()
    for _ in range(n):
        st = gen_stamp(rng)
        if st in seen:
            continue
        seen.add(st)
        try:
            got = cgen.genTime([st])
        except Exception as e:
            res.oracle_failures.append({'key': 'revision-raises', 'what': 'genTime(%r) raised %s' % (st, type(e).__name__), 'input': {'stamp': st}})
            continue
        res.case(('stamp', st), True)
        if not (isinstance(got, list) and len(got) == 1):
            res.oracle_failures.append({'key': 'revision-shape', 'what': 'genTime([%r]) returned %r' % (st, got), 'input': {'stamp': st}})
            continue
        got = got[0]
        reqs.append({'op': 'text', 'fn': 'genTime', 's': [ord(c) for c in st]})
        metas.append((st, got))
        m = re.fullmatch(r'(\d\d|\d\d\d\d)(\d\d)(\d\d)(\d\d)(\d\d)Z', st)
        if m:
            yy, mo, d, h, mi = (int(x) for x in m.groups())
            year = yy + 1900 if len(m.group(1)) == 2 else yy
            leap = year % 4 == 0 and (year % 100 != 0 or year % 400 == 0)
            dim = [31, 29 if leap else 28, 31, 30, 31, 30, 31, 31, 30, 31, 30, 31]
            if year >= 1000 and 1 <= mo <= 12 and 1 <= d <= dim[mo - 1] and h < 24 and mi < 60:
                res.count('stamp:well-formed-' + ('short' if len(m.group(1)) == 2 else 'long'))
                want = '%04d-%02d-%02d %02d:%02d' % (year, mo, d, h, mi)
                if got != want:
                    res.oracle_failures.append({'key': 'revision-date', 'what': 'stamp %r comes out as %r, it denotes %r' % (st, got, want),
                                                'input': {'stamp': st, 'want': want}})
            else:
                res.count('stamp:out-of-range')
        else:
            res.count('stamp:malformed')
    if ctx.model is not None and reqs:
        for (st, got), out in zip(metas, ctx.model.batch(reqs)):
            res.count('model:genTime')
            if isinstance(out, dict):
                res.corr_failures.append({'what': 'driver error %r' % (out,), 'input': st})
            elif ''.join(map(chr, out)) != got:
                res.corr_failures.append({'what': 'Model.Time.genTime differs from IntermediateCodeGen.genTime', 'input': st, 'impl': got,
                                          'model': ''.join(map(chr, out))})


TEMPLATE_MIB = ('ACME-TPL-MIB DEFINITIONS ::= BEGIN IMPORTS OBJECT-TYPE, Integer32, enterprises FROM SNMPv2-SMI;\n'
                'acmeTplObj OBJECT-TYPE SYNTAX Integer32 (0..7) UNITS "u" MAX-ACCESS read-only STATUS current DESCRIPTION "d" ::= { enterprises 87 }\nEND\n')


def custom_template(backend):
    """the document rendered through a user-supplied template (a copy of the stock one, elsewhere on disk) is the stock
    document; returns a description of what went wrong, or None"""
    import os
    import shutil
    from common import REPO, scratch_dir
    from impl import pipeline
    stock = {'json': os.path.join('jsondoc', 'base.j2'), 'pysnmp': os.path.join('pysnmp', 'mib-definitions.j2')}[backend]
    d = scratch_dir()
    try:
        # a bare file name in a directory of its own: the form both generators document
        shutil.copy(os.path.join(REPO, 'pysmi', 'codegen', 'templates', stock), os.path.join(d, 'custom.j2'))
        cwd = os.getcwd()
        try:
            os.chdir(d)
            try:
                st1, out1, _ = pipeline.compile_set({'ACME-TPL-MIB': TEMPLATE_MIB}, backend=backend, genTexts=True)
                st2, out2, _ = pipeline.compile_set({'ACME-TPL-MIB': TEMPLATE_MIB}, backend=backend, genTexts=True, dstTemplate='custom.j2')
            except BaseException as e:
                return 'compile() with dstTemplate raised %s: %s' % (type(e).__name__, e)
        finally:
            os.chdir(cwd)
        if str(st2.get('ACME-TPL-MIB')) != 'compiled':
            return 'with dstTemplate the module is %s (%s)' % (st2.get('ACME-TPL-MIB'), getattr(st2.get('ACME-TPL-MIB'), 'error', None))

        a, b = out1['ACME-TPL-MIB'], out2['ACME-TPL-MIB']
        if backend == 'json':
            import json
            a, b = dict(json.loads(a), meta=0), dict(json.loads(b), meta=0)
        else:
            # (the header docstring carries the time of day)
            a, b = [[l for l in t.split('\n') if not l.startswith('#') and not l.startswith('Produced by ')] for t in (a, b)]
        if a != b:
            return 'the document rendered through a copy of the stock template differs from the stock document'
        return None
    finally:
        shutil.rmtree(d, ignore_errors=True)


HYPHEN_MIB = """HYPHEN-%(n)d-MIB DEFINITIONS ::= BEGIN
IMPORTS OBJECT-TYPE, enterprises FROM SNMPv2-SMI TEXTUAL-CONVENTION FROM SNMPv2-TC;
%(ty)s ::= INTEGER (0..5)
%(tc)s ::= TEXTUAL-CONVENTION STATUS current DESCRIPTION "d" SYNTAX OCTET STRING (SIZE (0..7))
%(o1)s OBJECT-TYPE SYNTAX %(ty)s MAX-ACCESS read-only STATUS current DESCRIPTION "d" ::= { enterprises %(a)d 1 }
%(o2)s OBJECT-TYPE SYNTAX %(tc)s MAX-ACCESS read-only STATUS current DESCRIPTION "d" ::= { enterprises %(a)d 2 }
%(node)s OBJECT IDENTIFIER ::= { enterprises %(a)d 3 }
END
"""


def hyphen_names(rng):
    def word(first):
        w = first + ''.join(rng.choice('abcxyz019') for _ in range(rng.randint(1, 4)))
        for _ in range(rng.randint(0, 2)):
            w += '-' + ''.join(rng.choice('abcxyz019') for _ in range(rng.randint(1, 3)))
        return w
    return {'ty': word(rng.choice('TUV')), 'tc': word(rng.choice('WXY')), 'o1': word('p'), 'o2': word('q'), 'node': word('n')}


def hyphen_failures(names, n=1, a=77):
    """every entry of the JSON document is keyed by the symbol's name with '-' as '_', carries that same name inside, and references to
    types use it too - alike for all kinds of symbols (the names are given: replayable)"""
    from impl import pipeline
    import json
    text = HYPHEN_MIB % dict(names, n=n, a=a)
    mn = 'HYPHEN-%d-MIB' % n
    st, out, _ = pipeline.compile_set({mn: text}, backend='json')
    if str(st.get(mn)) != 'compiled':
        return ['%s: %s (%s)' % (mn, st.get(mn), getattr(st.get(mn), 'error', None))]
    doc = json.loads(out[mn])
    bad = []
    j = {k: v.replace('-', '_') for k, v in names.items()}
    for k, v in j.items():
        rec = doc.get(v)
        if rec is None:
            bad.append('%s: no entry %s for %s' % (mn, v, names[k]))
        elif rec.get('name') != v:
            bad.append('%s: entry %s carries the name %r' % (mn, v, rec.get('name')))
    for o, t in (('o1', 'ty'), ('o2', 'tc')):
        got = ((doc.get(j[o]) or {}).get('syntax') or {}).get('type')
        if got != j[t]:
            bad.append('%s: %s refers to its type as %r, the entry is %s' % (mn, j[o], got, j[t]))
    return bad


REPEAT_MIB = """REPEAT-%(n)d-MIB DEFINITIONS ::= BEGIN
IMPORTS OBJECT-TYPE, Integer32, private, enterprises%(more)s FROM SNMPv2-SMI DisplayString FROM SNMPv2-TC;
%(decls)srepObj OBJECT-TYPE SYNTAX DisplayString MAX-ACCESS read-only STATUS current DESCRIPTION "d" ::= { enterprises %(a)d 1 }
repNode OBJECT IDENTIFIER ::= { enterprises %(a)d 2 }
END
"""
REPEATS = {'enterprises': ('enterprises OBJECT IDENTIFIER ::= { private 1 }\n', 'objectidentity'),
           'DisplayString': ('DisplayString ::= OCTET STRING (SIZE (0..255))\n', 'type'),
           'mgmt': ('mgmt OBJECT IDENTIFIER ::= { internet 2 }\n', 'objectidentity'),
           'internet': ('internet OBJECT IDENTIFIER ::= { iso 3 6 1 }\n', 'objectidentity')}


def repeat_failures(picked, n=1):
    """a module that repeats the definition of symbols it also imports (enterprise MIBs that grew out of SMIv1 do): the
    declarations are declarations - each has its entry, with the class of its kind"""
    from impl import pipeline
    import json
    more = ''.join(', ' + x for x in ('internet', 'mgmt') if x in picked or (x == 'internet' and 'mgmt' in picked))
    text = REPEAT_MIB % {'n': n, 'a': 900 + n, 'more': more, 'decls': ''.join(REPEATS[x][0] for x in picked)}
    mn = 'REPEAT-%d-MIB' % n
    st, out, _ = pipeline.compile_set({mn: text}, backend='json')
    if str(st.get(mn)) != 'compiled':
        return ['%s: %s (%s)' % (mn, st.get(mn), getattr(st.get(mn), 'error', None))]
    doc = json.loads(out[mn])
    bad = []
    for x in list(picked) + ['repObj', 'repNode']:
        rec = doc.get(x)
        want = REPEATS[x][1] if x in REPEATS else {'repObj': 'objecttype', 'repNode': 'objectidentity'}[x]
        if rec is None:
            bad.append('%s: declared symbol %s (also imported) has no entry' % (mn, x))
        elif rec.get('class') != want or rec.get('name') != x:
            bad.append('%s: entry %s is %r / %r' % (mn, x, rec.get('name'), rec.get('class')))
    return bad


def names_stream(ctx):
    """IntermediateCodeGen.transOpers on drawn names (letters, digits, hyphens, now and then an underscore) vs Names.trans"""
    from pysmi.codegen.intermediate import IntermediateCodeGen
    res = ctx.res
    rng = __import__('random').Random(ctx.seed * 77 + 3)
    names = ['a-b', 'a_b', 'x', '-', '--', '', 'My-Type-2']
    for _ in range(200 if ctx.tier == 'quick' else 5000):
        names.append(''.join(rng.choice('abzAZ09--_' if rng.random() < 0.2 else 'abcxyzABZ0189---') for _ in range(rng.randint(1, 12))))
    got = [IntermediateCodeGen.transOpers(n) for n in names]
    for n, g in zip(names, got):
        res.case(('trans', n), '-' in n)
        res.count('trans-names')
        if '-' in g or len(g) != len(n) or any(a != b and not (a == '-' and b == '_') for a, b in zip(n, g)):
            res.oracle_failures.append({'key': 'renamed', 'what': 'transOpers(%r) = %r: more than hyphens to underscores' % (n, g), 'input': {'trans_name': n}})
    if ctx.model is not None:
        out = ctx.model.batch([{'op': 'trans', 'names': names}])[0]
        for n, g, m in zip(names, got, out.get('keys', [])):
            if g != m:
                res.corr_failures.append({'what': 'transOpers differs from Names.trans', 'name': n, 'impl': g, 'model': m})
        if len(out.get('keys', [])) != len(names):
            res.corr_failures.append({'what': 'trans op returned %d keys for %d names' % (len(out.get('keys', [])), len(names))})


def run(ctx):
    res = ctx.res
    names_stream(ctx)
    for i, picked in enumerate((['enterprises'], ['DisplayString'], ['enterprises', 'DisplayString'], ['mgmt'], ['internet', 'mgmt', 'enterprises'], [])):
        res.case(('repeats-import', tuple(picked)), bool(picked))
        res.count('repeats-import')
        bad = repeat_failures(picked, n=i)
        if bad:
            res.oracle_failures.append({'key': 'dropped', 'what': bad[0], 'input': {'repeat_imports': picked, 'n': i}})
    hrng = __import__('random').Random(ctx.seed * 31 + 5)
    for i in range(12 if ctx.tier == 'quick' else 200):
        names = hyphen_names(hrng)
        if len(set(v.replace('-', '_') for v in names.values())) < len(names):
            continue
        res.case(('hyphen-names', tuple(sorted(names.items()))), True)
        res.count('hyphen-names')
        bad = hyphen_failures(names, n=i)
        if bad:
            res.oracle_failures.append({'key': 'own-record', 'what': bad[0], 'input': {'hyphen_names': names, 'n': i}})
    res.rule = ('module sets from the shared generator (all ten symbol-producing declaration kinds, any mix, shuffled order, with and '
                'without texts, nasty texts: backslash sequences, apostrophes, non-ASCII, 130-character words); JSON backend only; '
                'non-trivial = at least 3 declarations; distinct by generated text')
    for be in ('json', 'pysnmp'):
        res.case(('custom-template', be), True)
        res.count('custom-template')
        bad = custom_template(be)
        if bad:
            res.oracle_failures.append({'key': 'custom-template', 'what': '%s backend: %s' % (be, bad), 'input': {'custom_template': be}})
    n = 120 if ctx.tier == 'quick' else 2000
    reqs, metas = [], []
    base = ctx.seed * 100000 + 50000
    for i in range(n):
        obs = cg.run_set(base + i, wild=(i % 3 == 0), gen_texts=(i % 4 != 0), backends=('json',), nasty=(i % 2 == 0))
        nd = sum(len(m['decls']) for m in obs['gen'].modules.values())
        res.case(tuple(sorted(obs['texts'].items())), nd >= 3)
        res.count('declarations', nd)
        for m in obs['gen'].modules.values():
            for d in m['decls']:
                res.count('kind:' + d['kind'])
        check_set(ctx, obs)
        for entry in obs['symlog']:
            if entry.get('result') and not str(entry['result'].get('error', '')).startswith('other'):
                req, names = cg.symreg_request(entry)
                reqs.append(req)
                metas.append(('symreg', entry, names))
    c01.compare(ctx, reqs, metas)
    time_stream(ctx)
    res.sample({'module_text': list(obs['texts'].values())[0][:1200], 'json_keys': sorted(list(obs['json'].values())[0]) if obs['json'] else None})


def search(ctx):
    ctx.tier = 'thorough'
    run(ctx)


def replay(payload):
    if 'custom_template' in payload['input']:
        bad = custom_template(payload['input']['custom_template'])
        return {'fails': bool(bad), 'what': bad}
    if 'repeat_imports' in payload['input']:
        bad = repeat_failures(payload['input']['repeat_imports'], n=payload['input'].get('n', 1))
        return {'fails': bool(bad), 'what': bad}
    if 'trans_name' in payload['input']:
        from pysmi.codegen.intermediate import IntermediateCodeGen
        n = payload['input']['trans_name']
        g = IntermediateCodeGen.transOpers(n)
        return {'fails': g != n.replace('-', '_'), 'what': g}
    if 'hyphen_names' in payload['input']:
        bad = hyphen_failures(payload['input']['hyphen_names'], n=payload['input'].get('n', 1))
        return {'fails': bool(bad), 'what': bad}
    if 'stamp' in payload['input']:
        from pysmi.codegen.jsondoc import JsonCodeGen
        try:
            got = JsonCodeGen().genTime([payload['input']['stamp']])
        except Exception as e:
            return {'fails': True, 'what': repr(e)}
        return {'fails': 'want' in payload['input'] and got != [payload['input']['want']], 'impl': got}
    if payload['input'].get('run_set'):
        return cg.replay_regenerated('C03', payload['input'], check_set, payload.get('key'))

    class C:
        pass
    import common
    from impl import pipeline
    import json
    texts = payload['input']['texts']
    r, out, _ = pipeline.compile_set(texts, genTexts=True)
    bad = []
    for k, v in out.items():
        try:
            json.loads(v)
        except Exception as e:
            bad.append('%s: invalid JSON %s' % (k, e))
    for k in texts:
        if str(r.get(k)) != 'compiled':
            bad.append('%s: %s' % (k, r.get(k)))
    want = payload['input'].get('expect_keys')
    if want:
        for mod, keys in want.items():
            doc = json.loads(out[mod]) if mod in out else {}
            for key in keys:
                if key not in doc:
                    bad.append('%s: %s missing' % (mod, key))
    for mod, kc in (payload['input'].get('expect_class') or {}).items():
        doc = json.loads(out[mod]) if mod in out else {}
        for key, cls in kc.items():
            if not isinstance(doc.get(key), dict) or doc[key].get('class') != cls:
                bad.append('%s: entry %s is not the %s record of the declared symbol' % (mod, key, cls))
    return {'fails': bool(bad), 'what': bad}
