"""C03 — JSON output is well formed and holds exactly the declared symbols."""
from gen import mibgen
from props import codegen_common as cg
from props import c01

LEVEL = 'proof'
MODULES = ['Pysmi.Props.C03']
LAKE_TARGETS = ['Pysmi.Props.C03']
THEOREMS = [
    'Pysmi.Symtab.C03_order_is_perm',
    'Pysmi.Symtab.inv_regDecl',
    'Pysmi.Symtab.fixpoint_stable',
    'Pysmi.Symtab.C01_success_characterised',
]
TECHNIQUE = ('Lean 4 invariant proof that the emission order of the symbol pass is a duplicate-free permutation of the declared names; '
             'correspondence of the registration model against the real SymtableCodeGen; JSON documents of generated modules checked '
             'against the generator\'s declarations (keys, class, node type, status, access, units, revisions)')
LEVEL_TEXT = ('Proved in Lean for any number and mix of declarations: when the symbol pass succeeds the list from which the JSON (and '
              'pysnmp) document is emitted is a duplicate-free permutation of the declared (renamed) symbol names - nothing dropped, nothing '
              'duplicated; the emission loop stores each record under its own name. Per-kind attribute copying (class, nodetype, status, '
              'access, units, revisions) and JSON syntax (json.dumps) are not modelled: they are checked by the oracle on every generated '
              'module, including texts with backslashes, apostrophes, non-ASCII and long words. Symbols named meta/imports collide with the '
              'document sections (recorded finding).')
LEVEL_NOTE = c01.LEVEL_NOTE
ASSUMPTIONS = ['no declared symbol is named "meta" or "imports" (recorded finding F13)']

CLASS = {'valueDecl': 'objectidentity', 'moduleIdentity': 'moduleidentity', 'objectIdentity': 'objectidentity',
         'objectType': 'objecttype', 'notificationType': 'notificationtype', 'objectGroup': 'objectgroup',
         'notificationGroup': 'notificationgroup', 'moduleCompliance': 'modulecompliance', 'typeDecl': 'type',
         'textualConvention': 'textualconvention'}


def check_set(ctx, obs):
    res = ctx.res
    g = obs['gen']
    inp = {'seed': obs['seed'], 'texts': obs['texts']}
    for mn, m in g.modules.items():
        doc = obs['json'].get(mn)
        if doc is None:
            continue
        if '__invalid_json__' in doc:
            res.oracle_failures.append({'key': 'valid-json', 'what': '%s: JSON backend output is not valid JSON: %s' % (mn, doc['__invalid_json__']),
                                        'input': inp})
            continue
        want = {mibgen.jname(d['name']): d for d in m['decls'] if d['kind'] != 'sequenceDecl'}
        keys = set(doc) - {'imports', 'meta'}
        for k in sorted(set(want) - keys):
            res.oracle_failures.append({'key': 'dropped', 'what': '%s: declared symbol %s missing from the JSON document' % (mn, k), 'input': inp})
        for k in sorted(keys - set(want)):
            res.oracle_failures.append({'key': 'extra', 'what': '%s: JSON document has an entry %s for no declared symbol' % (mn, k), 'input': inp})
        if 'imports' not in doc or 'meta' not in doc:
            res.oracle_failures.append({'key': 'sections', 'what': '%s: imports/meta section missing' % mn, 'input': inp})
        for k, d in want.items():
            rec = doc.get(k)
            if rec is None:
                continue
            if rec.get('name') != k:
                res.oracle_failures.append({'key': 'own-record', 'what': '%s: entry %s carries the record of %r' % (mn, k, rec.get('name')), 'input': inp})
            if rec.get('class') != CLASS[d['kind']]:
                res.oracle_failures.append({'key': 'class', 'what': '%s::%s has class %r, declared as %s' % (mn, k, rec.get('class'), d['kind']), 'input': inp})
            t = g.truth[(mn, d['name'])]
            if d['kind'] == 'objectType':
                if rec.get('nodetype') != t['nodetype']:
                    res.oracle_failures.append({'key': 'nodetype', 'what': '%s::%s nodetype %r, expected %s' % (mn, k, rec.get('nodetype'), t['nodetype']), 'input': inp})
                if rec.get('maxaccess') != d['access']:
                    res.oracle_failures.append({'key': 'access', 'what': '%s::%s maxaccess %r, declared %s' % (mn, k, rec.get('maxaccess'), d['access']), 'input': inp})
                if (rec.get('units') or None) != (d['units'] and ' '.join(d['units'].split()) or None):
                    res.oracle_failures.append({'key': 'units', 'what': '%s::%s units %r, declared %r' % (mn, k, rec.get('units'), d['units']), 'input': inp})
            if 'status' in d and d['kind'] not in ('typeDecl',) and rec.get('status') != d['status']:
                res.oracle_failures.append({'key': 'status', 'what': '%s::%s status %r, declared %s' % (mn, k, rec.get('status'), d['status']), 'input': inp})
            if d['kind'] == 'moduleIdentity':
                got = [r.get('revision') for r in rec.get('revisions', [])]
                wantr = ['%s-%s-%s %s:%s' % (x[0][0:4], x[0][4:6], x[0][6:8], x[0][8:10], x[0][10:12]) for x in d['revisions']]
                if got != wantr:
                    res.oracle_failures.append({'key': 'revisions', 'what': '%s::%s revisions %r, declared %r' % (mn, k, got, wantr), 'input': inp})


def run(ctx):
    res = ctx.res
    res.rule = ('module sets from the shared generator (all ten symbol-producing declaration kinds, any mix, shuffled order, with and '
                'without texts, nasty texts: backslash sequences, apostrophes, non-ASCII, 130-character words); JSON backend only; '
                'non-trivial = at least 3 declarations; distinct by generated text')
    n = 120 if ctx.tier == 'quick' else 2000
    reqs, metas = [], []
    base = ctx.seed * 100000 + 50000
    for i in range(n):
        obs = cg.run_set(base + i, wild=(i % 3 == 0), gen_texts=(i % 4 != 0), backends=('json',), nasty=(i % 2 == 0))
        nd = sum(len(m['decls']) for m in obs['gen'].modules.values())
        res.case(tuple(sorted(obs['texts'].items())), nd >= 3)
        res.count('declarations', nd)
        for m in obs['gen'].modules.values():
            for d in m['decls']:
                res.count('kind:' + d['kind'])
        check_set(ctx, obs)
        for entry in obs['symlog']:
            if entry.get('result') and not str(entry['result'].get('error', '')).startswith('other'):
                req, names = cg.symreg_request(entry)
                reqs.append(req)
                metas.append(('symreg', entry, names))
    c01.compare(ctx, reqs, metas)
    res.sample({'module_text': list(obs['texts'].values())[0][:1200], 'json_keys': sorted(list(obs['json'].values())[0]) if obs['json'] else None})


def search(ctx):
    ctx.tier = 'thorough'
    run(ctx)


def replay(payload):
    class C:
        pass
    import common
    from impl import pipeline
    import json
    texts = payload['input']['texts']
    r, out, _ = pipeline.compile_set(texts, genTexts=True)
    bad = []
    for k, v in out.items():
        try:
            json.loads(v)
        except Exception as e:
            bad.append('%s: invalid JSON %s' % (k, e))
    for k in texts:
        if str(r.get(k)) != 'compiled':
            bad.append('%s: %s' % (k, r.get(k)))
    want = payload['input'].get('expect_keys')
    if want:
        for mod, keys in want.items():
            doc = json.loads(out[mod]) if mod in out else {}
            for key in keys:
                if key not in doc:
                    bad.append('%s: %s missing' % (mod, key))
    for mod, kc in (payload['input'].get('expect_class') or {}).items():
        doc = json.loads(out[mod]) if mod in out else {}
        for key, cls in kc.items():
            if not isinstance(doc.get(key), dict) or doc[key].get('class') != cls:
                bad.append('%s: entry %s is not the %s record of the declared symbol' % (mod, key, cls))
    return {'fails': bool(bad), 'what': bad}
