"""C10 — up-to-date modules are not regenerated; rebuild, noDeps, stubs (decided on the Model/Compile.lean model of MibCompiler.compile)."""
from props import compile_common as cc

LEVEL = 'proof'
MODULES = ['Pysmi.Props.C10', 'Pysmi.Props.C10Searcher', 'Pysmi.Pins.Compile', 'Pysmi.Pins.SkelC10', 'Pysmi.Props.C10Run']
LAKE_TARGETS = ['Pysmi.Props.C10', 'Pysmi.Props.C10Searcher', 'Pysmi.Pins.Compile', 'Pysmi.Pins.SkelC10', 'Pysmi.Props.C10Run']
THEOREMS = [
    'Pysmi.Compile.C10_fresh_untouched',
    'Pysmi.Compile.settled_phaseNeed',
    'Pysmi.Compile.di_discover',
    'Pysmi.Pins.SkelC10.pin_anyFileSearcher',
    'Pysmi.Pins.SkelC10.pin_pyFileSearcher',
    'Pysmi.Pins.SkelC10.pin_stubSearcher',
    'Pysmi.Pins.Compile.pin_statuses',
    'Pysmi.Pins.Compile.pin_skeleton',
    'Pysmi.Compile.C10_searchLoop_fresh',
    'Pysmi.Compile.C10_searchLoop_calls',
    'Pysmi.Compile.C10_needStep',
    'Pysmi.Compile.C10_gen_calls',
    'Pysmi.Searcher.C10_anyfile_exact',
    'Pysmi.Searcher.C10_pyfile_exact',
    'Pysmi.Searcher.C10_pyfile_exact_partial',
    'Pysmi.Searcher.C10_rebuild_files',
    'Pysmi.Searcher.C10_stub',
    'Pysmi.Searcher.C10_pyfile_pyc',
    'Pysmi.Searcher.C10_stale_pyc_passed_over',
]
TECHNIQUE = 'Lean 4 theorems about a model of MibCompiler.compile over abstract component oracles; differential correspondence (status map + full call trace) against the real compile() driven by scripted doubles; oracle search'
LEVEL_TEXT = ("Compile level, proved in Lean for every searcher list and answer assignment: searchers asked in order up to and including the first fresh answer (every other answer moves on); a parsed module is untouched and removed from generation iff some searcher says fresh or noDeps excludes it; the generator is called exactly once per remaining module. Run level (C10_fresh_untouched): a parsed module with no failure recorded against its name that some searcher reports up to date ends untouched and is never handed to the writer, whatever every other module, answer and option. The file searchers' own decision is modelled (Model/Searcher.lean) and proved exact for every directory content, extension list, mtime and rebuild setting (AnyFileSearcher and, since the byte-code loop was repaired, PyFileSearcher fully - C10_pyfile_exact: up to date exactly when some byte-code file carries a timestamp not older than the MIB or some source file is not older; a stale .pyc no longer hides a fresh .py; the flags-word defect F18 is repaired); stub lists are not overridden by rebuild. Tied to the real searchers on scratch directories (all mtime orderings around equality, same-named directories, other extensions, bad / good / hash-based / cut-off .pyc headers, one searcher instance reused while the directory changes).")
LEVEL_NOTE = ('Trusted: Lean kernel + standard axioms; the hand-written model of compile() (Model/Compile.lean), tied to '
              '/repo by the correspondence on every run; component doubles stand for readers/parser/generators/searchers/'
              'borrowers/writer (their real behaviour is the subject of other properties).')
ASSUMPTIONS = [
    'components signal failure only through the package error type (anything else propagates in code and is outside the property)',
    'component answers are functions of their arguments (scripted doubles)',
]


SRC = 1000000000


def set_entry(d, name, ent, magic):
    import os
    import shutil
    import struct
    p = os.path.join(d, name)
    if os.path.isdir(p):
        shutil.rmtree(p)
    elif os.path.exists(p):
        os.unlink(p)
    if ent == 'absent':
        return
    if ent == 'dir':
        os.makedirs(p)
        return
    _, t, hdr = ent
    with open(p, 'wb') as f:
        if name.endswith('.pyc'):
            # CPython >= 3.7 (PEP 552): magic, flags word, source timestamp, source size
            if hdr is None:
                f.write(b'BAD!' + b'\0' * 12)
            elif hdr == 'hash':
                f.write(magic + struct.pack('<L', 1) + b'\x11' * 8)          # hash-based: no timestamp inside
            elif hdr == 'short':
                f.write(magic + b'\0\0\0')                                  # cut off inside the header
            else:
                f.write(magic + struct.pack('<L', 0) + struct.pack('<L', hdr) + b'\0' * 4)
        else:
            f.write(b'x')
    os.utime(p, (t, t))


def package_searcher_failures():
    """PyPackageSearcher on packages of the shapes Python knows - a regular package, a namespace package (a directory
    without __init__.py: __file__ is None) and a package inside a zip archive on sys.path with a byte-code file carrying a
    PEP 552 header: the answer is one of the searcher's answers, never another exception, and a fresh module is fresh"""
    import importlib
    import os
    import shutil
    import struct
    import sys
    import zipfile
    from common import scratch_dir
    from pysmi import error
    from pysmi.searcher.pypackage import PyPackageSearcher
    from pysmi.searcher.pyfile import PY_MAGIC_NUMBER
    base = scratch_dir()
    fails = []
    SRC = 1500000000

    def ask(pkg, name):
        try:
            PyPackageSearcher(pkg).fileExists(name, SRC)
            return 'returns'
        except error.PySmiFileNotModifiedError:
            return 'nm'
        except error.PySmiError:
            return 'nf'
        except BaseException as e:
            return 'raises:' + type(e).__name__
    try:
        reg, ns = os.path.join(base, 'vregpkg'), os.path.join(base, 'vnspkg')
        os.makedirs(reg)
        os.makedirs(ns)
        open(os.path.join(reg, '__init__.py'), 'w').close()
        for d in (reg, ns):
            p = os.path.join(d, 'X-MIB.py')
            open(p, 'w').write('# compiled\n')
            os.utime(p, (SRC + 10, SRC + 10))
        zp = os.path.join(base, 'vzipped.zip')
        with zipfile.ZipFile(zp, 'w') as z:
            z.writestr('vzippkg/__init__.py', '')
            z.writestr(zipfile.ZipInfo('vzippkg/X-MIB.py', (2030, 1, 1, 0, 0, 0)), '# compiled\n')
            z.writestr('vzippkg/X-MIB.pyc', PY_MAGIC_NUMBER + struct.pack('<L', 0) + struct.pack('<L', SRC + 10) + struct.pack('<L', 11) + b'x')
        sys.path[:0] = [base, zp]
        importlib.invalidate_caches()
        try:
            for pkg, want in (('vregpkg', ('nm',)), ('vnspkg', ('nm', 'nf')), ('vzippkg', ('nm',))):
                got = ask(pkg, 'X-MIB')
                if got not in want:
                    fails.append({'key': 'package-searcher', 'what': 'PyPackageSearcher(%s) holding an up-to-date X-MIB answered %s (expected %s)' % (
                        pkg, got, ' or '.join(want)), 'input': {'package_searcher': pkg}})
        finally:
            del sys.path[:2]
            for m in ('vregpkg', 'vnspkg', 'vzippkg'):
                sys.modules.pop(m, None)
    finally:
        shutil.rmtree(base, ignore_errors=True)
    return fails


def real_searchers(ctx):
    """AnyFileSearcher / PyFileSearcher / StubSearcher on scratch directories; one searcher instance per
    directory is reused while the directory changes between queries."""
    import itertools
    import os
    import shutil
    from common import scratch_dir
    from pysmi import error
    from pysmi.searcher.anyfile import AnyFileSearcher
    from pysmi.searcher.pyfile import PyFileSearcher, PY_MAGIC_NUMBER, SOURCE_SUFFIXES, BYTECODE_SUFFIXES
    from pysmi.searcher.stub import StubSearcher
    res, rng = ctx.res, ctx.rng
    reqs, metas = [], []
    times = [SRC - 1, SRC, SRC + 1]
    plain = ['absent', 'dir'] + [['file', t, None] for t in times]
    pyc = ['absent', 'dir', ['file', SRC + 5, None], ['file', SRC + 5, 'hash'], ['file', SRC + 5, 'short']] + \
        [['file', SRC + 5, h] for h in (0, SRC - 1, SRC, SRC + 1)]
    base = scratch_dir()

    def ask(s, name, mtime, rebuild):
        try:
            s.fileExists(name, mtime, rebuild=rebuild)
            return 'ret'
        except error.PySmiFileNotModifiedError:
            return 'nm'
        except error.PySmiFileNotFoundError:
            return 'nf'
        except error.PySmiError as e:
            return 'err:' + type(e).__name__
    try:
        d = os.path.join(base, 'd')
        os.makedirs(d)
        anys = AnyFileSearcher(d).setOptions(exts=['.json', '.txt'])
        pys = PyFileSearcher(d)
        combos_any = list(itertools.product(plain, plain, plain))
        combos_py = list(itertools.product(plain, pyc, ['absent', ['file', SRC + 1, None]]))
        if ctx.tier == 'quick':
            rng.shuffle(combos_any)
            rng.shuffle(combos_py)
            combos_any, combos_py = combos_any[:60], combos_py[:70]
        # start from an empty directory: the first queries see nothing (exposes cached listings)
        for name in ('X-MIB', 'Y-MIB'):
            for rebuild in (False, True):
                got = ask(pys, name, SRC, rebuild)
                reqs.append({'op': 'searcher', 'kind': 'py', 'mtime': SRC, 'rebuild': rebuild, 'entries': [],
                             'bytecode': list(BYTECODE_SUFFIXES), 'source': list(SOURCE_SUFFIXES)})
                metas.append((('py', name, [], rebuild), got, False))
        for combo in combos_any:
            ents = dict(zip(['.json', '.txt', '.py'], combo))
            for sfx, e in ents.items():
                set_entry(d, 'X-MIB' + sfx, e, PY_MAGIC_NUMBER)
            for rebuild in (False, True):
                got = ask(anys, 'X-MIB', SRC, rebuild)
                fresh = any(isinstance(ents[x], list) and ents[x][1] >= SRC for x in ('.json', '.txt'))
                reqs.append({'op': 'searcher', 'kind': 'any', 'mtime': SRC, 'rebuild': rebuild, 'exts': ['.json', '.txt'],
                             'entries': [[k, v] for k, v in ents.items()]})
                metas.append((('any', 'X-MIB', ents, rebuild), got, fresh and not rebuild))
        for sfx in ('.json', '.txt', '.py'):
            set_entry(d, 'X-MIB' + sfx, 'absent', PY_MAGIC_NUMBER)
        for combo in combos_py:
            ents = dict(zip(['.py', '.pyc', '.json'], combo))
            for sfx, e in ents.items():
                set_entry(d, 'X-MIB' + sfx, e, PY_MAGIC_NUMBER)
            for rebuild in (False, True):
                got = ask(pys, 'X-MIB', SRC, rebuild)
                good_pyc = isinstance(ents['.pyc'], list) and isinstance(ents['.pyc'][2], int)
                py_fresh = isinstance(ents['.py'], list) and ents['.py'][1] >= SRC
                # up to date: a byte-code file whose embedded timestamp is not older, or a source file that is not older; a stale
                # byte-code file beside a fresh source file does not make the module stale
                fresh = (good_pyc and ents['.pyc'][2] >= SRC) or py_fresh
                # for the model a byte-code file without a usable timestamp is one without a good header
                ments = {k: ([v[0], v[1], None] if isinstance(v, list) and isinstance(v[2], str) else v) for k, v in ents.items()}
                reqs.append({'op': 'searcher', 'kind': 'py', 'mtime': SRC, 'rebuild': rebuild,
                             'bytecode': list(BYTECODE_SUFFIXES), 'source': list(SOURCE_SUFFIXES),
                             'entries': [[k, v] for k, v in ments.items()]})
                metas.append((('py', 'X-MIB', ents, rebuild), got, None if fresh is None else (fresh and not rebuild)))
        stub = StubSearcher('A-MIB', 'B-MIB')
        for name in ('A-MIB', 'B-MIB', 'C-MIB', 'a-mib'):
            for rebuild in (False, True):
                got = ask(stub, name, SRC, rebuild)
                reqs.append({'op': 'searcher', 'kind': 'stub', 'mtime': SRC, 'rebuild': rebuild, 'entries': [],
                             'names': ['A-MIB', 'B-MIB'], 'name': name})
                metas.append((('stub', name, {}, rebuild), got, name in ('A-MIB', 'B-MIB')))
    finally:
        shutil.rmtree(base, ignore_errors=True)
    res.case(('package-searcher',), True)
    res.count('package-searcher-shapes', 3)
    res.oracle_failures.extend(package_searcher_failures())
    for case, got, fresh in metas:
        res.case(case, True)
        res.count('real-searcher:' + case[0])
        res.count('answer:' + got)
        if fresh is not None and (got == 'nm') != fresh:
            key = 'searcher-exact'
            res.oracle_failures.append({'key': key, 'what': '%s searcher answered %s for %r (up to date: %s, rebuild=%s)' % (
                case[0], got, case[2], fresh, case[3]), 'input': {'searcher': list(case)}})
    if ctx.model is not None:
        for (case, got, _), out in zip(metas, ctx.model.batch(reqs)):
            if out != got:
                res.corr_failures.append({'what': 'searcher answer differs from Model.Searcher', 'case': case,
                                          'impl': got, 'model': out})
    res.sample({'searcher_case': metas[len(metas) // 2][0], 'impl_answer': metas[len(metas) // 2][1]})


def run(ctx):
    real_searchers(ctx)
    n = 1200 if ctx.tier == 'quick' else 12000
    cc.run_stream(ctx, 'C10', n, 300 if ctx.tier == 'quick' else 3000)


def search(ctx):
    cc.run_stream(ctx, 'C10', 6000, 3000)


def replay(payload):
    inp = payload.get('input', {})
    if 'pyc_layout' in inp:
        return replay_pyc(inp['pyc_layout'])
    if 'package_searcher' in inp:
        bad = [f for f in package_searcher_failures() if f['input']['package_searcher'] == inp['package_searcher']]
        return {'fails': bool(bad), 'what': [b['what'] for b in bad]}
    if 'searcher' in inp:
        import common
        class C:
            pass
        ctx = C()
        ctx.res = common.Result('C10', 'thorough', 0)
        ctx.model, ctx.tier = None, 'thorough'
        import random
        ctx.rng = random.Random(0)
        real_searchers(ctx)
        return {'fails': bool(ctx.res.oracle_failures), 'what': [f['what'] for f in ctx.res.oracle_failures[:5]]}
    return cc.replay_scenario('C10', payload)


def replay_pyc(layout):
    """layout: {'.py': mtime offset, '.pyc': offset of the timestamp inside the byte-code file}: an up-to-date .py
    beside the legacy .pyc CPython wrote for it"""
    import os
    import shutil
    from common import scratch_dir
    from pysmi import error
    from pysmi.searcher.pyfile import PyFileSearcher, PY_MAGIC_NUMBER
    d = scratch_dir()
    try:
        set_entry(d, 'X-MIB.py', ['file', SRC + layout['.py'], None], PY_MAGIC_NUMBER)
        set_entry(d, 'X-MIB.pyc', ['file', SRC + 5, SRC + layout['.pyc']], PY_MAGIC_NUMBER)
        try:
            PyFileSearcher(d).fileExists('X-MIB', SRC)
            got = 'ret'
        except error.PySmiFileNotModifiedError:
            got = 'nm'
        except error.PySmiFileNotFoundError:
            got = 'nf'
        return {'fails': got != 'nm', 'what': 'PyFileSearcher answered %s although X-MIB.py is up to date' % got}
    finally:
        shutil.rmtree(d, ignore_errors=True)
