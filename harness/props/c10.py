"""C10 — up-to-date modules are not regenerated; rebuild, noDeps, stubs (decided on the Model/Compile.lean model of MibCompiler.compile)."""
from props import compile_common as cc

LEVEL = 'proof'
MODULES = ['Pysmi.Props.C10']
LAKE_TARGETS = ['Pysmi.Props.C10']
THEOREMS = [
    'Pysmi.Compile.C10_searchLoop_fresh',
    'Pysmi.Compile.C10_searchLoop_calls',
    'Pysmi.Compile.C10_needStep',
    'Pysmi.Compile.C10_gen_calls',
]
TECHNIQUE = 'Lean 4 theorems about a model of MibCompiler.compile over abstract component oracles; differential correspondence (status map + full call trace) against the real compile() driven by scripted doubles; oracle search'
LEVEL_TEXT = ("Compile level, proved in Lean for every searcher list and answer assignment: searchers asked in order up to and including the first fresh answer (every other answer moves on); a parsed module is untouched and removed from generation iff some searcher says fresh or noDeps excludes it; the generator is called exactly once per remaining module. The file searchers' own decision (mtime comparison, extensions, rebuild, stubs) is exercised against the real searchers on scratch directories (exhaustive small layouts) - a Lean model of it is planned (Model/Searcher).")
LEVEL_NOTE = ('Trusted: Lean kernel + standard axioms; the hand-written model of compile() (Model/Compile.lean), tied to '
              '/repo by the correspondence on every run; component doubles stand for readers/parser/generators/searchers/'
              'borrowers/writer (their real behaviour is the subject of other properties).')
ASSUMPTIONS = [
    'components signal failure only through the package error type (anything else propagates in code and is outside the property)',
    'component answers are functions of their arguments (scripted doubles)',
]


def run(ctx):
    n = 1200 if ctx.tier == 'quick' else 12000
    cc.run_stream(ctx, 'C10', n, 300 if ctx.tier == 'quick' else 3000)


def search(ctx):
    cc.run_stream(ctx, 'C10', 6000, 3000)


def replay(payload):
    return cc.replay_scenario('C10', payload)
