"""C06 — references between objects keep their targets, order and module attribution."""
from gen import mibgen
from impl import recbuilder
from props import codegen_common as cg
from props import c01

LEVEL = 'proof'
MODULES = ['Pysmi.Props.C06', 'Pysmi.Props.C06Template', 'Pysmi.Pins.SkelC06']
LAKE_TARGETS = ['Pysmi.Props.C06', 'Pysmi.Props.C06Template', 'Pysmi.Pins.SkelC06']
THEOREMS = ['Pysmi.Pins.SkelC06.pin_genObjects', 'Pysmi.Pins.SkelC06.pin_genTableIndex', 'Pysmi.Pins.SkelC06.pin_genCompliances', 'Pysmi.Pins.SkelC06.pin_genObjectType', 
    'Pysmi.Struct.C06_importmap_spec',
    'Pysmi.Struct.C06_object_lists',
    'Pysmi.Struct.C06_indices',
    'Pysmi.Struct.C06_compliance',
    'Pysmi.Struct.C06_nodetype',
    'Pysmi.Struct.nodeType_perm_invariant',
    'Pysmi.Generated.Pysnmp.C06_template_lists_unfiltered',
    'Pysmi.Generated.Pysnmp.C06_template_lists_present',
    'Pysmi.Generated.Pysnmp.C06_template_filters_known',
]
TECHNIQUE = ('Lean 4 theorems about the import map (last sorted module wins), object/index/compliance lists (order, flags, module '
             'attribution; any length) and node-type classification over whole-module row/column sets; kernel-decided facts about the loops '
             'of the pysnmp template regenerated on every run (no filter on any ordered list); correspondence against the JSON '
             'records of generated modules; ground-truth oracle on JSON and on the calls recorded while executing the pysnmp module')
LEVEL_TEXT = ('Proved in Lean for lists of any length mixing local and imported objects: the import map attributes a symbol to the last '
              'module (sorted order) importing it; OBJECTS/NOTIFICATIONS/VARIABLES lists keep every object in order with that attribution; '
              'INDEX lists keep order, IMPLIED flags and attribution; compliance groups per MODULE clause in order; table/row/column/scalar '
              'classification is a function of the whole module\'s SEQUENCE OF / SEQUENCE declarations only (independent of declaration '
              'order). The parser\'s list construction (C02) is not modelled here; of the pysnmp template it is decided, on a table of its loops regenerated on every run, that no loop over one of these lists applies any filter (C06_template_lists_unfiltered, _present, _filters_known); what the rendered statements do is checked through '
              'the calls recorded when the generated module is executed (setIndexNames, registerAugmentions, setObjects).')
LEVEL_NOTE = c01.LEVEL_NOTE
ASSUMPTIONS = ['OBJECT refinements of compliance statements carry no reference the property speaks about and are not generated']


def build_request(obs, mn):
    """model request for one module from what the real code produced (imports, rows, cols) + the typed declarations"""
    g = obs['gen']
    doc = obs['json'].get(mn)
    tab = (obs['symmap'] or {}).get(mn)
    if doc is None or tab is None or '__invalid_json__' in doc:
        return None
    names, mods = cg.Interner(), cg.Interner()
    imports = [[mods(m), [names(s.replace('-', '_')) for s in syms]] for m, syms in sorted(doc['imports'].items()) if isinstance(syms, list)]
    req = {'op': 'struct', 'imports': imports, 'self': mods(mn), 'rows': [names(r) for r in tab.get('_symtable_rows', [])],
           'cols': [names(c.replace('-', '_')) for c in tab.get('_symtable_cols', [])],
           'lists': [], 'indices': [], 'compliances': [], 'nodes': []}
    keys = {'lists': [], 'indices': [], 'compliances': [], 'nodes': []}
    for d in g.modules[mn]['decls']:
        jn = mibgen.jname(d['name'])
        if d['kind'] in ('notificationType', 'objectGroup', 'notificationGroup') and d['objects']:
            req['lists'].append([names(mibgen.jname(o['name'])) for o in d['objects']])
            keys['lists'].append(jn)
        if d['kind'] == 'objectType':
            syn = d['syntax']
            if 'seqof' in syn:
                s = ['seqof', names(syn['seqof'])]
            elif 'bits' in syn:
                s = 'bits'
            else:
                s = ['named', names(mibgen.jname(syn['base']))]
            req['nodes'].append([names(jn), s])
            keys['nodes'].append(jn)
            if d.get('index'):
                req['indices'].append([[i['implied'], names(mibgen.jname(i['name']))] for i in d['index']])
                keys['indices'].append(jn)
        if d['kind'] == 'moduleCompliance':
            req['compliances'].append([[None if cl['module'] is None else mods(cl['module']),
                                        [names(mibgen.jname(x['name'])) for x in cl['mandatory'] + cl['conditional']]] for cl in d['clauses']])
            keys['compliances'].append(jn)
    return req, keys, names, mods


def check_set(ctx, obs, reqs, metas):
    res = ctx.res
    g = obs['gen']
    inp = {'seed': obs['seed'], 'texts': obs['texts'], 'run_set': obs.get('run_set')}

    def fail(key, what):
        res.oracle_failures.append({'key': key, 'what': what, 'input': inp})
    for mn, m in g.modules.items():
        doc = obs['json'].get(mn)
        if doc is None or '__invalid_json__' in doc:
            continue
        py = obs['pysnmp'].get(mn)
        exports = py['builder'].exports.get(mn, {}) if py and py['builder'] is not None else None
        for d in m['decls']:
            jn = mibgen.jname(d['name'])
            rec = doc.get(jn)
            if rec is None:
                continue
            t = g.truth[(mn, d['name'])]
            if d['kind'] == 'objectType':
                if rec.get('nodetype') != t['nodetype']:
                    fail('nodetype', '%s::%s classified %r, SYNTAX and SEQUENCE definitions dictate %s' % (mn, jn, rec.get('nodetype'), t['nodetype']))
                if d.get('index'):
                    want = [{'module': i['module'], 'object': mibgen.jname(i['name']), 'implied': int(i['implied'])} for i in d['index']]
                    got = [{'module': i.get('module'), 'object': i.get('object'), 'implied': int(i.get('implied', 0))} for i in rec.get('indices', [])]
                    if got != want:
                        fail('indices', '%s::%s INDEX emitted as %r, written %r' % (mn, jn, got, want))
                    if exports is not None and jn in exports:
                        calls = recbuilder.describe(exports[jn])['calls'].get('setIndexNames', [])
                        gotp = [[int(a[0]), a[1], a[2]] for a in (calls[-1] if calls else [])]
                        wantp = [[int(i['implied']), i['module'], mibgen.jname(i['name'])] for i in d['index']]
                        if gotp != wantp:
                            fail('pysnmp-indices', '%s::%s setIndexNames%r, INDEX written %r' % (mn, jn, gotp, wantp))
                if d.get('augments'):
                    a = rec.get('augmention') or {}
                    if a.get('object') != mibgen.jname(d['augments']) or a.get('module') != mn:
                        fail('augments', '%s::%s AUGMENTS %s emitted as %r' % (mn, jn, d['augments'], a))
                elif 'augmention' in rec:
                    fail('augments', '%s::%s has an augmention record but no AUGMENTS clause' % (mn, jn))
            if d['kind'] in ('notificationType', 'objectGroup', 'notificationGroup'):
                want = [{'module': o['module'], 'object': mibgen.jname(o['name'])} for o in d['objects']]
                got = [{'module': o.get('module'), 'object': o.get('object')} for o in rec.get('objects', [])]
                if got != want:
                    fail('objects', '%s::%s object list emitted as %r, written %r' % (mn, jn, got, want))
                if exports is not None and jn in exports and want:
                    calls = recbuilder.describe(exports[jn])['calls'].get('setObjects', [])
                    gotp = [[a[0], a[1]] for a in (calls[-1] if calls else [])]
                    if gotp != [[o['module'], o['object']] for o in want]:
                        fail('pysnmp-objects', '%s::%s setObjects%r, written %r' % (mn, jn, gotp, want))
            if d['kind'] == 'moduleCompliance':
                want = [{'object': mibgen.jname(x['name']), 'module': cl['module'] or mn} for cl in d['clauses'] for x in cl['mandatory'] + cl['conditional']]
                got = [{'object': o.get('object'), 'module': o.get('module')} for o in rec.get('modulecompliance', [])]
                if got != want:
                    fail('compliance', '%s::%s groups emitted as %r, written %r' % (mn, jn, got, want))
                if exports is not None and jn in exports and want:
                    calls = recbuilder.describe(exports[jn])['calls'].get('setObjects', [])
                    gotp = [[a[0], a[1]] for a in (calls[-1] if calls else [])]
                    if gotp != [[o['module'], o['object']] for o in want]:
                        fail('pysnmp-compliance', '%s::%s setObjects%r, groups written %r' % (mn, jn, gotp, want))
        br = build_request(obs, mn)
        if br:
            reqs.append(br[0])
            metas.append((obs, mn, br[1], br[2], br[3]))


def compare(ctx, reqs, metas):
    res = ctx.res
    if ctx.model is None or not reqs:
        return
    for (obs, mn, keys, names, mods), out in zip(metas, ctx.model.batch(reqs)):
        if 'driver_error' in out:
            res.corr_failures.append({'what': 'driver error ' + out['driver_error']})
            continue
        doc = obs['json'][mn]
        for jn, l in zip(keys['lists'], out['lists']):
            got = [[mods(o['module']), names(o['object'])] for o in doc[jn].get('objects', [])]
            if got != l:
                res.corr_failures.append({'what': 'object list differs from Model.Struct.genObjects', 'module': mn, 'symbol': jn})
        for jn, l in zip(keys['indices'], out['indices']):
            got = [[mods(o['module']), names(o['object']), bool(o['implied'])] for o in doc[jn].get('indices', [])]
            if got != l:
                res.corr_failures.append({'what': 'INDEX differs from Model.Struct.genTableIndex', 'module': mn, 'symbol': jn,
                                          'impl': got, 'model': l})
        for jn, l in zip(keys['compliances'], out['compliances']):
            got = [[mods(o['module']), names(o['object'])] for o in doc[jn].get('modulecompliance', [])]
            if got != l:
                res.corr_failures.append({'what': 'compliance groups differ from Model.Struct.genCompliances', 'module': mn, 'symbol': jn})
        for jn, nt in zip(keys['nodes'], out['nodes']):
            if doc[jn].get('nodetype') != nt:
                res.corr_failures.append({'what': 'nodetype differs from Model.Struct.nodeType', 'module': mn, 'symbol': jn,
                                          'impl': doc[jn].get('nodetype'), 'model': nt})


def run(ctx):
    res = ctx.res
    res.rule = ('module sets from the shared generator with tables (1-4 columns, 1-3 indices, foreign indices from other modules, IMPLIED, '
                'augmenting rows), notifications / object groups / notification groups mixing local and imported objects, compliance '
                'statements with mandatory and conditional groups; both backends; non-trivial = at least one table or object list')
    n = 60 if ctx.tier == 'quick' else 1000
    reqs, metas = [], []
    base = ctx.seed * 100000 + 30000
    for i in range(n):
        obs = cg.run_set(base + i, wild=(i % 3 == 0), size=10 + (i % 6), pysnmp_safe=(i % 4 != 1))
        kinds = [d['kind'] for m in obs['gen'].modules.values() for d in m['decls']]
        nt = [t.get('nodetype') for t in obs['gen'].truth.values()]
        res.case(tuple(sorted(obs['texts'].items())), 'table' in nt or 'notificationType' in kinds or 'objectGroup' in kinds)
        for k in ('table', 'row', 'column'):
            res.count('nodetype:' + k, nt.count(k))
        for k in ('notificationType', 'objectGroup', 'notificationGroup', 'moduleCompliance'):
            res.count('kind:' + k, kinds.count(k))
        check_set(ctx, obs, reqs, metas)
    compare(ctx, reqs, metas)
    res.sample({'module_text': list(obs['texts'].values())[0][:1500]})


def search(ctx):
    ctx.tier = 'thorough'
    run(ctx)


def replay(payload):
    import json
    from impl import pipeline
    inp = payload['input']
    if inp.get('run_set'):
        return cg.replay_regenerated('C06', inp, lambda c, o: check_set(c, o, [], []), payload.get('key'))
    r, out, _ = pipeline.compile_set(inp['texts'], genTexts=True)
    bad = []
    for mod, exp in (inp.get('expect_compliance') or {}).items():
        doc = json.loads(out[mod]) if mod in out else {}
        for sym, want in exp.items():
            got = [o.get('object') for o in (doc.get(sym) or {}).get('modulecompliance', [])]
            if got != want:
                bad.append('%s::%s compliance groups %r, written %r' % (mod, sym, got, want))
    for mod, exp in (inp.get('expect_pysnmp_objects') or {}).items():
        r2, out2, _ = pipeline.compile_set(inp['texts'], backend='pysnmp', genTexts=True)
        b, ns = recbuilder.execute(out2[mod], mod)
        for sym, want in exp.items():
            calls = recbuilder.describe(b.exports[mod][sym])['calls'].get('setObjects', [])
            got = [a[1] for a in (calls[-1] if calls else [])]
            if got != want:
                bad.append('%s::%s pysnmp setObjects %r, written %r' % (mod, sym, got, want))
    return {'fails': bool(bad), 'what': bad}
