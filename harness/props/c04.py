"""C04 — pysnmp output is valid Python that loads and agrees with the JSON backend."""
import json
import random

from gen import mibgen
from impl import pipeline, recbuilder
from props import codegen_common as cg

LEVEL = 'proof'
MODULES = ['Pysmi.Props.C04', 'Pysmi.Props.C04Order', 'Pysmi.Pins.SkelC04']
LAKE_TARGETS = ['Pysmi.Props.C04', 'Pysmi.Props.C04Order', 'Pysmi.Pins.SkelC04']
THEOREMS = ['Pysmi.Pins.SkelC04.pin_pysnmpGenCode', 'Pysmi.Pysnmp.C04_sort_perm', 'Pysmi.Pysnmp.C04_sort_stable', 'Pysmi.Pysnmp.C04_sort_sorted', 'Pysmi.Pysnmp.C04_types_keep_dependency_order',
            'Pysmi.Pysnmp.C04_imports_expand', 'Pysmi.Generated.Pysnmp.C04_exported_classes', 'Pysmi.Generated.Pysnmp.C04_export_filter_complete',
            'Pysmi.Generated.Pysnmp.pin_smiObjects', 'Pysmi.Generated.Text.C04_setter_keys', 'Pysmi.Generated.Text.C04_status_written',
            'Pysmi.Symtab.C04_parents_before', 'Pysmi.Symtab.C04_declared_parent_earlier', 'Pysmi.Symtab.C04_before_survives_filter',
            'Pysmi.Generated.Pysnmp.C04_types_one_pass', 'Pysmi.Generated.Pysnmp.C04_augment_after_objects']
TECHNIQUE = ('Lean 4 theorems about a model of the pure steps of PySnmpCodeGen.genCode (SMI_OBJECTS expansion of imports, dotted OID -> '
             'tuple, stable sort by OID: permutation, sortedness, stability, round trip) and kernel-decided facts about the exported-class '
             'tuple extracted from the template on every run; the emitted Python itself is validated by execution: every generated module is '
             'compiled and executed against a recording builder and compared with the JSON backend and the generator\'s ground truth; '
             'imports between generated modules are checked against the exporting module\'s exportSymbols')
LEVEL_TEXT = ('Proved in Lean: sorting the records by OID is a stable permutation (nothing lost or duplicated; records without OID keep '
              'their dependency order, so a derived type never precedes its base), on success of the symbol pass every symbol of the emission order has each parent imported, a row type or earlier in the order (C04_parents_before, for any depth of forward references) and a filter of the order keeps that (C04_before_survives_filter), the template defines plain types and textual conventions in one pass that precedes the objects (C04_types_one_pass, regenerated), the dotted-string -> tuple conversion loses nothing, the '
              'import expansion keeps every imported symbol; decided on the regenerated template: every record class the property names is '
              'in the export filter, and every set...() call of the template is given the record key of that meaning (status, maxaccess, units, '
              'objects, indices ...; C04_setter_keys), every block whose records carry a status / access writes it. NOT expressible as a theorem short of formalising Python and Jinja: that the rendered text is valid '
              'Python and what executing it defines (partial, runtime) - decided by executing every generated module.')
LEVEL_NOTE = 'Trusted: Lean kernel + standard axioms; translate.py (regular expressions over the template); recording builder; CPython.'
ASSUMPTIONS = ['the recording builder fabricates imported classes: class hierarchies of pysnmp itself (e.g. metaclass conflicts) are not exercised',
               'AGENT-CAPABILITIES are exercised by C15/C17 fixtures, not by the shared module generator']

PY_CLASS = {'moduleIdentity': 'ModuleIdentity', 'objectIdentity': 'ObjectIdentity', 'valueDecl': 'ObjectIdentity', 'notificationType': 'NotificationType',
            'objectGroup': 'ObjectGroup', 'notificationGroup': 'NotificationGroup', 'moduleCompliance': 'ModuleCompliance'}
NODE_CLASS = {'scalar': 'MibScalar', 'table': 'MibTable', 'row': 'MibTableRow', 'column': 'MibTableColumn'}


def classify(obs, mn, err):
    """key of a load failure: the two recorded template defects get keys of their own, everything else is generic"""
    import re
    import sys
    import traceback
    if err.startswith(('SyntaxError', 'IndentationError', 'ValueError')):
        return 'pysnmp-syntax'
    text = (obs.get('pysnmp_text') or {}).get(mn)
    if text is None:
        try:
            text = pipeline.compile_set(obs['texts'], backend='pysnmp', genTexts=True)[1].get(mn)
        except Exception:
            text = None
    line = ''
    if text:
        try:
            exec(compile(text, mn + '.py', 'exec'), {'mibBuilder': recbuilder.RecordingBuilder(True)})
        except BaseException:
            tb = traceback.extract_tb(sys.exc_info()[2])
            nos = [f.lineno for f in tb if f.filename == mn + '.py']
            if nos:
                line = text.split('\n')[nos[0] - 1]
    ma = re.match(r'(\w+)\.registerAugmentions\(', line.strip())
    if err.startswith('NameError') and ma:
        # the recorded defect: the augmented row of this module has the larger OID, so it is defined later
        oids = {mibgen.jname(n): t.get('oid') for (m2, n), t in obs['gen'].truth.items() if m2 == mn}
        base_oid = oids.get(ma.group(1))
        mm = re.search(r'"%s",\s*"(\w+)"' % re.escape(mn), text[text.index(line):][:300]) if line in text else None
        aug_oid = oids.get(mm.group(1)) if mm else None
        # (a base row of another module is defined by the import statement at the top: a NameError on it is something else)
        if base_oid is not None and (aug_oid is None or list(base_oid) > list(aug_oid)):
            return 'augments-forward-reference'
        return 'pysnmp-exec'
    kinds = {mibgen.jname(n): t['kind'] for (m2, n), t in obs['gen'].truth.items() if m2 == mn}
    m = re.match(r'class (\w+)\((.*)\):', line.strip())
    if m:
        bases = [b.strip() for b in m.group(2).split(',')]
        if err.startswith('NameError') and kinds.get(m.group(1)) == 'typeDecl' and len(bases) == 1 and kinds.get(bases[0]) == 'textualConvention':
            return 'type-derived-from-tc'
        if err.startswith('TypeError') and 'MRO' in err and bases[0] == 'TextualConvention' and len(bases) == 2 \
                and tc_based(obs['gen'].truth, mn, bases[1]):
            return 'tc-derived-from-tc'
    return 'pysnmp-exec'


def tc_based(truth, mn, name, depth=0):
    """is the Python class of type `name` (as seen from module mn) a subclass of TextualConvention: a textual convention
    itself, DisplayString, or a plain type based - through any number of plain types - on one of those"""
    if name == 'DisplayString':
        return True
    if depth > 50:
        return False
    cands = [(m2, t) for (m2, n), t in truth.items() if mibgen.jname(n) == name and t.get('kind') in ('typeDecl', 'textualConvention')]
    cands.sort(key=lambda c: c[0] != mn)        # the module's own type of that name wins
    if not cands:
        return False
    m2, t = cands[0]
    if t['kind'] == 'textualConvention':
        return True
    syn = t.get('syntax') or {}
    if syn.get('user') or syn.get('base') == 'DisplayString':
        return tc_based(truth, syn.get('tmodule') or m2, mibgen.jname(syn['base']), depth + 1)
    return False


def spec_items(cls):
    """[(combinator, [(constraint, args)...])] recorded for a class body's subtypeSpec"""
    sp = cls.__dict__.get('subtypeSpec')
    out = []
    for it in getattr(sp, 'items', []) or []:
        if isinstance(it, recbuilder.Rec):
            out.append((type(it).__name__, [(type(a).__name__, list(a.rec_args)) for a in it.rec_args if isinstance(a, recbuilder.Rec)]))
    return out


def expected_spec(cons):
    if not cons:
        return []
    if 'enumeration' in cons:
        return [('ConstraintsUnion', [('SingleValueConstraint', sorted(cons['enumeration'].values()))])]
    if 'range' in cons:
        return [('ConstraintsUnion', [('ValueRangeConstraint', [r['min'], r['max']]) for r in cons['range']])]
    if 'size' in cons:
        return [('ConstraintsUnion', [('ValueSizeConstraint', [r['min'], r['max']]) for r in cons['size']])]
    return []


def check_set(ctx, obs):
    res = ctx.res
    g = obs['gen']
    inp = {'seed': obs['seed'], 'texts': obs['texts'], 'run_set': obs.get('run_set')}

    def fail(key, what):
        res.oracle_failures.append({'key': key, 'what': what, 'input': inp})
    from pysmi.codegen.pysnmp import PySnmpCodeGen
    smi_types = PySnmpCodeGen.SMI_TYPES
    ok_modules = set()
    for mn in g.modules:
        if obs['status'].get('pysnmp', {}).get(mn) != 'compiled':
            kws = sorted(n for (m2, n) in g.truth if m2 == mn and n in mibgen.PY_KEYWORDS)
            err = obs.get('errors_pysnmp', {}).get(mn, '')
            if kws and 'no symbol' in err:
                fail('python-keyword-symbol', '%s declares %s (Python keywords, legal MIB identifiers) and fails to compile: %s' % (mn, kws[:3], err[:160]))
            elif obs['status'].get('json', {}).get(mn) == 'compiled':
                fail('pysnmp-not-compiled', '%s compiles with the JSON backend but is %s with pysnmp: %s' % (
                    mn, obs['status'].get('pysnmp', {}).get(mn), obs.get('errors_pysnmp', {}).get(mn, '')))
            continue
        py = obs['pysnmp'].get(mn)
        if py is None:
            fail('pysnmp-no-text', '%s: no pysnmp text written' % mn)
            continue
        if py['error']:
            kind = classify(obs, mn, py['error'])
            fail(kind, '%s: generated module does not load: %s' % (mn, py['error'][:300]))
            continue
        ok_modules.add(mn)
        exported = py['builder'].exports.get(mn, {})
        doc = obs['json'].get(mn) or {}
        for (m2, name), t in g.truth.items():
            if m2 != mn:
                continue
            jn = mibgen.jname(name)
            kind = t['kind']
            if kind == 'sequenceDecl':
                continue            # a SEQUENCE type is the row's structure, not a class of the generated module
            obj = exported.get(jn)
            if obj is None:
                fail('not-exported', '%s::%s (%s) is not exported by the generated module' % (mn, name, kind))
                continue
            d = recbuilder.describe(obj)
            rec = doc.get(jn, {})
            if kind in ('typeDecl', 'textualConvention') and isinstance(obj, type):
                cons = (rec.get('type') or {}).get('constraints')
                if 'bits' not in ((rec.get('type') or {})) and spec_items(obj) != expected_spec(cons):
                    fail('constraints', '%s::%s: pysnmp class restricts with %r, the JSON document says %r' % (mn, name, spec_items(obj), cons))
            if kind == 'objectType' and t.get('nodetype') in ('scalar', 'column') and len(obj.rec_args) > 1:
                cons = (rec.get('syntax') or {}).get('constraints')
                syn_cls = type(obj.rec_args[1])
                if cons and 'bits' not in (rec.get('syntax') or {}) and spec_items(syn_cls) != expected_spec(cons):
                    fail('constraints', '%s::%s: pysnmp syntax restricts with %r, the JSON document says %r' % (mn, name, spec_items(syn_cls), cons))
            if kind in ('typeDecl', 'textualConvention'):
                if d['kind'] != 'class':
                    fail('type-class', '%s::%s is exported as %r, not as a class' % (mn, name, d))
                elif kind == 'textualConvention' and 'TextualConvention' not in d['bases']:
                    fail('type-class', '%s::%s: TEXTUAL-CONVENTION without TextualConvention among its bases %r' % (mn, name, d['bases']))
                continue
            want_cls = PY_CLASS.get(kind) or NODE_CLASS.get(t.get('nodetype'))
            if want_cls and want_cls not in d.get('bases', []):
                fail('object-class', '%s::%s (%s) is a %r, expected %s' % (mn, name, t.get('nodetype') or kind, d.get('bases'), want_cls))
            if 'oid' in t:
                if d.get('oid') != list(t['oid']):
                    fail('object-oid', '%s::%s has OID %r in the pysnmp module, the text defines %s' % (mn, name, d.get('oid'), t['oid']))
                if rec.get('oid') and d.get('oid') is not None and '.'.join(map(str, d['oid'])) != rec['oid']:
                    fail('json-disagrees', '%s::%s: OID %r (pysnmp) vs %s (JSON)' % (mn, name, d.get('oid'), rec.get('oid')))
            if kind == 'moduleIdentity' and rec.get('lastupdated') is not None:
                lu = d['calls'].get('setLastUpdated')
                if not lu or lu[-1][0] != rec['lastupdated']:
                    fail('json-disagrees', '%s::%s: LAST-UPDATED %r (pysnmp) vs %r (JSON)' % (mn, name, lu and lu[-1][0], rec['lastupdated']))
            if kind == 'objectType':
                acc = d['calls'].get('setMaxAccess')
                default_ok = not acc and t.get('nodetype') in ('table', 'row') and rec.get('maxaccess') == 'not-accessible'
                if rec.get('maxaccess') is not None and not default_ok and (not acc or acc[-1][0] != rec['maxaccess']):
                    fail('json-disagrees', '%s::%s: access %r (pysnmp) vs %r (JSON)' % (mn, name, acc, rec.get('maxaccess')))
                jt = (rec.get('syntax') or {}).get('type')
                if jt and t.get('nodetype') in ('scalar', 'column'):
                    want_t = mibgen.jname(smi_types.get(jt, jt))
                    if want_t not in (d.get('syntax') or []):
                        fail('json-disagrees', '%s::%s: base type chain %r (pysnmp) lacks %s (JSON says %s)' % (mn, name, d.get('syntax'), want_t, jt))
    # a compiled module set loads together
    for mn in ok_modules:
        b = obs['pysnmp'][mn]['builder']
        for src, names in b.imports:
            if src in ok_modules and src != mn:
                exp = obs['pysnmp'][src]['builder'].exports.get(src, {})
                missing = [n for n in names if n not in exp]
                if missing:
                    fail('hyphenated-import' if all('-' in n2 for n2 in missing) else 'import-not-exported', '%s imports %s from %s, whose generated code does not export them' % (mn, missing, src))


DUMP = ("{% for symbol, definition in mib.items() %}K {{ symbol }}\n{% endfor %}"
        "{% for module, symbols in mib['imports'].items() %}{% if symbols is not string %}I {{ module }} {{ symbols|join(' ') }}\n{% endif %}{% endfor %}")


def context_dump(texts, mn):
    """the template context of PySnmpCodeGen.genCode for module mn, obtained through a custom template"""
    import os
    import common
    d = common.scratch_dir('c04dump')
    with open(os.path.join(d, 'dump.j2'), 'w') as f:
        f.write(DUMP)
    cwd = os.getcwd()
    os.chdir(d)
    try:
        st, out, comp = pipeline.compile_set(texts, backend='pysnmp', genTexts=False, dstTemplate='dump.j2')
    finally:
        os.chdir(cwd)
        import shutil
        shutil.rmtree(d, ignore_errors=True)
    if mn not in out:
        return None
    order = [l[2:] for l in out[mn].split('\n') if l.startswith('K ')]
    imports = {l.split(' ')[1]: l.split(' ')[2:] for l in out[mn].split('\n') if l.startswith('I ')}
    return order, imports


def steps_correspondence(ctx, obs, reqs, metas):
    """sorted order and expanded imports of the real context vs the Lean model of the two pure steps"""
    for mn in obs['gen'].modules:
        doc_text = None
        if obs['status'].get('json', {}).get(mn) != 'compiled' or obs['status'].get('pysnmp', {}).get(mn) != 'compiled':
            continue
        try:
            pairs = context_dump(obs['texts'], mn)
        except Exception as e:
            ctx.res.corr_failures.append({'what': 'cannot dump the pysnmp template context: %s: %s' % (type(e).__name__, e), 'module': mn})
            continue
        if pairs is None or not obs.get('symmap') or mn not in obs['symmap']:
            continue
        doc = obs['json'][mn]
        recs = []
        for k in ['imports'] + list(obs['symmap'][mn]['_symtable_order']) + ['meta']:
            oid = doc.get(k, {}).get('oid') if isinstance(doc.get(k), dict) else None
            recs.append([k, None if oid is None else [int(x) for x in oid.split('.')]])
        jimports = doc['imports']
        impl_order, pimports = pairs
        for m2, syms in jimports.items():
            if not isinstance(syms, list):
                continue
            reqs.append({'op': 'pysnmp', 'records': recs, 'symbols': syms})
            metas.append((mn, impl_order, pimports.get(m2), m2))


def run(ctx):
    res = ctx.res
    res.rule = ('module sets from the shared generator (1-3 modules, every declaration kind, hyphenated names, same-named symbols across '
                'modules, types derived from local and imported types incl. forward references, nasty texts) plus sets whose identifiers '
                'are Python keywords: both backends; the pysnmp text is compiled and executed against a recording builder; every generated '
                'symbol must be exported under its MIB name with the OID, class, base type and access the JSON document reports; imports '
                'from generated modules must be exported there; non-trivial = at least 3 declarations')
    n = 60 if ctx.tier == 'quick' else 1200
    base = ctx.seed * 100000 + 400000
    reqs, metas = [], []
    for i in range(n):
        kw = (i % 8 == 7)

        def mut(g, rng):
            return None
        rng = random.Random(base + i)
        # keyword sets are built by hand so that the flag is set before build()
        if kw:
            g = mibgen.SetGen(rng, n_modules=None, size=None)
            g.names.keywords = True
            g.nasty = True
            g.pysnmp_safe = True
            g.build()
            texts = {n2: mibgen.print_module(m, rng) for n2, m in g.modules.items()}
            obs = run_texts(g, texts, base + i)
        else:
            obs = cg.run_set(base + i, wild=(i % 5 == 0), nasty=(i % 2 == 0), pysnmp_safe=(i % 3 != 0))
        ndecl = sum(len(m['decls']) for m in obs['gen'].modules.values())
        res.case(tuple(sorted(obs['texts'].items())), ndecl >= 3)
        res.count('keyword-names' if kw else 'ordinary-names')
        res.count('modules=%d' % len(obs['texts']))
        check_set(ctx, obs)
        if i % 3 == 0:
            steps_correspondence(ctx, obs, reqs, metas)
    # directed sets: import lists of every length from another generated module, the imported symbol used by name
    for label, texts in directed_sets():
        res.case(('directed', label), True)
        res.count('directed-sets')
        r = replay({'input': {'texts': texts}})
        if r['fails']:
            res.oracle_failures.append({'key': 'pysnmp-exec', 'what': 'directed set %s: %s' % (label, '; '.join(map(str, r['what']))[:300]),
                                        'input': {'texts': texts}})
    # the notes in the docstring of the generated module (source path, host, user): whatever they hold, the module is valid Python
    for bad in header_notes_failures():
        res.oracle_failures.append(bad)
    res.case(('header-notes',), True)
    res.count('header-notes')
    # BITS objects with a DEFVAL (the shared generator leaves them out because of the recorded defect)
    for i in range(2 if ctx.tier == 'quick' else 10):
        r = random.Random(base + 70000 + i)
        bits = ['bit%d' % k for k in range(r.randint(1, 5))]
        chosen = r.sample(bits, r.randint(0, len(bits)))
        text = ('ACME-BITS-MIB DEFINITIONS ::= BEGIN IMPORTS enterprises, OBJECT-TYPE FROM SNMPv2-SMI;\n'
                'acmeBits OBJECT-TYPE SYNTAX BITS { %s } MAX-ACCESS read-only STATUS current DESCRIPTION "x" DEFVAL { { %s } } ::= { enterprises 88 }\nEND\n'
                % (', '.join('%s(%d)' % (b, k) for k, b in enumerate(bits)), ', '.join(chosen)))
        res.case(('bits', text), True)
        res.count('bits-defval-modules')
        inp = {'seed': base + 70000 + i, 'texts': {'ACME-BITS-MIB': text}}
        st, out, comp = pipeline.compile_set({'ACME-BITS-MIB': text}, backend='pysnmp', genTexts=True)
        if str(st.get('ACME-BITS-MIB')) != 'compiled':
            res.oracle_failures.append({'key': 'bits-defval', 'what': 'module with a BITS DEFVAL is %s with the pysnmp backend: %s' % (
                st.get('ACME-BITS-MIB'), str(getattr(st.get('ACME-BITS-MIB'), 'error', ''))[:200]), 'input': inp})
        else:
            try:
                recbuilder.execute(out['ACME-BITS-MIB'], 'ACME-BITS-MIB')
            except BaseException as e:
                res.oracle_failures.append({'key': 'bits-defval', 'what': 'generated module with a BITS DEFVAL does not load: %s' % type(e).__name__, 'input': inp})
    # SMIv1 modules (TRAP-TYPE with and without DESCRIPTION / VARIABLES, ACCESS, SMIv1 types)
    from gen import v1gen
    for i in range(15 if ctx.tier == 'quick' else 300):
        vg = v1gen.V1Gen(random.Random(base + 50000 + i), size=6).build()
        vt = v1gen.render(vg, 'v1')
        res.case(('v1', vt), True)
        res.count('smiv1-modules')
        inp = {'seed': base + 50000 + i, 'texts': {vg.name: vt}}
        for gen_texts in (True, False):
            st, out, comp = pipeline.compile_set({vg.name: vt}, backend='pysnmp', genTexts=gen_texts)
            if str(st.get(vg.name)) != 'compiled':
                res.oracle_failures.append({'key': 'pysnmp-not-compiled', 'what': 'SMIv1 module is %s: %s' % (st.get(vg.name), getattr(st.get(vg.name), 'error', '')), 'input': inp})
                break
            try:
                b, ns = recbuilder.execute(out[vg.name], vg.name, load_texts=True)
            except BaseException as e:
                key = 'pysnmp-syntax' if isinstance(e, (SyntaxError, ValueError)) else 'pysnmp-exec'
                res.oracle_failures.append({'key': key, 'what': 'generated module for an SMIv1 text does not load (genTexts=%s): %s: %s' % (gen_texts, type(e).__name__, str(e)[:200]), 'input': inp})
                break
            exp = b.exports.get(vg.name, {})
            for name, t in vg.truth.items():
                if t['class'] == 'type':
                    continue
                o = exp.get(name, exp.get(mibgen.jname(name)))      # (a hyphenated name is exported under its Python spelling: recorded finding)
                if o is None or ('oid' in t and recbuilder.describe(o).get('oid') != list(t['oid'])):
                    res.oracle_failures.append({'key': 'object-oid', 'what': '%s: exported %r, the SMIv1 text defines OID %s' % (name, o and recbuilder.describe(o).get('oid'), t.get('oid')), 'input': inp})
                    break
    if ctx.model is not None and reqs:
        for (mn, impl_order, impl_syms, m2), out in zip(metas, ctx.model.batch(reqs)):
            res.count('model-steps')
            if out.get('order') != impl_order:
                res.corr_failures.append({'what': 'order of the template context differs from Model.Pysnmp.sortByOid', 'module': mn,
                                          'impl': impl_order[:12], 'model': (out.get('order') or [])[:12]})
            if out.get('expanded') != impl_syms:
                res.corr_failures.append({'what': 'expanded imports of %s differ from Model.Pysnmp.expandImports' % m2, 'module': mn,
                                          'impl': impl_syms, 'model': out.get('expanded')})
    res.sample({'text': list(obs['texts'].values())[0][:1200]})


def header_notes_failures():
    """a module compiled from a directory whose name holds backslash sequences (C:\\Users\\new\\x41: a Windows path, legal
    as a directory name here) through the real FileReader: the path goes into the docstring of the generated module"""
    import os
    import shutil
    from common import scratch_dir
    from pysmi.compiler import MibCompiler
    from pysmi.parser.smi import parserFactory
    from pysmi.codegen.pysnmp import PySnmpCodeGen
    from pysmi.reader.localfile import FileReader
    from pysmi.reader.callback import CallbackReader
    from pysmi.writer.callback import CallbackWriter
    from pysmi.searcher.stub import StubSearcher
    base = scratch_dir()
    out = {}
    fails = []
    try:
        d = os.path.join(base, 'C:\\Users\\new\\x41\\N{x}')
        os.makedirs(d)
        text = 'ACME-HDR-MIB DEFINITIONS ::= BEGIN IMPORTS enterprises FROM SNMPv2-SMI;\nacmeHdr OBJECT IDENTIFIER ::= { enterprises 86 }\nEND\n'
        with open(os.path.join(d, 'ACME-HDR-MIB'), 'w') as f:
            f.write(text)
        comp = MibCompiler(parserFactory(**pc_dialect())(), PySnmpCodeGen(), CallbackWriter(lambda n, t, c: out.__setitem__(n, t)))
        comp.addSources(FileReader(d), CallbackReader(lambda n, c: pipeline.base_text(n) or ''))
        comp.addSearchers(StubSearcher(*PySnmpCodeGen.baseMibs))
        inp = {'header_dir': True}
        try:
            st = comp.compile('ACME-HDR-MIB', genTexts=True)
        except BaseException as e:
            return [{'key': 'pysnmp-exec', 'what': 'compile() from a directory named with backslashes raised %s: %s' % (type(e).__name__, e), 'input': inp}]
        if str(st.get('ACME-HDR-MIB')) != 'compiled':
            return [{'key': 'pysnmp-exec', 'what': 'module from a directory named with backslashes: %s' % st.get('ACME-HDR-MIB'), 'input': inp}]
        try:
            recbuilder.execute(out['ACME-HDR-MIB'], 'ACME-HDR-MIB')
        except BaseException as e:
            fails.append({'key': 'pysnmp-exec', 'what': 'module compiled from a directory named with backslashes does not load: %s: %s' % (type(e).__name__, str(e)[:160]),
                          'input': inp})
    finally:
        shutil.rmtree(base, ignore_errors=True)
    return fails


def pc_dialect():
    from props import parse_common as pc
    return pc.DIALECTS['smiV1Relaxed']


def directed_sets():
    """(label, texts): module B imports k = 1, 2, 3 symbols from module A and uses each by its name (a type as SYNTAX and
    as base of a local type, a node as OID parent, a row as AUGMENTS target)"""
    a = ('ACME-DA-MIB DEFINITIONS ::= BEGIN IMPORTS OBJECT-TYPE, Integer32, enterprises FROM SNMPv2-SMI TEXTUAL-CONVENTION FROM SNMPv2-TC;\n'
         'acmeDaRoot OBJECT IDENTIFIER ::= { enterprises 81 }\n'
         'AcmeDaTc ::= TEXTUAL-CONVENTION STATUS current DESCRIPTION "t" SYNTAX Integer32 (0..9)\n'
         'AcmeDaPlain ::= Integer32 (0..99)\n'
         'acmeDaTable OBJECT-TYPE SYNTAX SEQUENCE OF AcmeDaEntry MAX-ACCESS not-accessible STATUS current DESCRIPTION "t" ::= { acmeDaRoot 1 }\n'
         'acmeDaEntry OBJECT-TYPE SYNTAX AcmeDaEntry MAX-ACCESS not-accessible STATUS current DESCRIPTION "e" INDEX { acmeDaIdx } ::= { acmeDaTable 1 }\n'
         'AcmeDaEntry ::= SEQUENCE { acmeDaIdx Integer32 }\n'
         'acmeDaIdx OBJECT-TYPE SYNTAX Integer32 MAX-ACCESS not-accessible STATUS current DESCRIPTION "c" ::= { acmeDaEntry 1 }\nEND\n')
    uses = {
        'AcmeDaTc': 'acmeDbObj OBJECT-TYPE SYNTAX AcmeDaTc MAX-ACCESS read-only STATUS current DESCRIPTION "o" ::= { enterprises 82 }\n',
        'AcmeDaPlain': 'AcmeDbLocal ::= AcmeDaPlain (0..5)\nacmeDbObj2 OBJECT-TYPE SYNTAX AcmeDbLocal MAX-ACCESS read-only STATUS current DESCRIPTION "o" ::= { enterprises 83 }\n',
        'acmeDaRoot': 'acmeDbNode OBJECT IDENTIFIER ::= { acmeDaRoot 7 }\n',
        'acmeDaEntry': ('acmeDbTable OBJECT-TYPE SYNTAX SEQUENCE OF AcmeDbEntry MAX-ACCESS not-accessible STATUS current DESCRIPTION "t" ::= { enterprises 84 }\n'
                        'acmeDbEntry OBJECT-TYPE SYNTAX AcmeDbEntry MAX-ACCESS not-accessible STATUS current DESCRIPTION "e" AUGMENTS { acmeDaEntry } ::= { acmeDbTable 1 }\n'
                        'AcmeDbEntry ::= SEQUENCE { acmeDbCol Integer32 }\n'
                        'acmeDbCol OBJECT-TYPE SYNTAX Integer32 MAX-ACCESS read-only STATUS current DESCRIPTION "c" ::= { acmeDbEntry 1 }\n'),
    }
    for picked in (['AcmeDaTc'], ['AcmeDaPlain'], ['acmeDaRoot'], ['acmeDaEntry'], ['AcmeDaTc', 'acmeDaRoot'], ['AcmeDaPlain', 'acmeDaEntry', 'AcmeDaTc']):
        b = ('ACME-DB-MIB DEFINITIONS ::= BEGIN IMPORTS OBJECT-TYPE, Integer32, enterprises FROM SNMPv2-SMI %s FROM ACME-DA-MIB;\n' % ', '.join(picked)
             + ''.join(uses[p] for p in picked) + 'END\n')
        yield 'imports ' + '+'.join(picked), {'ACME-DA-MIB': a, 'ACME-DB-MIB': b}
    # a type and a row whose names differ in case only (SlotInfo / slotInfo: SMI keeps the two name spaces apart by the case of
    # the first letter), imported together in either order: the type as SYNTAX, the row as AUGMENTS target
    t = ('ACME-DT-MIB DEFINITIONS ::= BEGIN IMPORTS OBJECT-TYPE, Integer32, enterprises FROM SNMPv2-SMI TEXTUAL-CONVENTION FROM SNMPv2-TC;\n'
         'AcmeDtRow ::= TEXTUAL-CONVENTION STATUS current DESCRIPTION "t" SYNTAX INTEGER { empty(1), card(2) }\n'
         'acmeDtTable OBJECT-TYPE SYNTAX SEQUENCE OF AcmeDtRowEntry MAX-ACCESS not-accessible STATUS current DESCRIPTION "t" ::= { enterprises 85 }\n'
         'acmeDtRow OBJECT-TYPE SYNTAX AcmeDtRowEntry MAX-ACCESS not-accessible STATUS current DESCRIPTION "e" INDEX { acmeDtIdx } ::= { acmeDtTable 1 }\n'
         'AcmeDtRowEntry ::= SEQUENCE { acmeDtIdx Integer32, acmeDtWhat AcmeDtRow }\n'
         'acmeDtIdx OBJECT-TYPE SYNTAX Integer32 (1..64) MAX-ACCESS not-accessible STATUS current DESCRIPTION "c" ::= { acmeDtRow 1 }\n'
         'acmeDtWhat OBJECT-TYPE SYNTAX AcmeDtRow MAX-ACCESS read-only STATUS current DESCRIPTION "c" ::= { acmeDtRow 2 }\nEND\n')
    for order in (['AcmeDtRow', 'acmeDtRow'], ['acmeDtRow', 'AcmeDtRow']):
        u = ('ACME-DU-MIB DEFINITIONS ::= BEGIN IMPORTS OBJECT-TYPE, Integer32, enterprises FROM SNMPv2-SMI %s FROM ACME-DT-MIB;\n' % ', '.join(order)
             + 'acmeDuTable OBJECT-TYPE SYNTAX SEQUENCE OF AcmeDuEntry MAX-ACCESS not-accessible STATUS current DESCRIPTION "t" ::= { enterprises 86 }\n'
               'acmeDuEntry OBJECT-TYPE SYNTAX AcmeDuEntry MAX-ACCESS not-accessible STATUS current DESCRIPTION "e" AUGMENTS { acmeDtRow } ::= { acmeDuTable 1 }\n'
               'AcmeDuEntry ::= SEQUENCE { acmeDuCol AcmeDtRow }\n'
               'acmeDuCol OBJECT-TYPE SYNTAX AcmeDtRow MAX-ACCESS read-only STATUS current DESCRIPTION "c" ::= { acmeDuEntry 1 }\nEND\n')
        yield 'imports ' + '+'.join(order), {'ACME-DT-MIB': t, 'ACME-DU-MIB': u}


def run_texts(g, texts, seed):
    """like codegen_common.run_set for an already built generator"""
    obs = {'seed': seed, 'gen': g, 'texts': texts, 'status': {}, 'json': {}, 'pysnmp': {}, 'summary': {}}
    for be in ('json', 'pysnmp'):
        try:
            st, out, comp = pipeline.compile_set(texts, backend=be, genTexts=True)
        except Exception as e:
            obs['status'][be] = {}
            obs['raised_' + be] = '%s: %s' % (type(e).__name__, e)
            continue
        obs['status'][be] = {k: str(v) for k, v in st.items()}
        obs['errors_' + be] = {k: str(getattr(v, 'error', '')) for k, v in st.items() if str(v) == 'failed'}
        for k, v in out.items():
            if be == 'json':
                try:
                    obs['json'][k] = json.loads(v)
                except Exception as e:
                    obs['json'][k] = {'__invalid_json__': str(e)}
            else:
                try:
                    b, ns = recbuilder.execute(v, k, load_texts=True)
                    obs['pysnmp'][k] = {'builder': b, 'ns': ns, 'error': None}
                except BaseException as e:
                    obs['pysnmp'][k] = {'builder': None, 'ns': None, 'error': '%s: %s' % (type(e).__name__, e)}
    return obs


def search(ctx):
    ctx.tier = 'thorough'
    run(ctx)


def replay(payload):
    inp = payload['input']
    key = payload.get('key', '')
    if inp.get('header_dir'):
        bad = header_notes_failures()
        return {'fails': bool(bad), 'what': [b['what'] for b in bad]}
    if inp.get('run_set'):
        return cg.replay_regenerated('C04', inp, check_set, payload.get('key'))
    texts = inp['texts']
    st, out, comp = pipeline.compile_set(texts, backend='pysnmp', genTexts=True)
    bad = []
    loaded = {}
    for mn in texts:
        if str(st.get(mn)) != 'compiled':
            bad.append('%s %s' % (mn, st.get(mn)))
            continue
        try:
            b, ns = recbuilder.execute(out[mn], mn, load_texts=True)
        except BaseException as e:
            bad.append('%s: %s' % (mn, type(e).__name__))
            continue
        loaded[mn] = b
        for want in inp.get('expect_exported', {}).get(mn, []):
            if want not in b.exports.get(mn, {}):
                bad.append('%s::%s not exported' % (mn, want))
    for mn, b in loaded.items():
        for src, names in b.imports:
            if src in loaded and src != mn:
                missing = [n for n in names if n not in loaded[src].exports.get(src, {})]
                if missing:
                    bad.append('%s imports %s from %s' % (mn, missing, src))
    return {'fails': bool(bad), 'what': bad}
