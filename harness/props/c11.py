"""C11 — malformed input is rejected with a located package error, never accepted."""
import random

import grammar
from props import parse_common as pc

LEVEL = 'proof'
MODULES = ['Pysmi.Props.C11', 'Pysmi.Props.C11Lines', 'Pysmi.Pins.Lex', 'Pysmi.Pins.SkelC11']
LAKE_TARGETS = ['Pysmi.Props.C11', 'Pysmi.Props.C11Lines', 'Pysmi.Pins.Lex', 'Pysmi.Pins.SkelC11']
THEOREMS = [
    'Pysmi.Pins.SkelC11.pin_lexerNumber',
    'Pysmi.Lexer.C11_step_progress',
    'Pysmi.Lexer.C11_lexer_terminates',
    'Pysmi.Lexer.C11_number_class',
    'Pysmi.LR.C02_lr_sound',
    'Pysmi.LR.C02_no_accept_past_lexer_error',
    'Pysmi.LR.C11_accept_means_complete',
    'Pysmi.LR.C11_total',
    'Pysmi.Lexer.C11_step_lines',
    'Pysmi.Lexer.countNewlines_append',
    'Pysmi.Lexer.C11_token_lines',
    'Pysmi.Lexer.C11_token_lines_tokens',
    'Pysmi.Pins.Lex.pin_rules',
    'Pysmi.Pins.Lex.pin_literals',
    'Pysmi.Pins.Lex.pin_states',
    'Pysmi.Pins.Lex.pin_u32max',
    'Pysmi.Pins.Lex.pin_u64max',
    'Pysmi.Pins.Lex.pin_macroErrorRule',
]
TECHNIQUE = ('Lean 4 theorems about a model of the PLY lexer (five states, rule order) and a checked LR driver generic in the tables: every '
             'rule consumes input (termination), accepted input = frontier of a valid derivation tree (so truncated text is never accepted), '
             'outcomes are modules | lexer error | parser error; lexer tables and rule regexes regenerated from the source and pinned; '
             'productions, LALR tables and p_* actions translated from the source on every run; correspondence on malformed inputs')
LEVEL_TEXT = ('Proved in Lean for every text and every table set: each lexer rule in each state consumes at least one character, so scanning '
              'terminates within length+1 steps; number tokens are classed by the two bounds (regenerated from the source), beyond 64 bits is a '
              'lexer error; for arbitrary LR tables an accepted token list is exactly the frontier of a valid derivation tree from the start '
              'symbol, and a text whose scanning fails is never accepted - hence parse() returns modules only for a complete file and '
              'otherwise a lexer or parser error with a line. Line numbers are proved too: every rule adds to the line counter exactly the '
              'line ends (LF, CR, CR LF once) of the text it consumes and never stops inside a CR LF, hence every token carries the number of '
              'the line it starts on and a lexer error the line where scanning stopped (C11_token_lines); a parser error reports the line of '
              'the offending token, which is that token\'s line field (model: LR.parse), tied by correspondence. Non-termination of the real implementation is bounded by a per-case timeout '
              '(runtime, partial).')
LEVEL_NOTE = ('Trusted: Lean kernel + standard axioms; the hand-written lexer model (pinned against the regenerated rule table) and generic LR '
              'driver; the translator (grammar.py: productions, LALR tables exported from PLY, p_* bodies translated from their Python source); '
              'PLY\'s table construction; CPython re.')
ASSUMPTIONS = ['PLY matches rules in the order function-definition line, then string rules by decreasing regex length (exported order is pinned)',
               'the implementation terminates on every input within the per-case timeout (observed, not proved)']

BAD_TOKENS = [('$', 'lexer'), ('~', 'lexer'), ('@', 'lexer'), ('BOOLEAN', 'lexer'), ('ENUMERATED', 'lexer'), ('NULL', 'lexer'),
              ('99999999999999999999999', 'lexer'), ("'FF'B", 'lexer'), ("'12'b", 'lexer'), ("'0G'h", 'lexer'), ('-18446744073709551616', 'lexer'), ('foo-', 'lexer'), ('Bar-', 'lexer'), ('?', 'lexer'),
              # literals that never close / close with the wrong radix letter, long enough to show a pattern that backtracks
              ("'" + '0A' * 24, 'lexer'), ("'" + '01' * 24 + "'x", 'lexer'), ("'" + '00 1B ' * 8, 'lexer'),
              # numbers of thousands of digits (beyond what int() converts without complaint), either sign
              ('7' * 5000, 'lexer'), ('-' + '9' * 4400, 'lexer'), ('1' + '0' * 21, 'lexer')]


def cases(ctx):
    """(kind, dialect, text, expectation) where expectation is None or ('lexer', line) / 'error' / 'ok'"""
    rng = ctx.rng
    n_mod = 12 if ctx.tier == 'quick' else 150
    per = 25 if ctx.tier == 'quick' else 400        # mutants per module (thorough: effectively every position)
    base = ctx.seed * 1000 + 500
    for i in range(n_mod):
        pos = []
        g, m, text = pc.gen_module_text(base + i, wild=(i % 2 == 0), positions=pos, blocks=(i % 3 == 0), nasty=(i % 2 == 1))
        dialect = rng.choice(list(pc.DIALECTS))
        yield 'wellformed', dialect, text, 'ok'
        idxs = list(range(len(pos)))
        rng.shuffle(idxs)
        for k in idxs[:per]:
            tok, off, line = pos[k]
            # 1. truncation at a token boundary
            if k > 0 and not tok.startswith(('EXPORTS', 'Filler')) and 'MACRO' not in tok and 'CHOICE' not in tok:
                yield 'truncate', dialect, text[:off], 'error'
            # 2. a bad token inserted before token k
            bad, kind = rng.choice(BAD_TOKENS)
            yield 'insert-bad', dialect, text[:off] + bad + ' ' + text[off:], ('lexer', line)
        for k in idxs[:per // 2]:
            tok, off, line = pos[k]
            end = off + len(tok)
            j = rng.choice(idxs)
            other = pos[j][0]
            yield 'delete', dialect, text[:off] + text[end:], None
            yield 'duplicate', dialect, text[:off] + tok + ' ' + text[off:], None
            yield 'replace', dialect, text[:off] + other + text[end:], None
        # 2b. a word that is a keyword in one dialect and forbidden in another: whatever it is here, the outcome is a tree or a located package error
        for k in idxs[:4]:
            tok, off, line = pos[k]
            yield 'insert-dialect-word', dialect, text[:off] + rng.choice(['MAX', 'NetworkAddress', 'MIN', 'Counter', 'Gauge']) + ' ' + text[off:], None
        # 3. a complete EXPORTS clause anywhere but in its one legal place (right after BEGIN, once): the text must be rejected
        for k in idxs[:max(4, per // 4)]:
            tok, off, line = pos[k]
            legal = k > 0 and pos[k - 1][0] == 'BEGIN' and not tok.startswith('EXPORTS')
            if not legal:
                yield 'insert-exports', dialect, text[:off] + 'EXPORTS zzA, zzB; ' + text[off:], 'reject'
        # truncation in the middle of tokens / strings
        end_off = max(off for tok, off, line in pos if tok == 'END')       # where the closing END starts
        for _ in range(per // 3):
            cut = rng.randint(0, len(text))
            # a text cut anywhere before its closing END is complete (inside a token, a string, a comment, a block) is not a file
            yield 'truncate-raw', dialect, text[:cut], ('error' if 0 < cut <= end_off and text[:cut].strip() else None)
    alphabet = "abzAZ09-_ \t\n\r\"'{}()[];:,.|=hHbB\\^`$MACROENDXPTSCHOIé"
    for _ in range(400 if ctx.tier == 'quick' else 8000):
        n = rng.randint(0, 40)
        yield 'noise', rng.choice(list(pc.DIALECTS)), ''.join(rng.choice(alphabet) for _ in range(n)), None
    for frag in ['X DEFINITIONS ::= BEGIN OBJECT-TYPE MACRO ::= BEGIN never ends', 'X DEFINITIONS ::= BEGIN EXPORTS a, b', 'X DEFINITIONS ::= BEGIN A ::= CHOICE { x',
                 '', '-- only a comment', '\n\n', 'X DEFINITIONS ::= BEGIN END', 'X DEFINITIONS ::= BEGIN END X', 'X DEFINITIONS ::= BEGIN END END',
                 'X DEFINITIONS ::= BEGIN a OBJECT IDENTIFIER ::= { b 1 } END -- c',
                 'X DEFINITIONS ::= BEGIN\nT ::= OCTET STRING (SIZE (0..MAX))\nEND', 'X DEFINITIONS ::= BEGIN\nT ::= INTEGER (MIN..MAX)\nEND',
                 "X DEFINITIONS ::= BEGIN\na OBJECT IDENTIFIER ::= { b 1 }\nc OBJECT-TYPE SYNTAX OCTET STRING MAX-ACCESS read-only STATUS current DESCRIPTION \"d\" DEFVAL { '" + 'AB' * 30 + " } ::= { a 1 }\nEND"]:
        for d in pc.DIALECTS:
            yield 'edge', d, frag, None


def run(ctx):
    res = ctx.res
    res.rule = ('generated well-formed modules (all three dialects, plain and wild layouts) mutated at sampled (quick) / all (thorough) token '
                'positions: prefix truncation at token boundaries, insertion of an illegal character / forbidden ASN.1 word / oversize number / '
                'trailing-hyphen identifier at a known line, a complete EXPORTS clause out of place, single-token delete / duplicate / replace, raw truncation; character noise; '
                'hand-written edge texts (unterminated MACRO / EXPORTS / CHOICE, empty, comment-only); non-trivial = not the unmodified text')
    reqs, metas = [], []
    loaded = set()
    for kind, dialect, text, expect in cases(ctx):
        ex = grammar.build(pc.DIALECTS[dialect])
        if ex['key'] not in loaded:
            loaded.add(ex['key'])
            reqs.append(grammar.tables_request(ex))
            metas.append(None)
        impl = pc.impl_parse(ex, text)
        res.case((dialect, text), kind != 'wellformed')
        res.count('kind:' + kind)
        res.count('outcome:' + impl.get('error', 'ok').split(':')[0])
        inp = {'dialect': dialect, 'text': text}
        err = impl.get('error')
        if err and err.startswith('other'):
            res.oracle_failures.append({'key': 'other-exception', 'what': 'parse raised %s on a %s text' % (err[7:], kind), 'input': inp})
        elif err:
            nlines = text.count('\n') + text.count('\r') - text.count('\r\n') + 1
            if not isinstance(impl.get('line'), int) or not (1 <= impl['line'] <= nlines):
                res.oracle_failures.append({'key': 'line-range', 'what': '%s error reports line %r; the text has %d lines' % (err, impl.get('line'), nlines),
                                            'input': inp})
        if expect == 'ok' and err:
            res.oracle_failures.append({'key': 'rejects-valid', 'what': 'well-formed text rejected: %r' % (impl,), 'input': inp})
        if expect == 'error' and not err:
            res.oracle_failures.append({'key': 'accepts-truncated', 'what': 'text ending inside a module was accepted', 'input': inp})
        if expect == 'reject' and not err:
            res.oracle_failures.append({'key': 'accepts-malformed', 'what': 'a text with an EXPORTS clause out of place was accepted', 'input': inp})
        if isinstance(expect, tuple):
            if err != 'lexer' or impl.get('line') != expect[1]:
                res.oracle_failures.append({'key': 'located-lexer-error', 'what': 'bad token on line %d reported as %r' % (expect[1], impl), 'input': dict(inp, expect=['lexer', expect[1]])})
        reqs.append(pc.parse_request(ex, text))
        metas.append((kind, dialect, text, impl))
    if ctx.model is not None:
        for meta, out in zip(metas, ctx.model.batch(reqs)):
            if meta is None:
                if 'loaded' not in out:
                    res.corr_failures.append({'what': 'driver could not load tables: %r' % (out,)})
                continue
            kind, dialect, text, impl = meta
            if out != impl:
                # an AST difference is C02's business; here outcome kind and line matter
                a = (impl.get('error', 'ok').split(':')[0], impl.get('line'))
                b = (out.get('error', 'ok').split(':')[0], out.get('line'))
                if a != b:
                    res.corr_failures.append({'what': 'parse outcome differs from Model.LR.parse', 'kind': kind, 'dialect': dialect,
                                              'text': text[:400], 'impl': a, 'model': b})
    res.sample({'kind': metas[-1][0], 'text': metas[-1][2][:300], 'impl': {k: v for k, v in metas[-1][3].items() if k != 'ast'}})
    ins = [m for m in metas if m and m[0] == 'insert-bad']
    if ins:
        res.sample({'kind': 'insert-bad', 'text': ins[0][2][:400], 'impl': ins[0][3]})


def search(ctx):
    ctx.tier = 'thorough'
    run(ctx)


def replay(payload):
    inp = payload['input']
    ex = grammar.build(pc.DIALECTS[inp['dialect']])
    impl = pc.impl_parse(ex, inp['text'])
    err = impl.get('error')
    key = payload.get('key')
    fails = False
    if key == 'other-exception':
        fails = bool(err) and err.startswith('other')
    elif key in ('accepts-truncated', 'accepts-malformed'):
        fails = not err
    elif key == 'located-lexer-error' or key == 'line':
        fails = (err, impl.get('line')) != tuple(inp.get('expect', ('lexer', None)))
    elif key == 'line-after-block':
        fails = impl.get('line') != inp['expect_line']
    else:
        fails = bool(err) and err.startswith('other')
    return {'fails': fails, 'impl': {k: v for k, v in impl.items() if k != 'ast'}}
