"""Run under a given PYTHONHASHSEED: compile the module sets read from stdin (JSON list of {name: text}) with both
backends and print everything observable as JSON (statuses with their attributes, generated texts)."""
import json
import os
import sys

if __name__ == '__main__':
    sys.path.insert(0, os.path.dirname(os.path.dirname(os.path.abspath(__file__))))
    sys.path.insert(0, os.environ.get('PYSMI_REPO', '/repo'))


def status_view(st):
    d = {'status': str(st)}
    for k in ('oid', 'identity', 'revision', 'enterprise', 'alias', 'file'):
        if hasattr(st, k):
            d[k] = repr(getattr(st, k))
    if hasattr(st, 'oids'):
        d['oids'] = sorted(map(str, st.oids or []))
    if hasattr(st, 'compliance'):
        d['compliance'] = list(map(str, st.compliance or []))
    if hasattr(st, 'error'):
        d['error'] = [type(st.error).__name__, str(st.error)]
    return d


def main():
    from impl import pipeline
    sets = json.load(sys.stdin)
    out = []
    for texts in sets:
        row = {}
        for be in ('json', 'pysnmp'):
            try:
                res, written, comp = pipeline.compile_set(texts, backend=be, genTexts=True)
                row[be] = {'status': {k: status_view(v) for k, v in res.items()}, 'texts': written}
            except BaseException as e:
                row[be] = {'raised': '%s: %s' % (type(e).__name__, e)}
        out.append(row)
    json.dump({'hashseed': os.environ.get('PYTHONHASHSEED'), 'sets': out}, sys.stdout)


if __name__ == '__main__':
    main()
