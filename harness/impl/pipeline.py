"""Runs generated module sets through the real pysmi pipeline (in-process)."""
import json
import os

from common import HARNESS

BASE_DIR = os.path.join(HARNESS, 'basemibs')
_parsers = {}
_base_texts = {}


def base_text(name):
    if name not in _base_texts:
        p = os.path.join(BASE_DIR, name)
        _base_texts[name] = open(p).read() if os.path.exists(p) else None
    return _base_texts[name]


def get_parser(dialect='smiV1Relaxed', fresh=False):
    from pysmi.parser.smi import parserFactory
    from pysmi.parser import dialect as D
    if fresh or dialect not in _parsers:
        p = parserFactory(**getattr(D, dialect))()
        if fresh:
            return p
        _parsers[dialect] = p
    return _parsers[dialect]


def compile_set(texts, requested=None, backend='json', dialect='smiV1Relaxed', parser=None, codegen=None, **opts):
    """texts: {module name: MIB text}. Returns (status map, {module: generated text})."""
    from pysmi.compiler import MibCompiler
    from pysmi.reader.callback import CallbackReader
    from pysmi.writer.callback import CallbackWriter
    from pysmi.searcher.stub import StubSearcher
    from pysmi.codegen.jsondoc import JsonCodeGen
    from pysmi.codegen.pysnmp import PySnmpCodeGen
    out = {}

    def read(name, ctx):
        if name in texts:
            return texts[name]
        t = base_text(name)
        return t if t is not None else ''

    def write(name, data, ctx):
        out[name] = data
    cg = codegen or (JsonCodeGen() if backend == 'json' else PySnmpCodeGen())
    comp = MibCompiler(parser or get_parser(dialect), cg, CallbackWriter(write))
    comp.addSources(CallbackReader(read))
    comp.addSearchers(StubSearcher(*PySnmpCodeGen.baseMibs))
    res = comp.compile(*(requested or list(texts)), **opts)
    return res, out, comp


def json_docs(out):
    return {k: json.loads(v) for k, v in out.items()}
