"""A recording MIB builder: executes a generated pysnmp module and logs what it imports, defines,
sets and exports, without pysnmp."""


class Spec:
    """stands for subtypeSpec / namedValues expressions"""

    def __init__(self, items=()):
        self.items = list(items)

    def __add__(self, other):
        return Spec(self.items + [other])

    __iadd__ = __add__

    def clone(self, *a, **k):
        return Spec(self.items + [('clone', a, k)])

    # an imported managed object is a placeholder class here: calls on it (registerAugmentions, getIndexNames of a base
    # row that lives in another module) are accepted and yield nothing
    def __call__(self, *a, **k):
        return Spec(self.items + [('call', a, k)])

    def __iter__(self):
        return iter(())


class Meta(type):
    def __getattr__(cls, name):
        if name.startswith('__'):
            raise AttributeError(name)
        return Spec()

    def __repr__(cls):
        return '<%s>' % cls.__name__


class Rec(metaclass=Meta):
    _symname = '?'

    def __init__(self, *args, **kw):
        self.rec_args = args
        self.rec_kw = kw
        self.rec_calls = []

    def __getattr__(self, name):
        if name.startswith('__') or name.startswith('rec_'):
            raise AttributeError(name)

        if name == 'getIndexNames':
            def get_index_names():
                for n, a, k in reversed(self.rec_calls):
                    if n == 'setIndexNames':
                        return a
                return ()
            return get_index_names

        def method(*a, **k):
            self.rec_calls.append((name, a, k))
            return self
        return method

    def __repr__(self):
        return '%s%r' % (type(self).__name__, self.rec_args)


def mkclass(name, module):
    return Meta(name, (Rec,), {'_symname': name, '_module': module})


class RecordingBuilder:
    loadTexts = True

    def __init__(self, load_texts=True):
        self.loadTexts = load_texts
        self.imports = []        # (module, [symbols])
        self.exports = {}        # module -> {name: object}
        self.classes = {}

    def importSymbols(self, module, *names):
        self.imports.append((module, list(names)))
        out = []
        for n in names:
            key = (module, n)
            if key not in self.classes:
                self.classes[key] = mkclass(n.replace('-', '_'), module)
            out.append(self.classes[key])
        return tuple(out)

    def exportSymbols(self, module, **kw):
        self.exports.setdefault(module, {}).update(kw)


def mro_names(obj):
    cls = obj if isinstance(obj, type) else type(obj)
    return [c.__name__ for c in cls.__mro__ if c not in (Rec, object)]


def execute(text, name, load_texts=True):
    """Returns (builder, namespace) or raises what compile()/exec raise."""
    code = compile(text, name + '.py', 'exec')
    b = RecordingBuilder(load_texts)
    ns = {'mibBuilder': b}
    exec(code, ns)
    return b, ns


def describe(obj):
    """A canonical summary of an exported object: pysnmp class, OID, syntax class chain, calls."""
    if isinstance(obj, type):
        return {'kind': 'class', 'bases': mro_names(obj)}
    d = {'kind': 'object', 'class': type(obj).__name__, 'bases': mro_names(obj)}
    if obj.rec_args and isinstance(obj.rec_args[0], tuple):
        d['oid'] = list(obj.rec_args[0])
    if len(obj.rec_args) > 1:
        syn = obj.rec_args[1]
        d['syntax'] = mro_names(syn)
    d['calls'] = {}
    for n, a, k in obj.rec_calls:
        d['calls'].setdefault(n, []).append(a)
    return d
