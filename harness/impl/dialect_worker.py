"""Parse a sequence of (dialect, text) steps in ONE process, each step with a freshly built parser of its dialect, and
print each step's outcome (canonical tree / error kind and line) as JSON.  Used by C12: the outcome of a step must be the
outcome of that step run alone in a process of its own, whatever other dialects were used before it."""
import json
import os
import sys

if __name__ == '__main__':
    sys.path.insert(0, os.path.dirname(os.path.dirname(os.path.abspath(__file__))))
    sys.path.insert(0, os.environ.get('PYSMI_REPO', '/repo'))


def main():
    from props import parse_common as pc
    from pysmi.parser.smi import parserFactory
    steps = json.load(sys.stdin)['steps']
    out = []
    for dialect, text in steps:
        try:
            p = parserFactory(**pc.DIALECTS[dialect])()
            out.append(pc.impl_parse(None, text, parser=p))
        except BaseException as e:
            out.append({'error': 'other: %s: %s' % (type(e).__name__, e)})
    json.dump(out, sys.stdout)


if __name__ == '__main__':
    main()
