"""Scripted doubles for every component MibCompiler.compile() talks to, a scenario generator,
and the adapter that runs one scenario against the real compile() and against the Lean model.

A scenario is plain JSON:
  req: [name…]  opts: {…}
  sources: [ {name: ans} … ]         ans = "nf" | "err" | ["ok", alias, mtime, text]
  parse: {text: "err" | ["trees", [tree…]]}
  sym:   {tree: "err" | ["ok", name, [import…]]}
  gen:   {tree: "err" | ["ok", data]}
  searchers: [ {name: "nf"|"nm"|"err"|"ret"} … ]
  borrowers: [ {"flavour": true|false|null, "table": {name: "err" | ["ok", alias, mtime, data]}} … ]
  put: {name: bool}
Names, texts, trees, data are small integers (the compile logic only compares them).
"""
import itertools

from pysmi import error
from pysmi.mibinfo import MibInfo


class CallBudgetExceeded(Exception):
    """raised by the doubles when compile() keeps calling: stands for non-termination"""


class Log:
    def __init__(self, budget=4000):
        self.calls = []
        self.budget = budget

    def add(self, *c):
        self.calls.append(list(c))
        if len(self.calls) > self.budget:
            raise CallBudgetExceeded()


def nm(i):
    return 'M%d' % i


def unnm(s):
    return int(s[1:])


class Text(str):
    pass


def tag(exc, *c):
    exc.verif_tag = list(c)
    return exc


# Every package error class that the call site does not treat specially must act as a plain
# failure; the doubles rotate through them so that a handler keyed on a subclass is noticed.
GENERIC_ERRORS = [error.PySmiReaderError, error.PySmiReaderFileNotModifiedError, error.PySmiError,
                  error.PySmiCodegenError, error.PySmiSearcherError, error.PySmiSyntaxError,
                  error.PySmiWriterError, error.PySmiSemanticError, error.PySmiLexerError]


def generic_error(salt, msg, exclude=()):
    classes = [c for c in GENERIC_ERRORS if c not in exclude]
    return classes[salt % len(classes)](msg)


class Source:
    def __init__(self, i, table, log):
        self.i, self.table, self.log = i, table, log

    def getData(self, mibname, **kw):
        n = unnm(mibname)
        self.log.add('get', self.i, n)
        a = self.table.get(str(n), 'nf')
        if a == 'nf':
            raise error.PySmiReaderFileNotFoundError('no %s' % mibname, reader=self)
        if a == 'err':
            raise tag(generic_error(self.i * 7 + n, 'reader error'), 'get', self.i, n)
        _, alias, mtime, text = a
        return (MibInfo(path='src%d:/%s' % (self.i, nm(alias)), file=nm(alias) + '.mib', name=nm(alias), mtime=mtime),
                Text('T%d' % text))

    def __str__(self):
        return 'Source'      # like real readers, str() does not identify the instance


class Parser:
    def __init__(self, table, log):
        self.table, self.log = table, log

    def reset(self):
        pass

    def parse(self, data, **kw):
        t = int(data[1:])
        self.log.add('parse', t)
        a = self.table.get(str(t), 'err')
        if a == 'err':
            raise tag(generic_error(t, 'syntax error'), 'parse', t)
        return [('tree', k) for k in a[1]]


class SymGen:
    def __init__(self, table, log):
        self.table, self.log = table, log

    def genCode(self, ast, symbolTable, **kw):
        k = ast[1]
        self.log.add('sym', k)
        a = self.table.get(str(k), 'err')
        if a == 'err':
            raise tag(generic_error(k + 3, 'semantic error'), 'sym', k)
        return MibInfo(name=nm(a[1]), imported=tuple(nm(x) for x in a[2])), {}


class CodeGen:
    def __init__(self, table, log):
        self.table, self.log = table, log

    def genCode(self, ast, symbolTable, **kw):
        k = ast[1]
        self.log.add('gen', k, bool(kw.get('genTexts')))
        a = self.table.get(str(k), 'err')
        if a == 'err':
            raise tag(generic_error(k + 5, 'codegen error'), 'gen', k, bool(kw.get('genTexts')))
        return MibInfo(oid=None, oids=(), identity=None, revision=None, enterprise=None, compliance=()), 'D%d' % a[1]


class Searcher:
    def __init__(self, i, table, log):
        self.i, self.table, self.log = i, table, log

    def __str__(self):
        return 'Searcher'

    def fileExists(self, mibname, mtime, rebuild=False):
        n = unnm(mibname)
        self.log.add('search', self.i, n, mtime, bool(rebuild))
        a = self.table.get(str(n), 'nf')
        if a == 'nf':
            raise error.PySmiFileNotFoundError('no compiled %s' % mibname, searcher=self)
        if a == 'nm':
            raise error.PySmiFileNotModifiedError('fresh %s' % mibname, searcher=self)
        if a == 'err':
            raise generic_error(self.i * 5 + n, 'searcher error')
        return


class Borrower:
    def __init__(self, i, spec, log):
        self.i, self.spec, self.log = i, spec, log

    def __str__(self):
        return 'Borrower'

    def getData(self, mibname, **options):
        n = unnm(mibname)
        g = bool(options.get('genTexts'))
        self.log.add('borrow', self.i, n, g)
        fl = self.spec.get('flavour')
        a = self.spec['table'].get(str(n), 'err')
        if fl is not None and fl != g:
            a = 'err'
        if a == 'err':
            raise generic_error(self.i * 3 + n + 1, 'nothing to borrow', exclude=()) if (self.i + n) % 2 else error.PySmiReaderFileNotFoundError('nothing to borrow', reader=self)
        _, alias, mtime, data = a
        return (MibInfo(path='bor%d:/%s' % (self.i, nm(alias)), file=nm(alias) + '.py', name=nm(alias), mtime=mtime),
                'D%d' % data)


class Writer:
    def __init__(self, table, log):
        self.table, self.log = table, log

    def putData(self, mibname, data, comments=(), dryRun=False):
        n = unnm(mibname)
        d = int(data[1:])
        self.log.add('put', n, d, bool(dryRun))
        if not self.table.get(str(n), True):
            raise tag(generic_error(n + 6, 'writer error'), 'put', n, d, bool(dryRun))

    def getData(self, name):
        return ''


def run_impl(sc, budget=4000):
    """Runs the real MibCompiler.compile on the scenario. Returns dict(processed, trace, raised)."""
    from pysmi.compiler import MibCompiler
    log = Log(budget)
    comp = MibCompiler(Parser(sc['parse'], log), CodeGen(sc['gen'], log), Writer(sc['put'], log))
    comp._symbolgen = SymGen(sc['sym'], log)
    comp.addSources(*[Source(i, t, log) for i, t in enumerate(sc['sources'])])
    comp.addSearchers(*[Searcher(i, t, log) for i, t in enumerate(sc['searchers'])])
    comp.addBorrowers(*[Borrower(i, t, log) for i, t in enumerate(sc['borrowers'])])
    opts = dict(sc['opts'])
    raised = None
    processed = None
    try:
        res = comp.compile(*[nm(n) for n in sc['req']], **opts)
        processed = []
        for k, v in res.items():
            err = getattr(v, 'error', None)
            etag = None
            if err is not None:
                etag = getattr(err, 'verif_tag', None)
                if etag is None and 'no MIB module found' in str(err):
                    etag = ['nomodule', getattr(getattr(err, 'source', None), 'i', None), unnm(getattr(err, 'mibname', 'M-1'))]
                if etag is None:
                    etag = ['untagged', type(err).__name__]
            alias = getattr(v, 'alias', None)
            processed.append([unnm(k), str(v), etag, unnm(alias) if alias else None])
    except CallBudgetExceeded:
        raised = 'nontermination'
    except Exception as e:  # anything escaping compile()
        raised = '%s: %s' % (type(e).__name__, e)
    return {'processed': processed, 'trace': log.calls, 'raised': raised}


def to_model_req(sc, fuel=3000):
    def tbl(d):
        return [[int(k), v] for k, v in d.items()]
    return {'op': 'compile', 'req': sc['req'], 'opts': sc['opts'], 'fuel': fuel,
            'sources': [tbl(t) for t in sc['sources']], 'parse': tbl(sc['parse']), 'sym': tbl(sc['sym']),
            'gen': tbl(sc['gen']), 'searchers': [tbl(t) for t in sc['searchers']],
            'borrowers': [{'flavour': b.get('flavour'), 'table': tbl(b['table'])} for b in sc['borrowers']],
            'put': tbl(sc['put'])}


def compare(impl, model):
    """Returns None when implementation and model agree, else a short description."""
    if 'driver_error' in model:
        return 'driver error: ' + model['driver_error']
    if model.get('fuel_exhausted'):
        return None if impl['raised'] == 'nontermination' else 'model ran out of fuel, implementation returned'
    if impl['raised']:
        return 'implementation raised %s, model returned' % impl['raised']
    if impl['processed'] != model['processed']:
        return 'status maps differ'
    if impl['trace'] != model['trace']:
        return 'call traces differ'
    return None


# ---------------------------------------------------------------------------------------
# scenario generation

OPT_NAMES = ['noDeps', 'rebuild', 'dryRun', 'genTexts', 'writeMibs', 'ignoreErrors']


def gen_opts(rng):
    o = {}
    for k in OPT_NAMES:
        r = rng.random()
        if k == 'writeMibs':
            if r < 0.15:
                o[k] = False
            elif r < 0.3:
                o[k] = True
        elif r < 0.3:
            o[k] = True
        elif r < 0.4:
            o[k] = False
    return o


def gen_scenario(rng, aligned=True, max_names=5):
    """Import graph over names 0..N-1; per-source holdings; outcome assignment for every call."""
    N = rng.randint(1, max_names)
    names = list(range(N))
    nsrc = rng.randint(1, 3)
    text_id = itertools.count(1)
    tree_id = itertools.count(1)
    sc = {'req': [], 'opts': gen_opts(rng), 'sources': [dict() for _ in range(nsrc)], 'parse': {}, 'sym': {},
          'gen': {}, 'searchers': [], 'borrowers': [], 'put': {}}
    k = rng.randint(1, min(3, N))
    sc['req'] = [rng.choice(names) for _ in range(k)] if rng.random() < 0.2 else rng.sample(names, k)
    imports = {n: [m for m in names if rng.random() < 0.35] for n in names}   # cycles and self loops allowed
    if rng.random() < 0.3:     # import of a name nobody holds
        imports[rng.choice(names)].append(N)
    p_bad = rng.choice([0.0, 0.1, 0.3])
    for n in names:
        for i in range(nsrc):
            r = rng.random()
            if r < 0.35:
                continue                      # not held: nf
            if r < 0.35 + p_bad / 2:
                sc['sources'][i][str(n)] = 'err'
                continue
            t = next(text_id)
            alias = n
            if rng.random() < 0.2:
                alias = 100 + n              # file found under a variant of the requested name
            if not aligned and rng.random() < 0.3:
                alias = rng.choice(names)
            sc['sources'][i][str(n)] = ['ok', alias, rng.choice([5, 10, 10, 15]), t]
            if rng.random() < p_bad / 2:
                sc['parse'][str(t)] = 'err'
                continue
            if aligned:
                mods = [n]
            else:
                r2 = rng.random()
                mods = [] if r2 < 0.15 else [rng.choice(names) for _ in range(rng.randint(1, 3))] if r2 < 0.6 else [n]
            trees = []
            for m in mods:
                tr = next(tree_id)
                trees.append(tr)
                if rng.random() < p_bad / 2:
                    sc['sym'][str(tr)] = 'err'
                else:
                    sc['sym'][str(tr)] = ['ok', m, list(imports[m])]
                if rng.random() < p_bad:
                    sc['gen'][str(tr)] = 'err'
                else:
                    sc['gen'][str(tr)] = ['ok', 1000 + tr]
            sc['parse'][str(t)] = ['trees', trees]
    for _ in range(rng.choice([0, 0, 1, 2, 3])):
        sc['searchers'].append({str(n): rng.choice(['nf', 'nf', 'nm', 'err', 'ret']) for n in names + [N]
                                if rng.random() < 0.7})
    for j in range(rng.choice([0, 0, 1, 2, 3])):
        tbl = {}
        for n in names + [N]:
            if rng.random() < 0.5:
                tbl[str(n)] = ['ok', n, rng.choice([5, 10, 15]), 2000 + 10 * j + n]
        sc['borrowers'].append({'flavour': rng.choice([None, True, False]), 'table': tbl})
    for n in names + [N]:
        if rng.random() < p_bad / 2:
            sc['put'][str(n)] = False
    return sc


def is_aligned(sc):
    """every file a source returns for name n holds exactly one module, named n, found under alias n
    or under a variant of it that is no module's name (100+n)"""
    for src in sc['sources']:
        for n, a in src.items():
            if isinstance(a, list):
                if a[1] != int(n) and a[1] != 100 + int(n):
                    return False
                p = sc['parse'].get(str(a[3]), 'err')
                if p != 'err':
                    if len(p[1]) != 1:
                        return False
                    s = sc['sym'].get(str(p[1][0]), 'err')
                    if s != 'err' and s[1] != int(n):
                        return False
    return True
