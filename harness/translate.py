"""Translator: regenerates lean/Pysmi/Generated/*.lean from /repo's working tree.

Each generator function returns the text of one Lean file; files are rewritten only when
their bytes change so that lake sees nothing to do on an unchanged tree.
"""
import os
import sys

from common import LEAN, REPO, ensure_repo_on_path

GEN_DIR = os.path.join(LEAN, 'Pysmi', 'Generated')

GENERATORS = []   # (filename, function) registered below


def generator(fname):
    def deco(fn):
        GENERATORS.append((fname, fn))
        return fn
    return deco


def lean_str(s):
    out = ['"']
    for ch in s:
        o = ord(ch)
        if ch == '"':
            out.append('\\"')
        elif ch == '\\':
            out.append('\\\\')
        elif ch == '\n':
            out.append('\\n')
        elif ch == '\t':
            out.append('\\t')
        elif ch == '\r':
            out.append('\\r')
        elif o < 32 or o > 126:
            out.append('\\u{%x}' % o)
        else:
            out.append(ch)
    out.append('"')
    return ''.join(out)


def lean_list(items, per_line=4):
    if not items:
        return '[]'
    lines = []
    for i in range(0, len(items), per_line):
        lines.append('  ' + ', '.join(items[i:i + per_line]))
    return '[\n' + ',\n'.join(lines) + ']'


def write_if_changed(path, text):
    try:
        with open(path) as f:
            if f.read() == text:
                return False
    except FileNotFoundError:
        pass
    os.makedirs(os.path.dirname(path), exist_ok=True)
    with open(path, 'w') as f:
        f.write(text)
    return True


def run():
    ensure_repo_on_path()
    changed = []
    for fname, fn in GENERATORS:
        text = fn()
        if write_if_changed(os.path.join(GEN_DIR, fname), text):
            changed.append(fname)
    return '%d generated files, rewritten: %s' % (len(GENERATORS), ', '.join(changed) or 'none')


if __name__ == '__main__':
    sys.path.insert(0, os.path.dirname(os.path.abspath(__file__)))
    print(run())
