"""Shared plumbing for every check: translate -> build -> audit -> correspondence ->
oracle/search -> known findings -> evidence -> verdict.

Run with /venv/bin/python (pysmi and its dependencies importable); pysmi itself is always
imported from /repo's working tree.
"""
import fcntl
import hashlib
import json
import os
import random
import re
import shutil
import subprocess
import sys
import tempfile
import time

VERIF = os.path.dirname(os.path.dirname(os.path.abspath(__file__)))
LEAN = os.path.join(VERIF, 'lean')
REPO = os.environ.get('VERIF_REPO', '/repo')
HARNESS = os.path.join(VERIF, 'harness')
DRIVER = os.path.join(LEAN, '.lake', 'build', 'bin', 'driver')
CACHE = os.path.join(LEAN, '.lake', 'verif-cache')
PY = sys.executable

ALLOWED_AXIOMS = {'propext', 'Classical.choice', 'Quot.sound'}
FORBIDDEN = re.compile(r'\bsorry\b|\badmit\b|^\s*axiom\s|\bnative_decide\b|\bbv_decide\b|'
                       r'\bimplemented_by\b|\bunsafe\s|maxHeartbeats\s+0\b', re.M)

TRUSTED_BASE = [
    'Lean 4.33.0 kernel; axioms at most propext, Classical.choice, Quot.sound (checked by #print axioms on every run)',
    'Lean compiler/runtime for running the model in the driver executable; Lean.Data.Json glue',
    'harness/translate.py (copies tables from /repo into Generated/*.lean) and the Python correspondence harness (generators, adapters, canonicalisers, oracles)',
    'CPython 3.12, PLY 3.11, Jinja2, pysnmp, zipfile/tempfile/os: not modelled',
    'all of pysmi is modelled by hand (not verified directly); the model is tied to /repo by the correspondence run of this check',
]


def ensure_repo_on_path():
    if REPO not in sys.path:
        sys.path.insert(0, REPO)
    os.environ.setdefault('ETINGOF_PYSMI_VERIF', '1')


class Lock:
    """Serialises translate+build between concurrently running checks."""

    def __enter__(self):
        os.makedirs(os.path.join(LEAN, '.lake'), exist_ok=True)
        self.f = open(os.path.join(LEAN, '.lake', 'verif.lock'), 'w')
        fcntl.flock(self.f, fcntl.LOCK_EX)
        return self

    def __exit__(self, *a):
        fcntl.flock(self.f, fcntl.LOCK_UN)
        self.f.close()


def run(cmd, cwd=None, timeout=None, env=None, input=None):
    e = dict(os.environ)
    if env:
        e.update(env)
    p = subprocess.run(cmd, cwd=cwd, timeout=timeout, env=e, input=input,
                       stdout=subprocess.PIPE, stderr=subprocess.STDOUT, text=True)
    return p.returncode, p.stdout


def strip_lean_comments(src):
    out = []
    i, n, depth = 0, len(src), 0
    while i < n:
        if src.startswith('/-', i):
            depth += 1
            i += 2
        elif depth and src.startswith('-/', i):
            depth -= 1
            i += 2
        elif depth:
            if src[i] == '\n':
                out.append('\n')
            i += 1
        elif src.startswith('--', i):
            while i < n and src[i] != '\n':
                i += 1
        elif src[i] == '"':
            j = i + 1
            while j < n and src[j] != '"':
                j += 2 if src[j] == '\\' else 1
            out.append('""')
            i = j + 1
        else:
            out.append(src[i])
            i += 1
    return ''.join(out)


def lean_sources():
    res = []
    for root, dirs, files in os.walk(LEAN):
        dirs[:] = [d for d in dirs if d != '.lake']
        for f in files:
            if f.endswith('.lean'):
                res.append(os.path.join(root, f))
    return sorted(res)


def sources_hash():
    h = hashlib.sha256()
    for p in lean_sources():
        h.update(p.encode())
        with open(p, 'rb') as f:
            h.update(f.read())
    return h.hexdigest()


def forbidden_scan():
    hits = []
    for p in lean_sources():
        with open(p) as f:
            src = strip_lean_comments(f.read())
        for m in FORBIDDEN.finditer(src):
            line = src.count('\n', 0, m.start()) + 1
            hits.append('%s:%d: %s' % (os.path.relpath(p, LEAN), line, m.group(0).strip()))
    return hits


def lake_build(targets):
    """Build the given lake targets. Returns (ok, log)."""
    rc, out = run(['lake', 'build'] + list(targets), cwd=LEAN, timeout=3000)
    return rc == 0, out


def audit_axioms(modules, theorems):
    """#print axioms for each theorem. Returns {theorem: [axioms] | None (unknown/failed)}."""
    os.makedirs(CACHE, exist_ok=True)
    key = hashlib.sha256((sources_hash() + '|' + ','.join(modules) + '|' + ','.join(theorems)).encode()).hexdigest()
    cpath = os.path.join(CACHE, 'audit-' + key + '.json')
    if os.path.exists(cpath):
        with open(cpath) as f:
            return json.load(f)
    src = ''.join('import %s\n' % m for m in modules) + ''.join('#print axioms %s\n' % t for t in theorems)
    fd, tmp = tempfile.mkstemp(suffix='.lean', dir=CACHE)
    with os.fdopen(fd, 'w') as f:
        f.write(src)
    try:
        rc, out = run(['lake', 'env', 'lean', tmp], cwd=LEAN, timeout=1800)
    finally:
        os.unlink(tmp)
    res = {t: None for t in theorems}
    # messages may wrap over lines
    flat = re.sub(r'\s+', ' ', out)
    for t in theorems:
        m = re.search(r"'%s' depends on axioms: \[([^\]]*)\]" % re.escape(t), flat)
        if m:
            res[t] = [a.strip() for a in m.group(1).split(',') if a.strip()]
        elif re.search(r"'%s' does not depend on any axioms" % re.escape(t), flat):
            res[t] = []
    res['_log'] = out[-4000:] if rc != 0 else ''
    if rc == 0:
        with open(cpath, 'w') as f:
            json.dump(res, f)
    return res


class Model:
    """The compiled Lean model driver behind the line protocol."""

    def __init__(self):
        if not os.path.exists(DRIVER):
            raise RuntimeError('driver not built')

    def batch(self, requests, timeout=1800):
        data = ''.join(json.dumps(r, ensure_ascii=True) + '\n' for r in requests)
        p = subprocess.run([DRIVER], input=data, stdout=subprocess.PIPE, stderr=subprocess.PIPE,
                           text=True, timeout=timeout)
        lines = p.stdout.splitlines()
        if len(lines) != len(requests):
            raise RuntimeError('driver answered %d of %d lines; rc=%s stderr=%s' % (
                len(lines), len(requests), p.returncode, p.stderr[-2000:]))
        return [json.loads(l) for l in lines]


def scratch_dir(prefix='pysmi-verif-'):
    return tempfile.mkdtemp(prefix=prefix)


class Result:
    """Accumulates what one run of one check established."""

    def __init__(self, pid, tier, seed):
        self.pid, self.tier, self.seed = pid, tier, seed
        self.t0 = time.time()
        self.obligations = []       # (name, ok, detail)
        self.evaluations = 0
        self.distinct = set()
        self.rule = ''
        self.samples = []
        self.histogram = {}
        self.corr_failures = []     # correspondence disagreements (model vs implementation)
        self.oracle_failures = []   # property violations seen on the implementation
        self.known_printed = []
        self.notes = []
        self.extra = {}

    def oblige(self, name, ok, detail=''):
        self.obligations.append((name, bool(ok), detail))

    def count(self, key, n=1):
        self.histogram[key] = self.histogram.get(key, 0) + n

    def case(self, fingerprint, nontrivial=True):
        self.evaluations += 1
        if nontrivial:
            self.distinct.add(hashlib.sha1(repr(fingerprint).encode()).hexdigest()[:16])

    def sample(self, s, limit=4):
        if len(self.samples) < limit:
            self.samples.append(s)


def load_known_findings(pid):
    p = os.path.join(VERIF, 'known_findings.json')
    if not os.path.exists(p):
        return []
    with open(p) as f:
        data = json.load(f)
    return [e for e in data.get('findings', []) if e.get('property') == pid]


def write_replay(pid, payload):
    d = os.path.join(VERIF, 'replays')
    os.makedirs(d, exist_ok=True)
    h = hashlib.sha1(json.dumps(payload, sort_keys=True, default=str).encode()).hexdigest()[:10]
    p = os.path.join(d, '%s-%s.json' % (pid, h))
    with open(p, 'w') as f:
        json.dump(payload, f, indent=1, default=str)
    return os.path.relpath(p, VERIF)


def write_evidence(res, level, theorems, checker_cmd, assumptions, violations):
    cov = {
        'obligations': len(res.obligations),
        'discharged': sum(1 for o in res.obligations if o[1]),
        'checker_cmd': checker_cmd,
        'trusted_base': TRUSTED_BASE,
        'evaluations': res.evaluations,
        'distinct_nontrivial': len(res.distinct),
        'rule': res.rule,
        'samples': res.samples or ['(none)'],
        'theorems': theorems,
        'obligation_list': [{'name': n, 'ok': ok, 'detail': d} for n, ok, d in res.obligations],
        'input_distribution': res.histogram,
        'correspondence_disagreements': len(res.corr_failures),
        'oracle_failures': len(res.oracle_failures),
        'known_findings_printed': res.known_printed,
        'notes': res.notes,
    }
    cov.update(res.extra)
    ev = {
        'property_id': res.pid,
        'tier': res.tier,
        'seed': res.seed,
        'level': level,
        'coverage': cov,
        'assumptions': assumptions,
        'wall_s': round(time.time() - res.t0, 2),
        'violations': violations,
    }
    d = os.path.join(VERIF, 'evidence')
    os.makedirs(d, exist_ok=True)
    with open(os.path.join(d, res.pid + '.json'), 'w') as f:
        json.dump(ev, f, indent=1, default=str)
