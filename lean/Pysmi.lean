import Pysmi.Model.Index
import Pysmi.Lemmas.Index
import Pysmi.Lemmas.DotPrefix
import Pysmi.Props.C18
