import Pysmi.Model.Py
/-! Lemmas about the insertion-ordered dict model. -/
namespace Pysmi.AList
variable {κ ν : Type} [DecidableEq κ]

@[simp] theorem keys_nil : keys ([] : AList κ ν) = [] := rfl
@[simp] theorem keys_cons (k : κ) (v : ν) (d : AList κ ν) : keys ((k, v) :: d) = k :: keys d := rfl

theorem get?_set_eq (d : AList κ ν) (k : κ) (v : ν) : (d.set k v).get? k = some v := by
  induction d with
  | nil => simp [set, get?]
  | cons e rest ih =>
    obtain ⟨k', v'⟩ := e
    unfold set
    by_cases h : k' = k
    · simp [h, get?]
    · simp [h, get?, ih]

theorem get?_set_ne (d : AList κ ν) (k k0 : κ) (v : ν) (h : k ≠ k0) :
    (d.set k v).get? k0 = d.get? k0 := by
  induction d with
  | nil => simp [set, get?, h]
  | cons e rest ih =>
    obtain ⟨k', v'⟩ := e
    unfold set
    by_cases hk : k' = k
    · subst hk; simp [get?, h]
    · simp only [hk, if_false, get?, ih]

theorem mem_keys_set (d : AList κ ν) (k x : κ) (v : ν) :
    x ∈ (d.set k v).keys ↔ x = k ∨ x ∈ d.keys := by
  induction d with
  | nil => simp [set, keys]
  | cons e rest ih =>
    obtain ⟨k', v'⟩ := e
    unfold set
    by_cases hk : k' = k
    · subst hk; simp only [if_true, keys_cons, List.mem_cons]
      constructor
      · rintro (h | h)
        · exact Or.inl h
        · exact Or.inr (Or.inr h)
      · rintro (h | h | h)
        · exact Or.inl h
        · exact Or.inl h
        · exact Or.inr h
    · simp only [hk, if_false, keys_cons, List.mem_cons, ih]
      constructor
      · rintro (h | h | h)
        · exact Or.inr (Or.inl h)
        · exact Or.inl h
        · exact Or.inr (Or.inr h)
      · rintro (h | h | h)
        · exact Or.inr (Or.inl h)
        · exact Or.inl h
        · exact Or.inr (Or.inr h)

theorem nodup_keys_set (d : AList κ ν) (k : κ) (v : ν) (h : d.keys.Nodup) : (d.set k v).keys.Nodup := by
  induction d with
  | nil => simp [set, keys]
  | cons e rest ih =>
    obtain ⟨k', v'⟩ := e
    simp only [keys_cons, List.nodup_cons] at h
    unfold set
    by_cases hk : k' = k
    · simp only [hk, if_true, keys_cons, List.nodup_cons]; rw [← hk]; exact h
    · simp only [hk, if_false, keys_cons, List.nodup_cons]
      refine ⟨?_, ih h.2⟩
      intro hm
      rcases (mem_keys_set rest k k' v).mp hm with h1 | h1
      · exact hk h1
      · exact h.1 h1

theorem mem_keys_del (d : AList κ ν) (k x : κ) (h : x ∈ (d.del k).keys) : x ∈ d.keys := by
  induction d with
  | nil => exact h
  | cons e rest ih =>
    obtain ⟨k', v'⟩ := e
    unfold del at h
    by_cases hk : k' = k
    · simp only [hk, if_true] at h; simp [h]
    · simp only [hk, if_false, keys_cons, List.mem_cons] at h ⊢
      rcases h with h | h
      · exact Or.inl h
      · exact Or.inr (ih h)

theorem nodup_keys_del (d : AList κ ν) (k : κ) (h : d.keys.Nodup) : (d.del k).keys.Nodup := by
  induction d with
  | nil => simp [del, keys]
  | cons e rest ih =>
    obtain ⟨k', v'⟩ := e
    simp only [keys_cons, List.nodup_cons] at h
    unfold del
    by_cases hk : k' = k
    · simp only [hk, if_true]; exact h.2
    · simp only [hk, if_false, keys_cons, List.nodup_cons]
      exact ⟨fun hm => h.1 (mem_keys_del rest k k' hm), ih h.2⟩

theorem get?_del_ne (d : AList κ ν) (k k0 : κ) (h : k ≠ k0) : (d.del k).get? k0 = d.get? k0 := by
  induction d with
  | nil => rfl
  | cons e rest ih =>
    obtain ⟨k', v'⟩ := e
    unfold del
    by_cases hk : k' = k
    · subst hk; simp [get?, h]
    · simp only [hk, if_false, get?, ih]

theorem get?_eq_none_iff (d : AList κ ν) (k : κ) : d.get? k = none ↔ k ∉ d.keys := by
  induction d with
  | nil => simp [get?, keys]
  | cons e rest ih =>
    obtain ⟨k', v'⟩ := e
    by_cases hk : k' = k
    · simp [get?, hk]
    · simp only [get?, hk, if_false, ih, keys_cons, List.mem_cons, not_or]
      constructor
      · intro h; exact ⟨fun h' => hk h'.symm, h⟩
      · intro h; exact h.2

/-- values stored satisfy `P` -/
def All (P : ν → Prop) (d : AList κ ν) : Prop := ∀ e ∈ d, P e.2

theorem all_set {P : ν → Prop} (d : AList κ ν) (k : κ) (v : ν) (h : All P d) (hv : P v) : All P (d.set k v) := by
  induction d with
  | nil => intro e he; simp [set] at he; subst he; exact hv
  | cons e rest ih =>
    obtain ⟨k', v'⟩ := e
    unfold set
    by_cases hk : k' = k
    · simp only [hk, if_true]
      intro e he
      rcases List.mem_cons.mp he with he | he
      · subst he; exact hv
      · exact h e (List.mem_cons_of_mem _ he)
    · simp only [hk, if_false]
      intro e he
      rcases List.mem_cons.mp he with he | he
      · subst he; exact h (k', v') (by simp)
      · exact ih (fun e he => h e (List.mem_cons_of_mem _ he)) e he

theorem mem_del (d : AList κ ν) (k : κ) (e : κ × ν) (h : e ∈ d.del k) : e ∈ d := by
  induction d with
  | nil => exact h
  | cons e' rest ih =>
    obtain ⟨k', v'⟩ := e'
    unfold del at h
    by_cases hk : k' = k
    · simp only [hk, if_true] at h; exact List.mem_cons_of_mem _ h
    · simp only [hk, if_false] at h
      rcases List.mem_cons.mp h with h | h
      · subst h; simp
      · exact List.mem_cons_of_mem _ (ih h)

theorem all_del {P : ν → Prop} (d : AList κ ν) (k : κ) (h : All P d) : All P (d.del k) :=
  fun e he => h e (mem_del d k e he)

end Pysmi.AList
