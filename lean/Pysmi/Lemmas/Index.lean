import Pysmi.Model.Index
/-! Helper lemmas for `Props/C18.lean`. -/
namespace Pysmi.Index
set_option linter.unusedSectionVars false

variable {κ μ : Type} [DecidableEq κ] [DecidableEq μ]

/-- module `m` is listed under key `k` -/
def Listed (d : List (κ × List μ)) (m : μ) (k : κ) : Prop :=
  ∃ mods, (k, mods) ∈ d ∧ m ∈ mods

/-- some key related to `o` by `pref` lists `m` -/
def Covers (pref : κ → κ → Bool) (d : List (κ × List μ)) (m : μ) (o : κ) : Prop :=
  ∃ k, pref k o = true ∧ Listed d m k

/-! #### appendAt -/

theorem appendAt_self (d : List (κ × List μ)) (k : κ) (m : μ) : Listed (appendAt d k m) m k := by
  induction d with
  | nil => exact ⟨[m], by simp [appendAt], by simp⟩
  | cons e rest ih =>
    obtain ⟨k', v⟩ := e
    unfold appendAt
    by_cases h : k' = k
    · subst h; simp only [if_true]; exact ⟨v ++ [m], by simp, by simp⟩
    · simp only [h, if_false]
      obtain ⟨mods, h1, h2⟩ := ih
      exact ⟨mods, List.mem_cons_of_mem _ h1, h2⟩

theorem appendAt_mono (d : List (κ × List μ)) (k : κ) (m : μ) {k0 : κ} {mods : List μ}
    (h : (k0, mods) ∈ d) : ∃ mods', (k0, mods') ∈ appendAt d k m ∧ ∀ x ∈ mods, x ∈ mods' := by
  induction d with
  | nil => cases h
  | cons e rest ih =>
    obtain ⟨k', v⟩ := e
    unfold appendAt
    by_cases hk : k' = k
    · simp only [hk, if_true]
      rcases List.mem_cons.mp h with h | h
      · injection h with h1 h2; subst h1 h2
        exact ⟨mods ++ [m], by simp [hk], fun x hx => by simp [hx]⟩
      · exact ⟨mods, List.mem_cons_of_mem _ h, fun x hx => hx⟩
    · simp only [hk, if_false]
      rcases List.mem_cons.mp h with h | h
      · exact ⟨mods, by rw [h]; simp, fun x hx => hx⟩
      · obtain ⟨mods', h1, h2⟩ := ih h
        exact ⟨mods', List.mem_cons_of_mem _ h1, h2⟩

/-- an entry of `appendAt d k m` lists `x` under `k0` only if `d` did, or it is the new pair -/
theorem appendAt_inv (d : List (κ × List μ)) (k : κ) (m : μ) {k0 : κ} {x : μ}
    (h : Listed (appendAt d k m) x k0) : Listed d x k0 ∨ (x = m ∧ k0 = k) := by
  induction d with
  | nil =>
    obtain ⟨mods, h1, h2⟩ := h
    simp [appendAt] at h1
    obtain ⟨rfl, rfl⟩ := h1
    simp at h2; exact Or.inr ⟨h2, rfl⟩
  | cons e rest ih =>
    obtain ⟨k', v⟩ := e
    obtain ⟨mods, h1, h2⟩ := h
    unfold appendAt at h1
    by_cases hk : k' = k
    · simp only [hk, if_true] at h1
      rcases List.mem_cons.mp h1 with h1 | h1
      · injection h1 with ha hb; subst ha hb
        rcases List.mem_append.mp h2 with h2 | h2
        · exact Or.inl ⟨v, by simp [hk], h2⟩
        · simp at h2; exact Or.inr ⟨h2, rfl⟩
      · exact Or.inl ⟨mods, List.mem_cons_of_mem _ h1, h2⟩
    · simp only [hk, if_false] at h1
      rcases List.mem_cons.mp h1 with h1 | h1
      · exact Or.inl ⟨mods, by rw [h1]; simp, h2⟩
      · rcases ih ⟨mods, h1, h2⟩ with h | h
        · obtain ⟨mods', h3, h4⟩ := h
          exact Or.inl ⟨mods', List.mem_cons_of_mem _ h3, h4⟩
        · exact Or.inr h

theorem listed_appendAt_mono {d : List (κ × List μ)} {x : μ} {k0 : κ} (k : κ) (m : μ)
    (h : Listed d x k0) : Listed (appendAt d k m) x k0 := by
  obtain ⟨mods, h1, h2⟩ := h
  obtain ⟨mods', h3, h4⟩ := appendAt_mono d k m h1
  exact ⟨mods', h3, h4 x h2⟩

/-! #### addAll / addOpt -/

theorem listed_addAll_mono (ks : List κ) (m : μ) {d : List (κ × List μ)} {x : μ} {k0 : κ}
    (h : Listed d x k0) : Listed (addAll d ks m) x k0 := by
  induction ks generalizing d with
  | nil => exact h
  | cons k ks ih => exact ih (listed_appendAt_mono k m h)

theorem listed_addAll_self (ks : List κ) (m : μ) (d : List (κ × List μ)) {k : κ} (hk : k ∈ ks) :
    Listed (addAll d ks m) m k := by
  induction ks generalizing d with
  | nil => cases hk
  | cons k' ks ih =>
    rcases List.mem_cons.mp hk with h | h
    · subst h; exact listed_addAll_mono ks m (appendAt_self d k m)
    · exact ih _ h

theorem listed_addAll_inv (ks : List κ) (m : μ) {d : List (κ × List μ)} {x : μ} {k0 : κ}
    (h : Listed (addAll d ks m) x k0) : Listed d x k0 ∨ (x = m ∧ k0 ∈ ks) := by
  induction ks generalizing d with
  | nil => exact Or.inl h
  | cons k ks ih =>
    rcases ih (d := appendAt d k m) h with h | ⟨h1, h2⟩
    · rcases appendAt_inv d k m h with h | ⟨h1, h2⟩
      · exact Or.inl h
      · exact Or.inr ⟨h1, by simp [h2]⟩
    · exact Or.inr ⟨h1, List.mem_cons_of_mem _ h2⟩

theorem listed_addOpt_mono (k : Option κ) (m : μ) {d : List (κ × List μ)} {x : μ} {k0 : κ}
    (h : Listed d x k0) : Listed (addOpt d k m) x k0 := by
  cases k with
  | none => exact h
  | some k => exact listed_appendAt_mono k m h

theorem listed_addOpt_inv (k : Option κ) (m : μ) {d : List (κ × List μ)} {x : μ} {k0 : κ}
    (h : Listed (addOpt d k m) x k0) : Listed d x k0 ∨ (x = m ∧ k = some k0) := by
  cases k with
  | none => exact Or.inl h
  | some k =>
    rcases appendAt_inv d k m h with h | ⟨h1, h2⟩
    · exact Or.inl h
    · exact Or.inr ⟨h1, by rw [h2]⟩

/-! #### sortByKey is a rearrangement -/

theorem mem_insertByKey {α} (key : α → Nat) (x y : α) (l : List α) :
    y ∈ insertByKey key x l ↔ y = x ∨ y ∈ l := by
  induction l with
  | nil => simp [insertByKey]
  | cons z zs ih =>
    unfold insertByKey
    split
    · simp
    · simp only [List.mem_cons, ih]
      constructor
      · rintro (h | h | h)
        · exact Or.inr (Or.inl h)
        · exact Or.inl h
        · exact Or.inr (Or.inr h)
      · rintro (h | h | h)
        · exact Or.inr (Or.inl h)
        · exact Or.inl h
        · exact Or.inr (Or.inr h)

theorem mem_foldl_insert {α} (key : α → Nat) (xs acc : List α) (y : α) :
    y ∈ xs.foldl (fun acc x => insertByKey key x acc) acc ↔ y ∈ acc ∨ y ∈ xs := by
  induction xs generalizing acc with
  | nil => simp
  | cons x xs ih =>
    simp only [List.foldl_cons, ih, mem_insertByKey, List.mem_cons]
    constructor
    · rintro ((h | h) | h)
      · exact Or.inr (Or.inl h)
      · exact Or.inl h
      · exact Or.inr (Or.inr h)
    · rintro (h | h | h)
      · exact Or.inl (Or.inr h)
      · exact Or.inl (Or.inl h)
      · exact Or.inr h

theorem mem_sortByKey {α} (key : α → Nat) (xs : List α) (y : α) :
    y ∈ sortByKey key xs ↔ y ∈ xs := by
  unfold sortByKey
  rw [mem_foldl_insert]; simp

/-! #### compaction -/

theorem compactStep_mono (pref : κ → κ → Bool) (up : List (κ × List μ)) (e x : κ × List μ)
    (h : x ∈ up) : x ∈ compactStep pref up e := by
  unfold compactStep; split
  · exact h
  · exact List.mem_append_left _ h

theorem foldl_compact_mono (pref : κ → κ → Bool) (l up : List (κ × List μ)) (x : κ × List μ)
    (h : x ∈ up) : x ∈ l.foldl (compactStep pref) up := by
  induction l generalizing up with
  | nil => exact h
  | cons e l ih => exact ih _ (compactStep_mono pref up e x h)

theorem foldl_compact_sub (pref : κ → κ → Bool) (l up : List (κ × List μ)) (x : κ × List μ)
    (h : x ∈ l.foldl (compactStep pref) up) : x ∈ up ∨ x ∈ l := by
  induction l generalizing up with
  | nil => exact Or.inl h
  | cons e l ih =>
    rcases ih _ h with h | h
    · unfold compactStep at h
      split at h
      · exact Or.inl h
      · rcases List.mem_append.mp h with h | h
        · exact Or.inl h
        · simp at h; exact Or.inr (by simp [h])
    · exact Or.inr (List.mem_cons_of_mem _ h)

theorem superset_spec (a b : List μ) : superset a b = true ↔ ∀ x ∈ b, x ∈ a := by
  simp [superset]

/-- every entry offered to the compaction loop is dominated by an entry that survives -/
theorem foldl_compact_dominates (pref : κ → κ → Bool) (hrefl : ∀ a, pref a a = true)
    (l up : List (κ × List μ)) (k : κ) (mods : List μ) (h : (k, mods) ∈ up ∨ (k, mods) ∈ l) :
    ∃ p pm, (p, pm) ∈ l.foldl (compactStep pref) up ∧ pref p k = true ∧ ∀ x ∈ mods, x ∈ pm := by
  induction l generalizing up with
  | nil =>
    rcases h with h | h
    · exact ⟨k, mods, h, hrefl k, fun x hx => hx⟩
    · cases h
  | cons e l ih =>
    simp only [List.foldl_cons]
    rcases h with h | h
    · exact ih _ (Or.inl (compactStep_mono pref up e _ h))
    · rcases List.mem_cons.mp h with h | h
      · subst h
        by_cases hc : covered pref up k mods = true
        · unfold covered at hc
          obtain ⟨⟨p, pm⟩, hp1, hp2⟩ := List.any_eq_true.mp hc
          simp only [Bool.and_eq_true] at hp2
          refine ⟨p, pm, ?_, hp2.1, (superset_spec pm mods).mp hp2.2⟩
          exact foldl_compact_mono pref l _ _ (compactStep_mono pref up _ _ hp1)
        · apply ih; left
          unfold compactStep
          simp only [hc]
          simp
      · exact ih _ (Or.inr h)

theorem compact_dominates (pref : κ → κ → Bool) (depth : κ → Nat) (hrefl : ∀ a, pref a a = true)
    (d : List (κ × List μ)) (k : κ) (mods : List μ) (h : (k, mods) ∈ d) :
    ∃ p pm, (p, pm) ∈ compact pref depth d ∧ pref p k = true ∧ ∀ x ∈ mods, x ∈ pm := by
  unfold compact
  apply foldl_compact_dominates pref hrefl
  right; exact (mem_sortByKey _ _ _).mpr h

theorem compact_sub (pref : κ → κ → Bool) (depth : κ → Nat) (d : List (κ × List μ))
    (x : κ × List μ) (h : x ∈ compact pref depth d) : x ∈ d := by
  unfold compact at h
  rcases foldl_compact_sub pref _ _ x h with h | h
  · cases h
  · exact (mem_sortByKey _ _ _).mp h

theorem covers_compact (pref : κ → κ → Bool) (depth : κ → Nat) (hrefl : ∀ a, pref a a = true)
    (htrans : ∀ a b c, pref a b = true → pref b c = true → pref a c = true)
    (d : List (κ × List μ)) (m : μ) (o : κ) (h : Covers pref d m o) :
    Covers pref (compact pref depth d) m o := by
  obtain ⟨k, hk, mods, h1, h2⟩ := h
  obtain ⟨p, pm, h3, h4, h5⟩ := compact_dominates pref depth hrefl d k mods h1
  exact ⟨p, htrans _ _ _ h4 hk, pm, h3, h5 m h2⟩

theorem listed_compact_inv (pref : κ → κ → Bool) (depth : κ → Nat) (d : List (κ × List μ))
    (m : μ) (k : κ) (h : Listed (compact pref depth d) m k) : Listed d m k := by
  obtain ⟨mods, h1, h2⟩ := h
  exact ⟨mods, compact_sub pref depth d _ h1, h2⟩

theorem covers_compactOids (pref : κ → κ → Bool) (depth : κ → Nat) (hrefl : ∀ a, pref a a = true)
    (htrans : ∀ a b c, pref a b = true → pref b c = true → pref a c = true)
    (d : List (κ × List μ)) (m : μ) (o : κ) (h : Covers pref d m o) :
    Covers pref (compactOids pref depth d) m o := by
  unfold compactOids
  split
  · exact h
  · exact covers_compact pref depth hrefl htrans d m o h

theorem listed_compactOids_inv (pref : κ → κ → Bool) (depth : κ → Nat)
    (d : List (κ × List μ)) (m : μ) (k : κ)
    (h : Listed (compactOids pref depth d) m k) : Listed d m k := by
  unfold compactOids at h
  split at h
  · exact h
  · exact listed_compact_inv pref depth d m k h

end Pysmi.Index
