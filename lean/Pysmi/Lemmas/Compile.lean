import Pysmi.Model.Compile
import Pysmi.Lemmas.AList
/-! Invariants of the `compile` model that several properties share. -/
namespace Pysmi.Compile
open Pysmi

def Call.isPut : Call → Bool
  | .put _ _ _ => true
  | _ => false

/-- a `failed` entry carries its causing error -/
def EntryOK (e : Entry) : Prop := e.st = .failed → e.err.isSome = true

/-- what holds in every state the model reaches before the gate -/
structure Inv (s : St) : Prop where
  noPut : ∀ x ∈ s.trace, x.isPut = false
  procNodup : s.processed.keys.Nodup
  procOK : AList.All EntryOK s.processed
  builtNodup : s.built.keys.Nodup

theorem inv_init (req : List Name) : Inv ({ queue := req } : St) :=
  ⟨by simp, by simp [AList.keys], (fun e he => by cases he), by simp [AList.keys]⟩

theorem inv_log {s : St} {c : Call} (hc : c.isPut = false) (h : Inv s) : Inv (s.log c) := by
  refine ⟨?_, h.procNodup, h.procOK, h.builtNodup⟩
  intro x hx
  simp only [St.log, List.mem_append, List.mem_singleton] at hx
  rcases hx with hx | hx
  · exact h.noPut x hx
  · rw [hx]; exact hc

theorem inv_appendTrace {s : St} {t : List Call} (ht : ∀ x ∈ t, x.isPut = false) (h : Inv s) :
    Inv { s with trace := s.trace ++ t } := by
  refine ⟨?_, h.procNodup, h.procOK, h.builtNodup⟩
  intro x hx
  simp only [List.mem_append] at hx
  rcases hx with hx | hx
  · exact h.noPut x hx
  · exact ht x hx

theorem inv_failSource {s : St} (n : Name) (e : Err) (h : Inv s) : Inv (failSource s n e) := by
  unfold failSource
  exact ⟨h.noPut, AList.nodup_keys_set _ _ _ h.procNodup,
    AList.all_set _ _ _ h.procOK (by intro _; rfl), h.builtNodup⟩

theorem inv_clearStale {s : St} (k : Name) (h : Inv s) : Inv (clearStale s k) := by
  unfold clearStale
  split
  · exact ⟨h.noPut, AList.nodup_keys_del _ _ h.procNodup, AList.all_del _ _ h.procOK, h.builtNodup⟩
  · exact h

theorem inv_registerTree {s : St} (req : List Name) (n alias : Name) (mtime : Int) (tree : Nat)
    (name : Name) (imports : List Name) (h : Inv s) :
    Inv (registerTree req s n alias mtime tree name imports) := by
  unfold registerTree
  simp only
  have h0 : Inv ({ s with parsed := s.parsed.set name (alias, mtime, tree) } : St) := ⟨h.noPut, h.procNodup, h.procOK, h.builtNodup⟩
  have h1 := inv_clearStale name (inv_clearStale n h0)
  split <;> exact ⟨h1.noPut, h1.procNodup, h1.procOK, h1.builtNodup⟩

theorem inv_symTrees (c : Cfg) (req : List Name) (n alias : Name) (mtime : Int) (ts : List Nat)
    (s : St) (h : Inv s) : Inv (symTrees c req n alias mtime ts s).1 := by
  induction ts generalizing s with
  | nil => exact h
  | cons t ts ih =>
    unfold symTrees
    simp only
    have h1 : Inv (s.log (.sym t)) := inv_log rfl h
    split
    · exact h1
    · exact ih _ (inv_registerTree req n alias mtime t _ _ h1)

theorem inv_trySources (c : Cfg) (req : List Name) (n : Name) (srcs : List (Name → SrcAns)) (i : Nat)
    (s : St) (h : Inv s) : Inv (trySources c req n srcs i s) := by
  induction srcs generalizing i s with
  | nil =>
    unfold trySources
    simp only
    split <;> split <;>
      first
      | exact ⟨h.noPut, h.procNodup, h.procOK, h.builtNodup⟩
      | exact ⟨h.noPut, AList.nodup_keys_set _ _ _ h.procNodup,
          AList.all_set _ _ _ h.procOK (by intro hh; cases hh), h.builtNodup⟩
  | cons src rest ih =>
    unfold trySources
    simp only
    have h1 : Inv (s.log (.get i n)) := inv_log rfl h
    split
    · exact ih _ _ h1
    · exact ih _ _ (inv_failSource _ _ h1)
    · rename_i alias mtime text _
      have h2 : Inv ((s.log (.get i n)).log (.parse text)) := inv_log rfl h1
      split
      · exact ih _ _ (inv_failSource _ _ h2)
      · exact ih _ _ (inv_failSource _ _ h2)
      · rename_i ts _ _
        split
        · rename_i hst
          have := inv_symTrees c req n alias mtime ts _ h2
          rw [hst] at this
          exact ih _ _ (inv_failSource _ _ this)
        · rename_i hst
          have := inv_symTrees c req n alias mtime ts _ h2
          rw [hst] at this
          exact this

theorem inv_discoverStep (c : Cfg) (req : List Name) (n : Name) (s : St) (h : Inv s) :
    Inv (discoverStep c req n s) := by
  unfold discoverStep
  split
  · exact h
  · split
    · exact h
    · split
      · exact h
      · exact inv_trySources c req n _ _ _ ⟨h.noPut, h.procNodup, h.procOK, h.builtNodup⟩

theorem inv_discover (c : Cfg) (req : List Name) (fuel : Nat) (s s' : St) (h : Inv s)
    (hd : discover c req fuel s = some s') : Inv s' := by
  induction fuel generalizing s with
  | zero => simp [discover] at hd
  | succ fuel ih =>
    unfold discover at hd
    split at hd
    · injection hd with hd; rw [← hd]; exact h
    · refine ih _ (inv_discoverStep c req _ _ ?_) hd
      exact ⟨h.noPut, h.procNodup, h.procOK, h.builtNodup⟩

/-! #### searcher loop -/

theorem searchLoop_noPut (n : Name) (mtime : Int) (rebuild : Bool)
    (srs : List (Name → Int → Bool → SearchAns)) (i : Nat) :
    ∀ x ∈ (searchLoop n mtime rebuild srs i).2, x.isPut = false := by
  induction srs generalizing i with
  | nil => simp [searchLoop]
  | cons sr rest ih =>
    unfold searchLoop
    split
    · simp [Call.isPut]
    · intro x hx
      simp only [List.mem_cons] at hx
      rcases hx with hx | hx
      · rw [hx]; rfl
      · exact ih _ x hx

theorem borrowLoop_noPut (n : Name) (g : Bool) (bs : List (Name → Bool → BorrowAns)) (i : Nat) :
    ∀ x ∈ (borrowLoop n g bs i).2, x.isPut = false := by
  induction bs generalizing i with
  | nil => simp [borrowLoop]
  | cons b rest ih =>
    unfold borrowLoop
    split
    · simp [Call.isPut]
    · intro x hx
      simp only [List.mem_cons] at hx
      rcases hx with hx | hx
      · rw [hx]; rfl
      · exact ih _ x hx

/-! #### phases 2–5 -/

theorem foldl_inv {α} (f : St → α → St) (hf : ∀ s a, Inv s → Inv (f s a)) (l : List α) (s : St)
    (h : Inv s) : Inv (l.foldl f s) := by
  induction l generalizing s with
  | nil => exact h
  | cons a l ih => exact ih _ (hf s a h)

theorem inv_needStep (c : Cfg) (o : Opts) (s : St) (n : Name) (h : Inv s) : Inv (needStep c o s n) := by
  unfold needStep
  split
  · exact h
  · rename_i a mtime t _
    simp only
    have h1 := inv_appendTrace (searchLoop_noPut n mtime o.rebuild c.searchers 0) h
    split
    · exact ⟨h1.noPut, AList.nodup_keys_set _ _ _ h1.procNodup,
        AList.all_set _ _ _ h1.procOK (by intro hh; cases hh), h1.builtNodup⟩
    · split
      · exact ⟨h1.noPut, AList.nodup_keys_set _ _ _ h1.procNodup,
          AList.all_set _ _ _ h1.procOK (by intro hh; cases hh), h1.builtNodup⟩
      · exact h1

theorem inv_genStep (c : Cfg) (o : Opts) (s : St) (n : Name) (h : Inv s) : Inv (genStep c o s n) := by
  unfold genStep
  split
  · exact h
  · rename_i a mtime t _
    simp only
    have h1 : Inv (s.log (.gen t o.genTexts)) := inv_log rfl h
    split
    · exact ⟨h1.noPut, h1.procNodup, h1.procOK, AList.nodup_keys_set _ _ _ h1.builtNodup⟩
    · exact ⟨h1.noPut, AList.nodup_keys_set _ _ _ h1.procNodup,
        AList.all_set _ _ _ h1.procOK (by intro _; rfl), h1.builtNodup⟩

theorem inv_borrowStep (c : Cfg) (req : List Name) (o : Opts) (s : St) (n : Name) (h : Inv s) :
    Inv (borrowStep c req o s n) := by
  unfold borrowStep
  split
  · exact h
  · simp only
    have h1 := inv_appendTrace (borrowLoop_noPut n o.genTexts c.borrowers 0) h
    split
    · exact ⟨h1.noPut, h1.procNodup, h1.procOK, h1.builtNodup⟩
    · exact h1

theorem inv_needBorrowStep (c : Cfg) (req : List Name) (o : Opts) (s : St) (n : Name) (h : Inv s) :
    Inv (needBorrowStep c req o s n) := by
  unfold needBorrowStep
  split
  · exact h
  · rename_i a mtime t _
    simp only
    have h1 := inv_appendTrace (searchLoop_noPut n mtime o.rebuild c.searchers 0) h
    split
    · exact ⟨h1.noPut, AList.nodup_keys_set _ _ _ h1.procNodup,
        AList.all_set _ _ _ h1.procOK (by intro hh; cases hh), h1.builtNodup⟩
    · split
      · exact ⟨h1.noPut, AList.nodup_keys_set _ _ _ h1.procNodup,
          AList.all_set _ _ _ h1.procOK (by intro hh; cases hh), h1.builtNodup⟩
      · exact ⟨h1.noPut, AList.nodup_keys_set _ _ _ h1.procNodup,
          AList.all_set _ _ _ h1.procOK (by intro hh; cases hh), AList.nodup_keys_set _ _ _ h1.builtNodup⟩

/-- **the state at the gate satisfies the invariant**, for every configuration -/
theorem inv_beforeGate (c : Cfg) (req : List Name) (o : Opts) (fuel : Nat) (s : St)
    (h : beforeGate c req o fuel = some s) : Inv s := by
  unfold beforeGate at h
  cases hd : discover c req fuel { queue := req } with
  | none => simp [hd] at h
  | some s0 =>
    simp only [hd, Option.map_some, Option.some.injEq] at h
    rw [← h]
    have h0 := inv_discover c req fuel _ s0 (inv_init req) hd
    unfold phaseNeedBorrow phaseBorrow phaseGen phaseNeed
    apply foldl_inv _ (fun s a => inv_needBorrowStep c req o s a)
    apply foldl_inv _ (fun s a => inv_borrowStep c req o s a)
    apply foldl_inv _ (fun s a => inv_genStep c o s a)
    apply foldl_inv _ (fun s a => inv_needStep c o s a)
    exact h0

end Pysmi.Compile
