import Pysmi.Model.Index
/-! `oid == p or oid.startswith(p + '.')` is exactly the component-wise prefix relation
on `split('.')`, for *all* strings (no well-formedness needed). -/
namespace Pysmi.Index

theorem startsWith_nil (s : Str) : startsWith s [] = true := by
  cases s <;> rfl

theorem dotPrefix_nil_left (o : Str) :
    dotPrefix [] o = true ↔ (o = [] ∨ ∃ o', o = '.' :: o') := by
  unfold dotPrefix
  cases o with
  | nil => simp
  | cons d o' =>
    simp only [List.nil_append, startsWith, startsWith_nil, Bool.and_true]
    simp

theorem dotPrefix_cons_nil (c : Char) (p : Str) : dotPrefix (c :: p) [] = false := by
  simp [dotPrefix, startsWith]

theorem dotPrefix_cons_cons (c d : Char) (p o : Str) :
    dotPrefix (c :: p) (d :: o) = true ↔ (d = c ∧ dotPrefix p o = true) := by
  simp only [dotPrefix, List.cons_append, startsWith, Bool.or_eq_true, Bool.and_eq_true,
    decide_eq_true_eq, List.cons.injEq, beq_iff_eq]
  constructor
  · rintro (⟨h1, h2⟩ | ⟨h1, h2⟩)
    · exact ⟨h1, Or.inl h2⟩
    · exact ⟨h1, Or.inr h2⟩
  · rintro ⟨h1, h2 | h2⟩
    · exact Or.inl ⟨h1, h2⟩
    · exact Or.inr ⟨h1, h2⟩

theorem dotPrefix_iff (p o : Str) : dotPrefix p o = true ↔ splitDot p <+: splitDot o := by
  induction p generalizing o with
  | nil =>
    rw [dotPrefix_nil_left]
    cases o with
    | nil => simp [splitDot, splitDotAux]
    | cons d o' =>
      by_cases hd : d = '.'
      · subst hd
        simp [splitDot, splitDotAux, List.cons_prefix_cons]
      · simp [splitDot, splitDotAux, hd, List.cons_prefix_cons]
  | cons c p ih =>
    cases o with
    | nil =>
      rw [dotPrefix_cons_nil]
      by_cases hc : c = '.'
      · simp [splitDot, splitDotAux, hc, List.cons_prefix_cons]
      · simp [splitDot, splitDotAux, hc, List.cons_prefix_cons]
    | cons d o =>
      rw [dotPrefix_cons_cons, ih o]
      by_cases hc : c = '.' <;> by_cases hd : d = '.'
      · subst hc hd
        simp [splitDot, splitDotAux, List.cons_prefix_cons]
      · subst hc
        simp [splitDot, splitDotAux, hd, List.cons_prefix_cons]
      · subst hd
        have : ¬ ('.' = c) := fun h => hc h.symm
        simp [splitDot, splitDotAux, hc, this, List.cons_prefix_cons]
      · simp only [splitDot, splitDotAux, hc, hd, if_false, List.cons_prefix_cons, List.cons.injEq]
        constructor
        · rintro ⟨h1, h2, h3⟩; exact ⟨⟨h1.symm, h2⟩, h3⟩
        · rintro ⟨⟨h1, h2⟩, h3⟩; exact ⟨h1.symm, h2, h3⟩

theorem dotPrefix_refl (a : Str) : dotPrefix a a = true :=
  (dotPrefix_iff a a).mpr (List.prefix_refl _)

theorem dotPrefix_trans (a b c : Str) (h1 : dotPrefix a b = true) (h2 : dotPrefix b c = true) :
    dotPrefix a c = true :=
  (dotPrefix_iff a c).mpr (List.IsPrefix.trans ((dotPrefix_iff a b).mp h1) ((dotPrefix_iff b c).mp h2))

end Pysmi.Index
