import Pysmi.Lemmas.Compile
/-! The gate and the storing phase of the `compile` model. -/
namespace Pysmi.Compile
open Pysmi

/-- the writer calls phase 6 issues for a `built` dict -/
def putCalls (o : Opts) (l : AList Name Rec) : List Call :=
  if o.writeMibs then l.map (fun e => Call.put e.1 e.2.2.2 o.dryRun) else []

theorem putCalls_cons (o : Opts) (n : Name) (r : Rec) (l : AList Name Rec) :
    putCalls o ((n, r) :: l) = (if o.writeMibs then [Call.put n r.2.2 o.dryRun] else []) ++ putCalls o l := by
  unfold putCalls; split <;> simp

/-- status the store step leaves for module `n` built as `(alias, _, data)` -/
def storedEntry (c : Cfg) (o : Opts) (old : Option Entry) (n : Name) (alias : Name) (data : Nat) : Option Entry :=
  if (if o.writeMibs then c.put n data o.dryRun else true) then
    match old with
    | some e => some e
    | none => some { st := .compiled, alias := some alias }
  else some { st := .failed, err := some (.call (.put n data o.dryRun)) }

theorem storeStep_get_ne (c : Cfg) (o : Opts) (s : St) (k n : Name) (h : k ≠ n) :
    (storeStep c o s k).processed.get? n = s.processed.get? n := by
  unfold storeStep
  cases s.built.get? k with
  | none => rfl
  | some r =>
    obtain ⟨alias, mtime, data⟩ := r
    simp only
    cases o.writeMibs <;> cases c.put k data o.dryRun <;> cases hc : s.processed.contains k <;>
      simp [St.log, hc, AList.get?_set_ne _ _ _ _ h]

theorem storeStep_head (c : Cfg) (o : Opts) (s : St) (n : Name) (r : Rec) (l : AList Name Rec)
    (hb : s.built = (n, r) :: l) :
    (storeStep c o s n).built = l ∧
    (storeStep c o s n).trace = s.trace ++ (if o.writeMibs then [Call.put n r.2.2 o.dryRun] else []) ∧
    (storeStep c o s n).processed.get? n = storedEntry c o (s.processed.get? n) n r.1 r.2.2 ∧
    (∀ k, k ≠ n → (storeStep c o s n).processed.get? k = s.processed.get? k) := by
  refine ⟨?_, ?_, ?_, fun k hk => storeStep_get_ne c o s n k (Ne.symm hk)⟩
  all_goals
    obtain ⟨alias, mtime, data⟩ := r
    have hg : s.built.get? n = some (alias, mtime, data) := by simp [hb, AList.get?]
    have hd : s.built.del n = l := by simp [hb, AList.del]
    unfold storeStep
    simp only [hg]
    cases hw : o.writeMibs <;> cases hput : c.put n data o.dryRun <;> cases hp : s.processed.get? n <;>
      simp [St.log, hd, hp, storedEntry, hw, hput, AList.contains, AList.get?_set_eq]

/-- **phase 6 hands every built module to the writer exactly once, in order, with its text** -/
theorem phaseStore_trace (c : Cfg) (o : Opts) (l : AList Name Rec) (s : St) (hb : s.built = l) :
    (l.keys.foldl (storeStep c o) s).trace = s.trace ++ putCalls o l := by
  induction l generalizing s with
  | nil => simp [putCalls, AList.keys]
  | cons e l ih =>
    obtain ⟨n, r⟩ := e
    obtain ⟨h1, h2, _, _⟩ := storeStep_head c o s n r l hb
    simp only [AList.keys_cons, List.foldl_cons]
    rw [ih _ h1, h2, putCalls_cons, List.append_assoc]

theorem phaseStore_status (c : Cfg) (o : Opts) (l : AList Name Rec) (s : St) (hb : s.built = l)
    (hn : l.keys.Nodup) (n alias : Name) (mtime : Int) (data : Nat) (hm : (n, alias, mtime, data) ∈ l) :
    (l.keys.foldl (storeStep c o) s).processed.get? n = storedEntry c o (s.processed.get? n) n alias data := by
  induction l generalizing s with
  | nil => cases hm
  | cons e l ih =>
    obtain ⟨k, r⟩ := e
    obtain ⟨h1, _, h3, h4⟩ := storeStep_head c o s k r l hb
    simp only [AList.keys_cons, List.nodup_cons] at hn
    simp only [AList.keys_cons, List.foldl_cons]
    rcases List.mem_cons.mp hm with h | h
    · injection h with ha hb'
      subst ha; subst hb'
      -- later steps do not touch `n`
      have hrest : ∀ (ks : List Name) (s' : St), n ∉ ks →
          (ks.foldl (storeStep c o) s').processed.get? n = s'.processed.get? n := by
        intro ks
        induction ks with
        | nil => intro s' _; rfl
        | cons k ks ihk =>
          intro s' hk
          simp only [List.mem_cons, not_or] at hk
          simp only [List.foldl_cons]
          rw [ihk _ hk.2, storeStep_get_ne c o s' k n (Ne.symm hk.1)]
      rw [hrest _ _ hn.1, h3]
    · have hkn : n ≠ k := by
        intro hk; subst hk
        exact hn.1 (by simpa [AList.keys] using List.mem_map_of_mem (f := fun e => e.1) h)
      rw [ih _ h1 hn.2 h, h4 n hkn]

theorem markUnprocessed_get (s : St) (n : Name) (h : n ∈ s.built.keys) :
    (markUnprocessed s).processed.get? n = some { st := .unprocessed } := by
  unfold markUnprocessed
  simp only
  have : ∀ (ks : List Name) (p : AList Name Entry),
      (n ∈ ks ∨ p.get? n = some { st := .unprocessed }) →
      (ks.foldl (fun p n => p.set n { st := .unprocessed }) p).get? n = some { st := .unprocessed } := by
    intro ks
    induction ks with
    | nil => intro p hp; rcases hp with hp | hp; cases hp; exact hp
    | cons k ks ih =>
      intro p hp
      simp only [List.foldl_cons]
      apply ih
      by_cases hk : k = n
      · right; rw [hk]; exact AList.get?_set_eq _ _ _
      · rcases hp with hp | hp
        · rcases List.mem_cons.mp hp with hp | hp
          · exact absurd hp.symm hk
          · exact Or.inl hp
        · right; rw [AList.get?_set_ne _ _ _ _ hk]; exact hp
  exact this _ _ (Or.inl h)

end Pysmi.Compile
