import Pysmi.Model.Symtab
/-! Lemmas about one pass / the fixed-point loop of `regPostponedSyms`. -/
namespace Pysmi.Symtab

def names (l : List Decl) : List Name := l.map (·.name)

theorem pass_perm (avail : Name → Bool) (rows : List Name) (post : List Decl) (out : List Name) :
    ((pass avail rows post out).1 ++ names (pass avail rows post out).2.1).Perm (out ++ names post) := by
  induction post generalizing out with
  | nil => simp [pass, names]
  | cons d rest ih =>
    unfold pass
    split
    · simp only
      refine (ih (out ++ [d.name])).trans ?_
      simp [names, List.append_assoc]
    · simp only [names, List.map_cons]
      refine List.Perm.trans ?_ ((List.perm_middle (l₁ := out) (a := d.name) (l₂ := rest.map (·.name))).symm)
      refine List.perm_middle.trans ?_
      exact List.Perm.cons _ (ih out)

theorem pass_out_mono (avail : Name → Bool) (rows : List Name) (post : List Decl) (out : List Name) :
    ∀ x ∈ out, x ∈ (pass avail rows post out).1 := by
  induction post generalizing out with
  | nil => intro x hx; simpa [pass] using hx
  | cons d rest ih =>
    intro x hx
    unfold pass
    split
    · exact ih _ x (by simp [hx])
    · exact ih _ x hx

theorem pass_post_sub (avail : Name → Bool) (rows : List Name) (post : List Decl) (out : List Name) :
    ∀ d ∈ (pass avail rows post out).2.1, d ∈ post := by
  induction post generalizing out with
  | nil => intro d hd; simp [pass] at hd
  | cons d0 rest ih =>
    intro d hd
    unfold pass at hd
    split at hd
    · exact List.mem_cons_of_mem _ (ih _ d hd)
    · simp only [List.mem_cons] at hd
      rcases hd with hd | hd
      · simp [hd]
      · exact List.mem_cons_of_mem _ (ih _ d hd)

theorem pass_length (avail : Name → Bool) (rows : List Name) (post : List Decl) (out : List Name) :
    (pass avail rows post out).2.1.length ≤ post.length ∧
    ((pass avail rows post out).2.2 = true → (pass avail rows post out).2.1.length < post.length) := by
  induction post generalizing out with
  | nil => simp [pass]
  | cons d rest ih =>
    unfold pass
    split
    · have := (ih (out ++ [d.name])).1
      simp only [List.length_cons]
      exact ⟨by omega, fun _ => by omega⟩
    · have := ih out
      simp only [List.length_cons]
      exact ⟨by omega, fun h => by have := this.2 h; omega⟩

/-- a pass that registers nothing changes nothing, and none of the postponed symbols is registrable -/
theorem pass_false (avail : Name → Bool) (rows : List Name) (post : List Decl) (out : List Name)
    (h : (pass avail rows post out).2.2 = false) :
    (pass avail rows post out).1 = out ∧ (pass avail rows post out).2.1 = post ∧
    ∀ d ∈ post, allParents avail out rows d.parents = false := by
  induction post generalizing out with
  | nil => simp [pass]
  | cons d rest ih =>
    unfold pass at h ⊢
    split
    · rename_i hp; simp [hp] at h
    · rename_i hp
      simp only [hp] at h
      have hp' : allParents avail out rows d.parents = false := by simpa using hp
      obtain ⟨h1, h2, h3⟩ := ih out (by simpa using h)
      refine ⟨h1, by simp [h2], ?_⟩
      intro d' hd'
      rcases List.mem_cons.mp hd' with rfl | hd'
      · exact hp'
      · exact h3 d' hd'

/-- every symbol a pass registers had all its parents among `avail`, `rows` or symbols registered before it -/
theorem pass_justified (avail : Name → Bool) (rows : List Name) (J : Name → Prop) (post : List Decl) (out : List Name)
    (hout : ∀ n ∈ out, J n)
    (hstep : ∀ (d : Decl) (o : List Name), d ∈ post → (∀ n ∈ o, J n) → allParents avail o rows d.parents = true → J d.name) :
    ∀ n ∈ (pass avail rows post out).1, J n := by
  induction post generalizing out with
  | nil => simpa [pass] using hout
  | cons d rest ih =>
    unfold pass
    split
    · rename_i hp
      apply ih
      · intro n hn
        rcases List.mem_append.mp hn with hn | hn
        · exact hout n hn
        · simp at hn; subst hn; exact hstep d out (by simp) hout hp
      · intro d' o hd'; exact hstep d' o (List.mem_cons_of_mem _ hd')
    · apply ih _ hout
      intro d' o hd'; exact hstep d' o (List.mem_cons_of_mem _ hd')

/-! #### the fixed-point loop -/

theorem fixpoint_perm (avail : Name → Bool) (rows : List Name) (fuel : Nat) (post : List Decl) (out : List Name) :
    ((fixpoint avail rows fuel post out).1 ++ names (fixpoint avail rows fuel post out).2).Perm (out ++ names post) := by
  induction fuel generalizing post out with
  | zero => simp [fixpoint]
  | succ fuel ih =>
    unfold fixpoint
    simp only
    split
    · exact (ih _ _).trans (pass_perm avail rows post out)
    · exact pass_perm avail rows post out

theorem fixpoint_out_mono (avail : Name → Bool) (rows : List Name) (fuel : Nat) (post : List Decl) (out : List Name) :
    ∀ x ∈ out, x ∈ (fixpoint avail rows fuel post out).1 := by
  induction fuel generalizing post out with
  | zero => intro x hx; simpa [fixpoint] using hx
  | succ fuel ih =>
    intro x hx
    unfold fixpoint
    simp only
    split
    · exact ih _ _ x (pass_out_mono avail rows post out x hx)
    · exact pass_out_mono avail rows post out x hx

theorem fixpoint_post_sub (avail : Name → Bool) (rows : List Name) (fuel : Nat) (post : List Decl) (out : List Name) :
    ∀ d ∈ (fixpoint avail rows fuel post out).2, d ∈ post := by
  induction fuel generalizing post out with
  | zero => intro d hd; simpa [fixpoint] using hd
  | succ fuel ih =>
    intro d hd
    unfold fixpoint at hd
    simp only at hd
    split at hd
    · exact pass_post_sub avail rows post out d (ih _ _ d hd)
    · exact pass_post_sub avail rows post out d hd

/-- **with fuel above the number of postponed symbols the loop reaches a stable state**: no postponed
symbol is registrable any more -/
theorem fixpoint_stable (avail : Name → Bool) (rows : List Name) (fuel : Nat) (post : List Decl) (out : List Name)
    (hf : post.length < fuel) :
    ∀ d ∈ (fixpoint avail rows fuel post out).2,
      allParents avail (fixpoint avail rows fuel post out).1 rows d.parents = false := by
  induction fuel generalizing post out with
  | zero => omega
  | succ fuel ih =>
    unfold fixpoint
    simp only
    split
    · rename_i hflag
      have := (pass_length avail rows post out).2 hflag
      exact ih _ _ (by omega)
    · rename_i hflag
      have hflag' : (pass avail rows post out).2.2 = false := by simpa using hflag
      obtain ⟨h1, h2, h3⟩ := pass_false avail rows post out hflag'
      rw [h1, h2]; exact h3

theorem fixpoint_justified (avail : Name → Bool) (rows : List Name) (J : Name → Prop) (fuel : Nat) (post : List Decl)
    (out : List Name) (hout : ∀ n ∈ out, J n)
    (hstep : ∀ (d : Decl) (o : List Name), d ∈ post → (∀ n ∈ o, J n) → allParents avail o rows d.parents = true → J d.name) :
    ∀ n ∈ (fixpoint avail rows fuel post out).1, J n := by
  induction fuel generalizing post out with
  | zero => simpa [fixpoint] using hout
  | succ fuel ih =>
    unfold fixpoint
    simp only
    have hp := pass_justified avail rows J post out hout hstep
    split
    · exact ih _ _ hp (fun d o hd => hstep d o (pass_post_sub avail rows post out d hd))
    · exact hp

end Pysmi.Symtab
