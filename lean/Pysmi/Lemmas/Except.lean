/-! decidable equality of `Except` values (for `decide` in witness theorems and examples) -/
deriving instance DecidableEq for Except
