/-!
# The renaming of symbols in the intermediate code generator

`IntermediateCodeGen.transOpers(symbol)` is `symbol.replace('-', '_')` (compared with the implementation on drawn names by the
driver op `trans`; the symbol-table pass additionally prefixes Python keywords, which is the recorded finding
`python-keyword-symbol` and not modelled here).
-/
namespace Pysmi.Names

/-- `symbol.replace('-', '_')` -/
def trans (s : List Char) : List Char := s.map (fun c => if c = '-' then '_' else c)

end Pysmi.Names
