import Pysmi.Model.LR
/-
Stateful objects (C12): an object is a map from field names to values; one call of its entry method
(`genCode`, `parse`) first re-initialises the fields in `resets` and then runs a body that may read and
write fields.  `reads` / `writes` over-approximate what the body touches; they are regenerated from the
Python source by the static analysis in harness/fieldflow.py and validated at run time (scrambling and
snapshot tests).  Also the parser object: the PLY lexer's start state and line counter survive between
`parse()` calls unless `reset()` runs.
-/
namespace Pysmi.Obj

abbrev Field := String

structure Cls (Val In Out : Type) where
  init : Field → Val
  resets : List Field
  body : (Field → Val) → In → (Field → Val) × Out

variable {Val In Out : Type}

/-- the state the body starts from: reset fields have their initial value -/
def Cls.enter (c : Cls Val In Out) (s : Field → Val) : Field → Val :=
  fun f => if f ∈ c.resets then c.init f else s f

/-- one call of the entry method -/
def Cls.step (c : Cls Val In Out) (s : Field → Val) (x : In) : (Field → Val) × Out := c.body (c.enter s) x

/-- the object after a history of calls -/
def Cls.run (c : Cls Val In Out) (h : List In) : Field → Val := h.foldl (fun s x => (c.step s x).1) c.init

/-- what the static analysis establishes about the body -/
structure Frame (c : Cls Val In Out) (reads writes : List Field) : Prop where
  reads_only : ∀ s s' x, (∀ f ∈ reads, s f = s' f) → (c.body s x).2 = (c.body s' x).2
  writes_only : ∀ s x f, f ∉ writes → (c.body s x).1 f = s f

/-- the decidable condition on the generated tables: every field read is re-initialised on entry or never written -/
def Covered (reads writes resets : List Field) : Prop := ∀ f ∈ reads, f ∈ resets ∨ f ∉ writes

instance (reads writes resets : List Field) : Decidable (Covered reads writes resets) := by unfold Covered; infer_instance

/-! ### the parser object -/

/-- what survives between `parse()` calls: the PLY lexer's start state and line counter -/
structure ParserObj where
  st : Lexer.LexState
  line : Nat
  deriving DecidableEq, Repr

def ParserObj.fresh : ParserObj := ⟨.initial, 1⟩

/-- `parse` starting from the lexer state the object is in (the model's `LR.parse` with the start state as a parameter) -/
def parseFrom (cfg : Lexer.Cfg) (T : LR.Tables) (A : LR.Actions) (o : ParserObj) (text : List Char) : LR.ParseRes × ParserObj :=
  let c := LR.collect cfg (text.length + 1) o.st o.line text []
  let inp := LR.parserInput c.1 c.2.1
  -- where the lexer is left: the state/line after the tokens consumed (approximated by the end of scanning)
  let endObj : ParserObj := match Lexer.lexLoop cfg (text.length + 1) o.st o.line text [] with
    | .ok r => ⟨r.2.1, r.2.2⟩
    | .error _ => ⟨o.st, c.2.2⟩
  let res := match LR.run T (LR.fuelFor inp.length) [] inp with
    | .ok tree =>
      match LR.value T A tree with
      | .error e => LR.ParseRes.other e
      | .ok v =>
        match v with
        | .tuple [.str tag, body] => if tag == "mibFile".toList && body.truthy then .modules body else .modules (.list [])
        | _ => .modules (.list [])
    | .syntaxError (some t) => .parserError t.line
    | .syntaxError none => .parserError c.2.2
    | .lexerErrorReached => .lexerError (c.2.1.getD 0)
    | .tableError m => .other m
    | .fuel => .other "fuel"
  (res, endObj)

/-- `SmiV2Parser.parse`: `try: parser.parse(...) finally: self.reset()` — the lexer is rebuilt whatever happened -/
def parseCall (cfg : Lexer.Cfg) (T : LR.Tables) (A : LR.Actions) (o : ParserObj) (text : List Char) : LR.ParseRes × ParserObj :=
  ((parseFrom cfg T A o text).1, ParserObj.fresh)

/-- the pinned behaviour before the repair: `reset()` only after a successful `parser.parse` -/
def parseCallNoFinally (cfg : Lexer.Cfg) (T : LR.Tables) (A : LR.Actions) (o : ParserObj) (text : List Char) : LR.ParseRes × ParserObj :=
  let r := parseFrom cfg T A o text
  match r.1 with
  | .modules _ => (r.1, ParserObj.fresh)
  | _ => r

end Pysmi.Obj
