/-
Model of `SmiV2Lexer` (pysmi/lexer/smi.py) as PLY 3.11 runs it: five lexer states, rules tried in
PLY's order (function rules in definition order, then string rules by decreasing regex length, then
literals), first matching rule wins, each rule matching greedily as its regex does.

The reserved-word and forbidden-word tables are parameters (regenerated from the source into
`Generated/LexTables.lean` on every run), so the same definitions model both lexer variants.
Import-free.
-/
namespace Pysmi.Lexer

abbrev Str := List Char

inductive LexState | initial | macro | choice | exports | comment
  deriving DecidableEq, Repr

inductive TokVal
  | str (s : Str)
  | int (v : Int)
  deriving DecidableEq, Repr

structure Tok where
  ty : String
  val : TokVal
  line : Nat
  deriving DecidableEq, Repr

inductive ErrKind
  | lexer        -- PySmiLexerError (forbidden word, trailing '-', number too big, illegal character)
  | plyLexError  -- ply.lex.LexError: no rule matches inside an exclusive state (cannot happen after the fix)
  deriving DecidableEq, Repr

structure Cfg where
  reserved : List (Str × String)
  forbidden : List Str
  u32 : Nat := 4294967295
  u64 : Nat := 18446744073709551615
  macroErrorRule : Bool := true    -- the `macro` state has an error rule (`t_macro_error`)

/-! ### character classes -/

def isDigit (c : Char) : Bool := '0' ≤ c && c ≤ '9'
def isUpper (c : Char) : Bool := 'A' ≤ c && c ≤ 'Z'
def isLower (c : Char) : Bool := 'a' ≤ c && c ≤ 'z'
/-- `[-a-zA-z0-9]`: note the range `A-z`, which also admits the characters between `Z` and `a` -/
def isIdChar (c : Char) : Bool := c == '-' || isLower c || ('A' ≤ c && c ≤ 'z') || isDigit c
def isHexDigit (c : Char) : Bool := isDigit c || ('a' ≤ c && c ≤ 'f') || ('A' ≤ c && c ≤ 'F')
def isBinDigit (c : Char) : Bool := c == '0' || c == '1'
def literals : Str := "[]{}():;,-.|".toList

def startsWith : Str → Str → Bool
  | _, [] => true
  | [], _ :: _ => false
  | c :: s, d :: p => c == d && startsWith s p

/-- `\r\n|\n|\r`: length of the line end at the head of the input, if any -/
def newlineLen : Str → Option Nat
  | [] => none
  | c :: rest =>
    if c = '\r' then (if rest.head? = some '\n' then some 2 else some 1)
    else if c = '\n' then some 1
    else none

/-- number of line ends in a string, CRLF counted once (`re.findall(r'\r\n|\n|\r', s)`) -/
def countNewlines : Str → Nat
  | [] => 0
  | c :: rest =>
    if c = '\n' then 1 + countNewlines rest
    else if c = '\r' then (if rest.head? = some '\n' then countNewlines rest else 1 + countNewlines rest)
    else countNewlines rest

/-! ### the individual rules: each returns the length of its (greedy) match at the head of the input -/

def spanLen (p : Char → Bool) : Str → Nat
  | [] => 0
  | c :: cs => if p c then 1 + spanLen p cs else 0

/-- `[A-Z][-a-zA-z0-9]*` -/
def matchUpper : Str → Option Nat
  | c :: cs => if isUpper c then some (1 + spanLen isIdChar cs) else none
  | [] => none

/-- `[0-9]*[a-z][-a-zA-z0-9]*` -/
def matchLower (s : Str) : Option Nat :=
  let d := spanLen isDigit s
  match s.drop d with
  | c :: cs => if isLower c then some (d + 1 + spanLen isIdChar cs) else none
  | [] => none

/-- `-?[0-9]+` -/
def matchNumber : Str → Option Nat
  | '-' :: cs => let d := spanLen isDigit cs; if d = 0 then none else some (1 + d)
  | cs => let d := spanLen isDigit cs; if d = 0 then none else some d

/-- `'[…]*'[xX]` for a digit class and the two suffix letters -/
def matchQuotedDigits (p : Char → Bool) (lo up : Char) : Str → Option Nat
  | '\'' :: cs =>
    let d := spanLen p cs
    match cs.drop d with
    | '\'' :: x :: _ => if x == lo || x == up then some (d + 3) else none
    | _ => none
  | _ => none

/-- `"[^"]*"` -/
def matchQuoted : Str → Option Nat
  | '"' :: cs =>
    let d := spanLen (· != '"') cs
    match cs.drop d with
    | '"' :: _ => some (d + 2)
    | _ => none
  | _ => none

def parseNat (s : Str) : Nat := s.foldl (fun a c => a * 10 + (c.toNat - 48)) 0

/-- `t_NUMBER`: the token class as a function of the value and the two bounds -/
def classifyNumber (cfg : Cfg) (v : Int) : Option String :=
  let a := v.natAbs
  if a ≤ cfg.u32 then some (if v < 0 then "NEGATIVENUMBER" else "NUMBER")
  else if a ≤ cfg.u64 then some (if v < 0 then "NEGATIVENUMBER64" else "NUMBER64")
  else none

/-- index of the first occurrence of `END` strictly after position 0 … used by the macro body rule
`.+?(?=END)`: the shortest non-empty prefix followed by `END` -/
def macroBodyLen : Str → Option Nat
  | [] => none
  | _ :: rest =>
    let rec go : Str → Nat → Option Nat
      | [], _ => none
      | s@(_ :: t), k => if startsWith s "END".toList then some k else go t (k + 1)
    go rest 1

inductive Step
  | tok (t : Tok) (consumed : Nat) (next : LexState) (lines : Nat)   -- a token; `lines`: line ends inside it
  | skip (consumed : Nat) (next : LexState) (lines : Nat)            -- matched and discarded
  | err (k : ErrKind)

/-- one lexer step at a non-empty input in state `st`, current line `line` -/
def step (cfg : Cfg) (st : LexState) (line : Nat) (s : Str) : Step :=
  match st with
  | .initial =>
    match s with
    | ' ' :: _ => .skip 1 .initial 0         -- t_ignore
    | '\t' :: _ => .skip 1 .initial 0
    | _ =>
    match newlineLen s with
    | some n => .skip n .initial 1
    | none =>
    if startsWith s "MACRO".toList then .tok ⟨"MACRO", .str "MACRO".toList, line⟩ 5 .macro 0
    else if startsWith s "EXPORTS".toList then .tok ⟨"EXPORTS", .str "EXPORTS".toList, line⟩ 7 .exports 0
    else if startsWith s "CHOICE".toList then .tok ⟨"CHOICE", .str "CHOICE".toList, line⟩ 6 .choice 0
    else if startsWith s "--".toList then .skip 2 .comment 0
    else match matchUpper s with
    | some n =>
      let w := s.take n
      if cfg.forbidden.contains w then .err .lexer
      else if w.getLast? == some '-' then .err .lexer
      else
        let ty := match cfg.reserved.find? (·.1 == w) with
          | some r => r.2
          | none => "UPPERCASE_IDENTIFIER"
        .tok ⟨ty, .str w, line⟩ n .initial 0
    | none =>
    match matchLower s with
    | some n =>
      let w := s.take n
      if w.getLast? == some '-' then .err .lexer else .tok ⟨"LOWERCASE_IDENTIFIER", .str w, line⟩ n .initial 0
    | none =>
    match matchNumber s with
    | some n =>
      let w := s.take n
      let v : Int := match w with
        | '-' :: ds => -(parseNat ds : Int)
        | ds => (parseNat ds : Int)
      match classifyNumber cfg v with
      | some ty => .tok ⟨ty, .int v, line⟩ n .initial 0
      | none => .err .lexer
    | none =>
    match matchQuotedDigits isBinDigit 'b' 'B' s with
    | some n => .tok ⟨"BIN_STRING", .str (s.take n), line⟩ n .initial 0
    | none =>
    match matchQuotedDigits isHexDigit 'h' 'H' s with
    | some n => .tok ⟨"HEX_STRING", .str (s.take n), line⟩ n .initial 0
    | none =>
    match matchQuoted s with
    | some n => .tok ⟨"QUOTED_STRING", .str (s.take n), line⟩ n .initial (countNewlines (s.take n))
    | none =>
    if startsWith s "..".toList then .tok ⟨"DOT_DOT", .str "..".toList, line⟩ 2 .initial 0
    else if startsWith s "::=".toList then .tok ⟨"COLON_COLON_EQUAL", .str "::=".toList, line⟩ 3 .initial 0
    else match s with
    | c :: _ => if literals.contains c then .tok ⟨String.singleton c, .str [c], line⟩ 1 .initial 0 else .err .lexer
    | [] => .err .lexer
  | .macro =>
    match newlineLen s with
    | some n => .skip n .macro 1
    | none =>
    if startsWith s "END".toList then .tok ⟨"END", .str "END".toList, line⟩ 3 .initial 0
    else match macroBodyLen s with
    | some n => .skip n .macro (countNewlines (s.take n))
    | none => .err (if cfg.macroErrorRule then .lexer else .plyLexError)
  | .exports =>
    match newlineLen s with
    | some n => .skip n .exports 1
    | none =>
    match s with
    | ';' :: _ => .skip 1 .initial 0
    | _ => .skip (spanLen (· != ';') s) .exports (countNewlines (s.take (spanLen (· != ';') s)))
  | .choice =>
    match newlineLen s with
    | some n => .skip n .choice 1
    | none =>
    match s with
    | '}' :: _ => .skip 1 .initial 0
    | _ => .skip (spanLen (· != '}') s) .choice (countNewlines (s.take (spanLen (· != '}') s)))
  | .comment =>
    match newlineLen s with
    | some n => .skip n .initial 1
    | none => .skip (spanLen (fun c => c != '\r' && c != '\n') s) .comment 0

inductive LexErr
  | err (k : ErrKind) (line : Nat)
  | outOfFuel
  deriving DecidableEq, Repr

/-- the lexer loop; `fuel` = input length + 1 always suffices (every step consumes at least one character) -/
def lexLoop (cfg : Cfg) : Nat → LexState → Nat → Str → List Tok → Except LexErr (List Tok × LexState × Nat)
  | 0, _, _, _, _ => .error .outOfFuel
  | _ + 1, st, line, [], acc => .ok (acc.reverse, st, line)
  | fuel + 1, st, line, c :: cs, acc =>
    match step cfg st line (c :: cs) with
    | .err k => .error (.err k line)
    | .tok t n next lines => lexLoop cfg fuel next (line + lines) ((c :: cs).drop (max n 1)) (t :: acc)
    | .skip n next lines => lexLoop cfg fuel next (line + lines) ((c :: cs).drop (max n 1)) acc

/-- all tokens of a text, from a fresh lexer (state INITIAL, line 1) -/
def lexAll (cfg : Cfg) (s : Str) : Except LexErr (List Tok) :=
  (lexLoop cfg (s.length + 1) .initial 1 s []).map (·.1)

end Pysmi.Lexer
