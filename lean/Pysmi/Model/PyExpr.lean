/-
Python values and the small expression/statement fragment in which the parser's `p_*` action
functions are written (tuples, lists, indexing, `+`, `and`/`or`/`not`, `==`, `len`, `isinstance(x, tuple)`,
assignments to `p[0]` and to local names, `if`/`elif`/`else`).  The translator turns the source of
every `p_*` function into a `Stmt` list; `exec` is the model of how Python evaluates it.
Import-free.
-/
namespace Pysmi.Py

inductive PyVal
  | none
  | bool (b : Bool)
  | int (i : Int)
  | str (s : List Char)
  | tuple (xs : List PyVal)
  | list (xs : List PyVal)
  | dict (kvs : List (PyVal × PyVal))
  deriving Repr, Inhabited

mutual
def PyVal.beq : PyVal → PyVal → Bool
  | .none, .none => true
  | .bool a, .bool b => a == b
  | .int a, .int b => a == b
  | .bool a, .int b => (if a then 1 else 0) == b
  | .int a, .bool b => a == (if b then 1 else 0)
  | .str a, .str b => a == b
  | .tuple a, .tuple b => PyVal.beqList a b
  | .list a, .list b => PyVal.beqList a b
  | .dict a, .dict b => PyVal.beqPairs a b
  | _, _ => false
def PyVal.beqList : List PyVal → List PyVal → Bool
  | [], [] => true
  | a :: as, b :: bs => PyVal.beq a b && PyVal.beqList as bs
  | _, _ => false
def PyVal.beqPairs : List (PyVal × PyVal) → List (PyVal × PyVal) → Bool
  | [], [] => true
  | (a, b) :: as, (c, d) :: bs => PyVal.beq a c && PyVal.beq b d && PyVal.beqPairs as bs
  | _, _ => false
end

instance : BEq PyVal := ⟨PyVal.beq⟩

/-- Python truthiness -/
def PyVal.truthy : PyVal → Bool
  | .none => false
  | .bool b => b
  | .int i => i != 0
  | .str s => !s.isEmpty
  | .tuple xs => !xs.isEmpty
  | .list xs => !xs.isEmpty
  | .dict kvs => !kvs.isEmpty

inductive Expr
  | none
  | bool (b : Bool)
  | int (i : Int)
  | str (s : String)
  | p (i : Nat)                       -- p[i]
  | var (name : String)               -- a local name (`n`, `objects`, …)
  | index (e : Expr) (i : Expr)       -- e[i]
  | slice (e : Expr) (lo hi : Option Expr)
  | tuple (es : List Expr)
  | list (es : List Expr)
  | add (a b : Expr)
  | and (a b : Expr)
  | or (a b : Expr)
  | not (a : Expr)
  | eq (a b : Expr)
  | ne (a b : Expr)
  | len (e : Expr)
  | isTuple (e : Expr)
  | isNone (e : Expr)                 -- `e is None`
  | ite (c a b : Expr)                -- `a if c else b`
  deriving Repr, Inhabited

inductive Stmt
  | setP0 (e : Expr)                  -- p[0] = e
  | assign (name : String) (e : Expr)
  | augAdd (name : String) (e : Expr) -- name += e
  | ite (c : Expr) (t : List Stmt) (f : List Stmt)
  | pass
  deriving Repr, Inhabited

structure Env where
  p : List PyVal                      -- p[0], p[1], …
  locals : List (String × PyVal) := []

def Env.lookup (env : Env) (n : String) : Option PyVal := (env.locals.find? (·.1 == n)).map (·.2)
def Env.set (env : Env) (n : String) (v : PyVal) : Env :=
  { env with locals := (n, v) :: env.locals.filter (·.1 != n) }

def normIndex (len : Nat) (i : Int) : Option Nat :=
  if 0 ≤ i then (if i.toNat < len then some i.toNat else none)
  else (if (-i).toNat ≤ len then some (len - (-i).toNat) else none)

def seqIndex (xs : List PyVal) (i : Int) : Except String PyVal :=
  match normIndex xs.length i with
  | some k => match xs[k]? with | some v => .ok v | none => .error "IndexError"
  | none => .error "IndexError"

def clampSlice (len : Nat) (i : Option Int) (dflt : Nat) : Nat :=
  match i with
  | none => dflt
  | some i => if 0 ≤ i then min i.toNat len else len - min (-i).toNat len

mutual
def eval (env : Env) : Expr → Except String PyVal
  | .none => .ok .none
  | .bool b => .ok (.bool b)
  | .int i => .ok (.int i)
  | .str s => .ok (.str s.toList)
  | .p i => match env.p[i]? with | some v => .ok v | none => .error "IndexError: p"
  | .var n =>
    if n == "n" then .ok (.int env.p.length)
    else match env.lookup n with | some v => .ok v | none => .error s!"NameError: {n}"
  | .index e i => do
    let v ← eval env e
    let k ← eval env i
    match v, k with
    | .tuple xs, .int k => seqIndex xs k
    | .list xs, .int k => seqIndex xs k
    | .str s, .int k =>
      match normIndex s.length k with
      | some j => match s[j]? with | some c => .ok (.str [c]) | none => .error "IndexError"
      | none => .error "IndexError"
    | .none, _ => .error "TypeError: 'NoneType' object is not subscriptable"
    | _, _ => .error "TypeError: subscript"
  | .slice e lo hi => do
    let v ← eval env e
    let lo ← evalOptInt env lo
    let hi ← evalOptInt env hi
    match v with
    | .tuple xs => let a := clampSlice xs.length lo 0; let b := clampSlice xs.length hi xs.length
                   .ok (.tuple ((xs.drop a).take (b - a)))
    | .list xs => let a := clampSlice xs.length lo 0; let b := clampSlice xs.length hi xs.length
                  .ok (.list ((xs.drop a).take (b - a)))
    | .str s => let a := clampSlice s.length lo 0; let b := clampSlice s.length hi s.length
                .ok (.str ((s.drop a).take (b - a)))
    | _ => .error "TypeError: slice"
  | .tuple es => do let vs ← evalList env es; return .tuple vs
  | .list es => do let vs ← evalList env es; return .list vs
  | .add a b => do
    let x ← eval env a
    let y ← eval env b
    match x, y with
    | .list xs, .list ys => .ok (.list (xs ++ ys))
    | .tuple xs, .tuple ys => .ok (.tuple (xs ++ ys))
    | .str xs, .str ys => .ok (.str (xs ++ ys))
    | .int i, .int j => .ok (.int (i + j))
    | _, _ => .error "TypeError: +"
  | .and a b => do
    let x ← eval env a
    if x.truthy then eval env b else .ok x
  | .or a b => do
    let x ← eval env a
    if x.truthy then .ok x else eval env b
  | .not a => do let x ← eval env a; return .bool (!x.truthy)
  | .eq a b => do let x ← eval env a; let y ← eval env b; return .bool (x == y)
  | .ne a b => do let x ← eval env a; let y ← eval env b; return .bool (!(x == y))
  | .len e => do
    let v ← eval env e
    match v with
    | .tuple xs => .ok (.int xs.length)
    | .list xs => .ok (.int xs.length)
    | .str s => .ok (.int s.length)
    | .dict kvs => .ok (.int kvs.length)
    | _ => .error "TypeError: len"
  | .isTuple e => do
    let v ← eval env e
    match v with
    | .tuple _ => .ok (.bool true)
    | _ => .ok (.bool false)
  | .isNone e => do
    let v ← eval env e
    match v with
    | .none => .ok (.bool true)
    | _ => .ok (.bool false)
  | .ite c a b => do
    let x ← eval env c
    if x.truthy then eval env a else eval env b
def evalOptInt (env : Env) : Option Expr → Except String (Option Int)
  | Option.none => .ok Option.none
  | Option.some x => do
    let r ← eval env x
    match r with
    | .int i => .ok (Option.some i)
    | _ => .error "TypeError: slice"
def evalList (env : Env) : List Expr → Except String (List PyVal)
  | [] => .ok []
  | e :: es => do let v ← eval env e; let vs ← evalList env es; return v :: vs
end

mutual
def exec (env : Env) : Stmt → Except String Env
  | .setP0 e => do
    let v ← eval env e
    match env.p with
    | _ :: rest => .ok { env with p := v :: rest }
    | [] => .error "IndexError: p[0]"
  | .assign n e => do let v ← eval env e; return env.set n v
  | .augAdd n e => do
    let v ← eval env e
    match env.lookup n, v with
    | some (.list xs), .list ys => .ok (env.set n (.list (xs ++ ys)))
    | some (.tuple xs), .tuple ys => .ok (env.set n (.tuple (xs ++ ys)))
    | some (.str xs), .str ys => .ok (env.set n (.str (xs ++ ys)))
    | some (.int i), .int j => .ok (env.set n (.int (i + j)))
    | _, _ => .error "TypeError: +="
  | .ite c t f => do
    let v ← eval env c
    if v.truthy then execAll env t else execAll env f
  | .pass => .ok env
def execAll (env : Env) : List Stmt → Except String Env
  | [] => .ok env
  | s :: ss => do let env' ← exec env s; execAll env' ss
end

/-- run an action on the values of the right-hand side symbols; the result is `p[0]` (None if never set) -/
def runAction (body : List Stmt) (rhs : List PyVal) : Except String PyVal := do
  let env ← execAll { p := .none :: rhs } body
  match env.p with
  | v :: _ => .ok v
  | [] => .ok .none

/-- `p_importPart`: `IMPORTS` lists merged per source module, modules in order of first appearance
(the one action outside the fragment: it loops and builds a dict) -/
def importPart (imports : PyVal) : PyVal :=
  match imports with
  | .list imps =>
    if imps.isEmpty then .none else
    .dict (imps.foldl (fun acc imp =>
      match imp with
      | .tuple [m, .list syms] =>
        if acc.any (fun kv => kv.1 == m) then
          acc.map (fun kv => if kv.1 == m then (kv.1, match kv.2 with | .list old => .list (old ++ syms) | o => o) else kv)
        else acc ++ [(m, .list syms)]
      | _ => acc) [])
  | _ => .none

end Pysmi.Py
