/-
Model of OID capture and resolution:
* `SymtableCodeGen.genOid` / `IntermediateCodeGen.genOid` — how a written `{ … }` becomes a list of
  parts (`ref name module` | `num n`), with the hyphen→underscore renaming and the import map;
* `IntermediateCodeGen.genNumericOid` — the recursion through the per-module symbol tables;
* TRAP-TYPE OIDs `enterprise.0.n`; the dotted rendering.
Names are abstract (`Nat`): the code only compares them (renaming is done before, see `SubId`).
Import-free.
-/
namespace Pysmi.Oid

abbrev Name := Nat
abbrev Module := Nat

/-- a sub-identifier as the parser delivers it -/
inductive SubId
  | name (n : Name)              -- `ifIndex` (already through transOpers: renaming is injective here)
  | num (k : Nat)                -- `7`
  | named (n : Name) (k : Nat)   -- `org(3)`: only the number counts
  deriving DecidableEq, Repr

/-- an element of the stored `oid` tuple of a symbol -/
inductive Part
  | ref (n : Name) (m : Module)
  | num (k : Nat)
  deriving DecidableEq, Repr

/-- `genOid`: sub-identifiers → stored parts; `importMap` says which module a name is imported from,
otherwise it is the current module -/
def capture (importMap : Name → Option Module) (self : Module) : List SubId → List Part
  | [] => []
  | .name n :: rest => .ref n ((importMap n).getD self) :: capture importMap self rest
  | .num k :: rest => .num k :: capture importMap self rest
  | .named _ k :: rest => .num k :: capture importMap self rest

/-- the cross-module symbol table: for each module, for each symbol that carries an OID, its parts -/
abbrev Tables := Module → Name → Option (List Part)

inductive Err | noSymbol (n : Name) (m : Module) | fuel
  deriving DecidableEq, Repr

/-- `genNumericOid`; `iso` is the distinguished name resolving to 1; Python's recursion depth is the fuel -/
def numericOid (iso : Name) (T : Tables) : Nat → List Part → Except Err (List Nat)
  | _, [] => .ok []
  | fuel, .num k :: rest => do
    let r ← numericOid iso T fuel rest
    return k :: r
  | 0, .ref _ _ :: _ => .error .fuel
  | fuel + 1, .ref n m :: rest =>
    if n = iso then do
      let r ← numericOid iso T (fuel + 1) rest
      return 1 :: r
    else
      match T m n with
      | none => .error (.noSymbol n m)
      | some parts => do
        let a ← numericOid iso T fuel parts
        let r ← numericOid iso T (fuel + 1) rest
        return a ++ r
termination_by fuel parts => (fuel, parts.length)

/-- TRAP-TYPE: `<enterprise>.0.<n>` -/
def trapOid (enterprise : List Nat) (n : Nat) : List Nat := enterprise ++ [0, n]

end Pysmi.Oid
