/-
Model of how SYNTAX refinements and default values are computed
(pysmi/codegen/base.py: isHex / isBinary / str2int; pysmi/codegen/intermediate.py:
genIntegerSubType, genOctetStringSubType, getBaseType, genDefVal).
Import-free.
-/
namespace Pysmi.Syntax

/-! ### integer literals: decimal, `'…'H`, `'…'B` -/

/-- value of a hexadecimal digit (either case); binary and decimal digits are the same characters -/
def digitVal (c : Char) : Option Nat :=
  if '0' ≤ c ∧ c ≤ '9' then some (c.toNat - 48)
  else if 'a' ≤ c ∧ c ≤ 'f' then some (c.toNat - 87)
  else if 'A' ≤ c ∧ c ≤ 'F' then some (c.toNat - 55)
  else none

/-- Horner evaluation, most significant digit first: Python's `int(s, base)` on a digit string -/
def parseDigits (base : Nat) : List Char → Nat → Option Nat
  | [], acc => some acc
  | c :: cs, acc =>
    match digitVal c with
    | some d => if d < base then parseDigits base cs (acc * base + d) else none
    | none => none

/-- a number as written inside a range / SIZE / DEFVAL -/
inductive Lit
  | dec (v : Int)               -- NUMBER / NEGATIVENUMBER tokens arrive as Python ints
  | hex (digits : List Char)    -- `'1F'H` without quotes and suffix
  | bin (digits : List Char)
  deriving DecidableEq, Repr

inductive Err | emptyHex | emptyBin | badDigit | noSymbol | unknownType | fuel
  deriving DecidableEq, Repr

/-- `str2int` -/
def str2int : Lit → Except Err Int
  | .dec v => .ok v
  | .hex [] => .error .emptyHex
  | .hex ds => match parseDigits 16 ds 0 with | some n => .ok n | none => .error .badDigit
  | .bin [] => .error .emptyBin
  | .bin ds => match parseDigits 2 ds 0 with | some n => .ok n | none => .error .badDigit

/-- one alternative of a range / SIZE list: a single value `v` means `min = max = v` -/
inductive Alt
  | single (v : Lit)
  | range (lo hi : Lit)
  deriving DecidableEq, Repr

/-- `genIntegerSubType` / `genOctetStringSubType`: every alternative, in order, as (min, max) -/
def genRanges : List Alt → Except Err (List (Int × Int))
  | [] => .ok []
  | .single v :: rest => do
    let x ← str2int v
    let r ← genRanges rest
    return (x, x) :: r
  | .range lo hi :: rest => do
    let a ← str2int lo
    let b ← str2int hi
    let r ← genRanges rest
    return (a, b) :: r

/-! ### base type resolution through chains of derived types -/

abbrev Name := Nat
abbrev Module := Nat

/-- the `syntax` entry of a symbol in the symbol table: `((type, module), subtype)`; `sub` is the
enumeration / bit list when the declaration carries one (a Python list), else nothing -/
structure TypeInfo where
  base : Name
  module : Module
  sub : Option (List (Name × Int))
  deriving DecidableEq, Repr

abbrev Types := Module → Name → Option TypeInfo

/-- how a derived type's own list and the list found further down the chain combine -/
def mergeSub (own below : Option (List (Name × Int))) : Option (List (Name × Int)) :=
  match below, own with
  | some b, some o => some (o ++ b)
  | some b, none => some b
  | none, o => o

/-- `getBaseType(symName, module)`; `isBase` = membership in `baseTypes`; `empty` = the '' type name -/
def getBaseType (isBase : Name → Bool) (empty : Name) (T : Types) : Nat → Name → Module →
    Except Err (Name × Option (List (Name × Int)))
  | 0, _, _ => .error .fuel
  | fuel + 1, n, m =>
    match T m n with
    | none => .error .noSymbol
    | some ti =>
      if ti.base = empty then .error .unknownType
      else if isBase ti.base then .ok (ti.base, ti.sub)
      else
        match getBaseType isBase empty T fuel ti.base ti.module with
        | .error e => .error e
        | .ok (b, below) => .ok (b, mergeSub ti.sub below)

/-! ### DEFVAL -/

/-- what is written between the braces of DEFVAL -/
inductive DefVal
  | num (v : Int)
  | hex (digits : List Char)
  | bin (digits : List Char)
  | str (s : List Char)
  | label (n : Name)             -- enumeration label or OID label
  | bits (ns : List Name)
  deriving DecidableEq, Repr

/-- the emitted `default` record (value + format), abstractly -/
inductive Emitted
  | nothing                                   -- no default emitted
  | basetypeOnly                              -- a `default` record carrying only the base type
  | decimal (v : Int)
  | hexOfInt (v : Nat)                        -- hex/bin literal on an integer base: decimal string, format hex/bin
  | binOfInt (v : Nat)
  | hexDigits (ds : List Char)                -- hex literal on a non-integer base: digits verbatim
  | hexOfBin (v : Option (Nat × Nat))         -- bin literal on a non-integer base: (hex digits, value); none = empty
  | string (s : List Char)
  | enum (n : Name)
  | bitsVal (bs : List (Name × Int))          -- sorted by position by `genBits`
  | oidOf (n : Name)                          -- resolved through genNumericOid (see Model/Oid)
  | semanticError
  deriving DecidableEq, Repr

/-- `genDefVal` given the resolved base type: `isInt b` = base is Integer32/Integer, `isOid`, `isBits`, `isOctets` =
base is OctetString; `enumOf` = the list found by `getBaseType`; `knownSym n` = n is a local or imported symbol -/
def genDefVal (isInt isOid isBits isOctets : Bool) (enumOf : Option (List (Name × Int))) (knownSym : Name → Bool) :
    DefVal → Emitted
  | .num v => .decimal v
  | .hex ds => if isInt then .hexOfInt (match ds with | [] => 0 | _ => (parseDigits 16 ds 0).getD 0) else .hexDigits ds
  | .bin ds => if isInt then .binOfInt (match ds with | [] => 0 | _ => (parseDigits 2 ds 0).getD 0)
               else .hexOfBin (match ds with | [] => none | _ => (parseDigits 2 ds 0).map (fun v => ((ds.length + 3) / 4, v)))
  | .str s => if s.isEmpty && !isOctets then .nothing else .string s     -- `""` is kept on OCTET STRING only
  | .label n =>
    if isOid && knownSym n then .oidOf n
    else if isInt then
      match enumOf with
      | some l => if l.any (·.1 == n) then .enum n else .basetypeOnly
      | none => .semanticError
    else .semanticError
  | .bits ns =>
    if isOid then .semanticError
    else if isInt then
      match enumOf with
      | some l => match ns.filter (fun n => l.any (·.1 == n)) with
                  | n :: _ => .enum n
                  | [] => .basetypeOnly
      | none => .semanticError
    else if isBits then
      match enumOf with
      | some l =>
        if ns.all (fun n => l.any (·.1 == n)) then
          .bitsVal (ns.filterMap (fun n => (l.find? (·.1 == n)).map (fun e => (n, e.2))))
        else .semanticError
      | none => .semanticError
    else .semanticError

end Pysmi.Syntax
