/-
Model of `AbstractBorrower.getData` (pysmi/borrower/base.py): the flavour test and the
extension restriction handed to the reader.  Import-free.
-/
namespace Pysmi.Borrower

/-- Python truthiness of the `genTexts` option as it reaches the borrower:
absent / None / False are falsy. -/
inductive OptVal | absent | none | bool (b : Bool)
  deriving DecidableEq, Repr

def truthy : OptVal → Bool
  | .bool b => b
  | _ => false

inductive Ans (α : Type)
  | notFound            -- PySmiFileNotFoundError: incompatible flavour, or the reader has no such file
  | ok (a : α)
  deriving Repr, DecidableEq

/-- `getData(mibname, **options)`: `reader` is the underlying reader's lookup restricted to the
given extensions; `optExts` is an `exts` option supplied by the caller. -/
def getData {α} (flavour : Bool) (ownExts : List String) (reader : List String → Option α)
    (genTexts : OptVal) (optExts : Option (List String)) : Ans α :=
  if truthy genTexts != flavour then .notFound
  else match reader (optExts.getD ownExts) with
    | some a => .ok a
    | none => .notFound

end Pysmi.Borrower
