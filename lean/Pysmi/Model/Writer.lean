/-
Model of `FileWriter.putData` (pysmi/writer/localfile.py) and `PyFileWriter.putData`
(pysmi/writer/pyfile.py) as a small-step machine over an abstract file system, one step
per faultable system call, so that several writers can be interleaved at call granularity.

File contents are abstract: a file holds the first `w` bytes of the text of writer `who`
(`Content.data who w`); it is *complete* when `w` is that writer's text length. The previous
content of the destination is `Content.old`.

Faultable calls, in the order a fault script is consumed: makedirs, mkstemp, write, close,
rename, unlink, py_compile. `os.path.exists` / `os.access` are pure queries.
Import-free (linked into the driver).
-/
namespace Pysmi.Writer

inductive Fault
  | none
  | error            -- the call raises OSError (py_compile: any exception but the two below)
  | short (j : Nat)  -- os.write writes only `min (j+1) remaining` bytes and returns that count
  | soft             -- py_compile raises SyntaxError / PyCompileError (swallowed by the writer)
  deriving DecidableEq, Repr

inductive Content
  | absent
  | old
  | data (who : Nat) (w : Nat)
  deriving DecidableEq, Repr

inductive Kind | file | py
  deriving DecidableEq, Repr

inductive Res
  | ok
  | writerError
  | osError          -- a non-package exception escaped (only possible on a double fault in PyFileWriter)
  deriving DecidableEq, Repr

inductive Sys | makedirs | mkstemp | write | close | rename | unlink | pycompile
  deriving DecidableEq, Repr

inductive PC
  | start | mkstemp | write | close | rename | cleanup | compile | rmmodule
  | done (r : Res)
  deriving DecidableEq, Repr

/-- one `putData` call in flight -/
structure W where
  id : Nat
  kind : Kind
  len : Nat                 -- length of the (encoded) text
  pyCompile : Bool := true
  pc : PC := .start
  remaining : Nat           -- bytes not yet written
  hasTmp : Bool := false    -- `tfile` is set
  deriving DecidableEq, Repr

/-- shared file system: the destination directory, the destination file, one temp slot per writer -/
structure FS where
  dirExists : Bool
  dest : Content
  tmp : Nat → Option Content
  calls : List (Nat × Sys) := []

def FS.setTmp (fs : FS) (id : Nat) (c : Option Content) : FS :=
  { fs with tmp := fun i => if i = id then c else fs.tmp i }

def FS.log (fs : FS) (id : Nat) (s : Sys) : FS := { fs with calls := fs.calls ++ [(id, s)] }

/-- One system call of writer `w` under fault `f`. Steps that issue no faultable call
(`start` with the directory present) consume the fault without looking at it — the driver only
feeds a fault when `needsFault`. -/
def step (f : Fault) (w : W) (fs : FS) : W × FS :=
  match w.pc with
  | .done _ => (w, fs)
  | .start =>
    if fs.dirExists then ({ w with pc := .mkstemp }, fs)
    else
      let fs := fs.log w.id .makedirs
      match f with
      | .error => ({ w with pc := .done .writerError }, fs)
      | _ => ({ w with pc := .mkstemp }, { fs with dirExists := true })
  | .mkstemp =>
    let fs := fs.log w.id .mkstemp
    match f with
    | .error => ({ w with pc := .done .writerError }, fs)          -- tfile is None: nothing to clean
    | _ => ({ w with pc := if w.remaining = 0 then .close else .write, hasTmp := true },
            fs.setTmp w.id (some (.data w.id 0)))
  | .write =>
    let fs := fs.log w.id .write
    match f with
    | .error => ({ w with pc := .cleanup }, fs)
    | .short j =>
      let n := min (j + 1) w.remaining
      let rem := w.remaining - n
      ({ w with remaining := rem, pc := if rem = 0 then .close else .write },
       fs.setTmp w.id (some (.data w.id (w.len - rem))))
    | _ => ({ w with remaining := 0, pc := .close }, fs.setTmp w.id (some (.data w.id w.len)))
  | .close =>
    let fs := fs.log w.id .close
    match f with
    | .error => ({ w with pc := .cleanup }, fs)
    | _ => ({ w with pc := .rename }, fs)
  | .rename =>
    let fs := fs.log w.id .rename
    match f with
    | .error => ({ w with pc := .cleanup }, fs)
    | _ =>
      let c := (fs.tmp w.id).getD .absent
      let fs := { fs.setTmp w.id none with dest := c }
      ({ w with pc := if w.kind = .py ∧ w.pyCompile then .compile else .done .ok }, fs)
  | .cleanup =>
    -- `except (OSError, IOError, UnicodeEncodeError)`: unlink the temp file, raise the writer error
    match fs.tmp w.id with
    | none => ({ w with pc := .done .writerError }, fs)            -- PyFileWriter: os.access says gone
    | some _ =>
      let fs := fs.log w.id .unlink
      match f with
      | .error =>
        -- FileWriter swallows the OSError of unlink; PyFileWriter lets it escape
        ({ w with pc := .done (if w.kind = .file then .writerError else .osError) }, fs)
      | _ => ({ w with pc := .done .writerError }, fs.setTmp w.id none)
  | .compile =>
    let fs := fs.log w.id .pycompile
    match f with
    | .error => ({ w with pc := .rmmodule }, fs)
    | _ => ({ w with pc := .done .ok }, fs)                          -- ok, or SyntaxError/PyCompileError: pass
  | .rmmodule =>
    match fs.dest with
    | .absent => ({ w with pc := .done .writerError }, fs)
    | _ =>
      let fs := fs.log w.id .unlink
      match f with
      | .error => ({ w with pc := .done .osError }, fs)
      | _ => ({ w with pc := .done .writerError }, { fs with dest := .absent })

/-- does the next step of `w` issue a faultable system call? -/
def needsFault (w : W) (fs : FS) : Bool :=
  match w.pc with
  | .done _ => false
  | .start => !fs.dirExists
  | .cleanup => (fs.tmp w.id).isSome
  | .rmmodule => fs.dest != .absent
  | _ => true

def W.finished (w : W) : Bool := match w.pc with | .done _ => true | _ => false

/-- run one writer to completion, consuming the fault script -/
def runOne : Nat → List Fault → W → FS → W × FS
  | 0, _, w, fs => (w, fs)
  | fuel + 1, fl, w, fs =>
    if w.finished then (w, fs)
    else if needsFault w fs then
      match fl with
      | [] => let r := step .none w fs; runOne fuel [] r.1 r.2
      | f :: fl => let r := step f w fs; runOne fuel fl r.1 r.2
    else let r := step .none w fs; runOne fuel fl r.1 r.2

def mkW (id : Nat) (kind : Kind) (len : Nat) (pyCompile : Bool := true) : W :=
  { id := id, kind := kind, len := len, pyCompile := pyCompile, remaining := len }

/-- enough steps for any run: every write makes progress -/
def fuelFor (len : Nat) : Nat := len + 10

/-- `putData(mibname, data, dryRun)` for one writer on file system `fs` -/
def put (kind : Kind) (len : Nat) (pyCompile : Bool) (dryRun : Bool) (fl : List Fault) (fs : FS) : Res × FS :=
  if dryRun then (.ok, fs)
  else
    let r := runOne (fuelFor len) fl (mkW 0 kind len pyCompile) fs
    (match r.1.pc with | .done res => res | _ => .osError, r.2)

/-- two writers of the same module under a schedule (`true` = writer 0 moves, `false` = writer 1);
each writer has its own fault script -/
def runTwo : List Bool → List Fault → List Fault → W → W → FS → W × W × FS
  | [], _, _, a, b, fs => (a, b, fs)
  | pick :: sched, fa, fb, a, b, fs =>
    if pick then
      if a.finished then runTwo sched fa fb a b fs
      else if needsFault a fs then
        match fa with
        | [] => let r := step .none a fs; runTwo sched [] fb r.1 b r.2
        | f :: fa => let r := step f a fs; runTwo sched fa fb r.1 b r.2
      else let r := step .none a fs; runTwo sched fa fb r.1 b r.2
    else
      if b.finished then runTwo sched fa fb a b fs
      else if needsFault b fs then
        match fb with
        | [] => let r := step .none b fs; runTwo sched fa [] a r.1 r.2
        | f :: fb => let r := step f b fs; runTwo sched fa fb a r.1 r.2
      else let r := step .none b fs; runTwo sched fa fb a r.1 r.2

/-! ### the code before the fix: one `os.write` whose return value is ignored -/

def stepOld (f : Fault) (w : W) (fs : FS) : W × FS :=
  match w.pc, f with
  | .write, .short j =>
    let n := min (j + 1) w.remaining
    ({ w with remaining := w.remaining - n, pc := .close },
     (fs.log w.id .write).setTmp w.id (some (.data w.id n)))
  | _, _ => step f w fs

end Pysmi.Writer
