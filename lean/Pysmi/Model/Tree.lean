/-!
# The directory tree a FileReader searches

`FileReader.getSubdirs(path)` is `[path]` followed by `getSubdirs(d)` for every entry `d` of `os.listdir(path)` that is a
directory (a link to a directory is one: `os.path.isdir` follows links) - the directories of the tree in pre-order, children in
listing order.  `getData` tries them in that order.  A directory is modelled by what matters to the lookup: the names of its
plain files and its sub-directories in listing order.
-/
namespace Pysmi.Tree

inductive Dir where
  | mk (files : List String) (subs : List Dir)

mutual
/-- `getSubdirs`: the file lists of the directories in the order they are searched -/
def Dir.flatten : Dir → List (List String)
  | .mk fs subs => fs :: flattenAll subs
def flattenAll : List Dir → List (List String)
  | [] => []
  | d :: ds => d.flatten ++ flattenAll ds
end

mutual
/-- number of directories in the tree, the root included -/
def Dir.size : Dir → Nat
  | .mk _ subs => 1 + sizeAll subs
def sizeAll : List Dir → Nat
  | [] => 0
  | d :: ds => d.size + sizeAll ds
end

mutual
/-- `t.At p`: the directory reached from the root of `t` by the path `p` (positions in the listings) -/
def Dir.at? : Dir → List Nat → Option Dir
  | d, [] => some d
  | .mk _ subs, i :: p => atAll subs i p
def atAll : List Dir → Nat → List Nat → Option Dir
  | [], _, _ => none
  | d :: _, 0, p => d.at? p
  | _ :: ds, i + 1, p => atAll ds i p
end

def Dir.files : Dir → List String
  | .mk fs _ => fs

end Pysmi.Tree
