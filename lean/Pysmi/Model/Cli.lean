import Pysmi.Model.Compile
/-
The command-line tools (C20): what `mibdump` reports and exits with, given the status map `compile()` returned, and
the copy loop of `mibcopy` as a fold over the source files it visits.
-/
namespace Pysmi.Cli
open Pysmi.Compile (Status)

abbrev StatusMap := List (String × Status)

/-- sysexits-style codes of scripts/mibdump.py (regenerated values are pinned in Props/C20) -/
structure ExitCodes where
  ok : Nat
  usage : Nat
  software : Nat
  missing : Nat
  failed : Nat

/-- `exitCode = EX_OK; if any missing: EX_MIB_MISSING; if any failed: EX_MIB_FAILED` -/
def mibdumpExit (ex : ExitCodes) (p : StatusMap) : Nat :=
  let c := ex.ok
  let c := if p.any (·.2 = .missing) then ex.missing else c
  if p.any (·.2 = .failed) then ex.failed else c

/-- the whole run of `mibdump`: `--build-index` with a format whose generator cannot build one is refused as a usage
error before anything is compiled (nothing written); otherwise the exit status follows the status map -/
def mibdumpRun (ex : ExitCodes) (noIndex : List String) (buildIndex : Bool) (fmt : String) (p : StatusMap) : Nat × Bool :=
  if buildIndex && noIndex.contains fmt then (ex.usage, false) else (mibdumpExit ex p, true)

/-- the module names the report lists under a category, in the order the script prints them (`sorted(processed)`) -/
def category (p : StatusMap) (s : Status) : List String :=
  ((p.filter (·.2 = s)).map (·.1)).mergeSort (fun a b => decide (a ≤ b))

/-! ### mibcopy -/

/-- revisions: `none` stands for "no REVISION clause" (the script maps it to the epoch) -/
abbrev Rev := Option Nat

/-- the epoch is 0; a REVISION date is a positive number of minutes -/
def revValue (r : Rev) : Nat := r.getD 0

structure Src where
  name : String       -- canonical module name found in the file
  rev : Rev
  file : Nat          -- identity of the source file (what gets copied)
  deriving DecidableEq, Repr

/-- destination: module name ↦ (revision, file); `cache`: the script's `mibsRevisions` -/
structure CopyState where
  dst : List (String × Rev × Nat)
  cache : List (String × Option Nat)      -- name ↦ recorded destination revision value; `none` = destination has no such file
  deriving Repr

def lookupDst (d : List (String × Rev × Nat)) (n : String) : Option (Rev × Nat) := d.lookup n

def setDst (d : List (String × Rev × Nat)) (n : String) (v : Rev × Nat) : List (String × Rev × Nat) :=
  (n, v) :: d.filter (fun e => e.1 != n)

def setCache (c : List (String × Option Nat)) (n : String) (v : Option Nat) : List (String × Option Nat) :=
  (n, v) :: c.filter (fun e => e.1 != n)

/-- the destination revision the script compares with: the cached one, else what the destination directory holds -/
def dstRevOf (st : CopyState) (n : String) : Option Nat :=
  match st.cache.lookup n with
  | some r => r
  | none => (lookupDst st.dst n).map (fun v => revValue v.1)

/-- `mibsRevisions[mibName] = dstMibRevision` when the name was not cached yet -/
def cacheLooked (st : CopyState) (n : String) (r : Option Nat) : List (String × Option Nat) :=
  match st.cache.lookup n with
  | some _ => st.cache
  | none => setCache st.cache n r

/-- `if dstMibRevision >= srcMibRevision: continue`; `absentIsOlder`: an absent destination compares older than everything
(the repaired script); with `false` it compares as the epoch (the pinned script) -/
def skipTest (absentIsOlder : Bool) (dstRev : Option Nat) (src : Nat) : Bool :=
  match dstRev with
  | some r => decide (r ≥ src)
  | none => if absentIsOlder then false else decide (0 ≥ src)

/-- one source file: look the destination revision up, skip when the destination is at least as new, otherwise copy and record -/
def copyStep (absentIsOlder : Bool) (st : CopyState) (s : Src) : CopyState :=
  if skipTest absentIsOlder (dstRevOf st s.name) (revValue s.rev) then
    { st with cache := cacheLooked st s.name (dstRevOf st s.name) }
  else
    { dst := setDst st.dst s.name (s.rev, s.file),
      cache := setCache (cacheLooked st s.name (dstRevOf st s.name)) s.name (some (revValue s.rev)) }

def mibcopy (absentIsOlder : Bool) (dst : List (String × Rev × Nat)) (srcs : List Src) : CopyState :=
  srcs.foldl (copyStep absentIsOlder) { dst := dst, cache := [] }

/-- the same step under `--dry-run`: the copy is left out, everything the script records and reports is as in a real run
(`mibsRevisions[mibName] = srcMibRevision` stands before the guarded `shutil.copy`) -/
def copyStepDry (absentIsOlder : Bool) (st : CopyState) (s : Src) : CopyState :=
  if skipTest absentIsOlder (dstRevOf st s.name) (revValue s.rev) then
    { st with cache := cacheLooked st s.name (dstRevOf st s.name) }
  else
    { dst := st.dst,
      cache := setCache (cacheLooked st s.name (dstRevOf st s.name)) s.name (some (revValue s.rev)) }

def mibcopyDry (absentIsOlder : Bool) (dst : List (String × Rev × Nat)) (srcs : List Src) : CopyState :=
  srcs.foldl (copyStepDry absentIsOlder) { dst := dst, cache := [] }

/-- the revision of a module as the compiler reports it (`MibInfo.revision`, which `mibcopy` compares): the latest of its
REVISION clauses, in whatever order they are written; none without a clause (`mibcopy` then takes the epoch) -/
def moduleRevision : List Nat → Rev
  | [] => none
  | r :: rs => some (rs.foldl max r)

/-- the options of a `mibdump` command line as far as borrowers are concerned -/
inductive Opt where
  | borrower (url : String)     -- `--mib-borrower=URL`
  | genTexts                    -- `--generate-mib-texts`
  | other
  deriving DecidableEq, Repr

def Opt.isGen : Opt → Bool
  | .genTexts => true
  | _ => false

/-- the script reads its options left to right; `--mib-borrower` files the URL with the value the texts flag has *at that
moment* (`mibBorrowers.append((opt[1], genMibTextsFlag))`) -/
def borrowerFlavours : List Opt → Bool → List (String × Bool)
  | [], _ => []
  | .borrower u :: r, f => (u, f) :: borrowerFlavours r f
  | .genTexts :: r, _ => borrowerFlavours r true
  | .other :: r, f => borrowerFlavours r f

/-- the flavour the run asks for: the flag after all options -/
def requestFlavour (os : List Opt) : Bool := os.any Opt.isGen

end Pysmi.Cli
