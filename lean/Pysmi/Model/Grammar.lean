/-
Context-free derivations over production lists, and a decidable *simulation* check between two
production lists: every production of the smaller grammar is obtained from a production of the larger one (same
left-hand side) by leaving each right-hand-side symbol alone or expanding it one level — in particular
every production that is simply present in the larger grammar.
Used to show that enabling relaxation options only adds derivable token strings (C17).
Generic in the symbol type (the generated tables intern symbols as numbers).  Import-free.
-/
namespace Pysmi.Grammar

abbrev Prods (σ : Type) := List (σ × List σ)

/-- `a ⇒* b`: sentential form `a` rewrites to `b` using productions of `P` -/
inductive Rewrites {σ : Type} (P : Prods σ) : List σ → List σ → Prop
  | refl (a : List σ) : Rewrites P a a
  | step {l r : List σ} {A : σ} {g b : List σ} : (A, g) ∈ P → Rewrites P (l ++ g ++ r) b → Rewrites P (l ++ [A] ++ r) b

variable {σ : Type} [DecidableEq σ]

/-- is `a` obtained from `b` by leaving each symbol alone or replacing it by a right-hand side of it in `P`? -/
def expand1 (P : Prods σ) : List σ → List σ → Bool
  | [], a => a.isEmpty
  | B :: b, a =>
    (match a with
     | x :: a' => x == B && expand1 P b a'
     | [] => false) ||
    P.any (fun pr => pr.1 == B && pr.2.isPrefixOf a && expand1 P b (a.drop pr.2.length))

/-- one production of the small grammar is simulated by the large one -/
def simProd (P' : Prods σ) (pr : σ × List σ) : Bool :=
  P'.any (fun q => q.1 == pr.1 && q.2 == pr.2) || P'.any (fun q => q.1 == pr.1 && expand1 P' q.2 pr.2)

def simAll (P P' : Prods σ) : Bool := P.all (simProd P')

/-- rename the symbols of a grammar -/
def mapProds {τ : Type} (f : σ → τ) (P : Prods σ) : Prods τ := P.map (fun pr => (f pr.1, pr.2.map f))

/-! ### class synthesis: `classAttr[func.__name__] = func` for every enabled option, in keyword order -/

/-- does option `o` replace member `f`? -/
def lists (tbl : List (String × List String)) (o f : String) : Bool :=
  match tbl.lookup o with
  | some fs => fs.contains f
  | none => false

/-- one `for func in relaxedGrammar[option]: classAttr[name] = func` round: members of `o` overwrite -/
def synthStep (tbl : List (String × List String)) (acc : String → Option String) (o : String) : String → Option String :=
  fun f => if lists tbl o f then some o else acc f

/-- which option supplies member `f` of the synthesised class (none = the base class's own) -/
def synth (tbl : List (String × List String)) (opts : List String) : String → Option String :=
  opts.foldl (synthStep tbl) (fun _ => none)

/-- `parserFactory(**kw)` / `lexerFactory(**kw)`: the keyword arguments in call order with their truth values.
An option that is passed but false is skipped before anything else is asked about it (also its name); the first
option that is true and unknown ends the call with the package error (its name is returned). -/
def factory (tbl : List (String × List String)) (kw : List (String × Bool)) : Except String (String → Option String) :=
  match kw.find? (fun p => p.2 && (tbl.lookup p.1).isNone) with
  | some p => .error p.1
  | none => .ok (synth tbl ((kw.filter (·.2)).map (·.1)))

end Pysmi.Grammar
