/-
Model of how structural references are carried into the intermediate records
(pysmi/codegen/symtable.py + intermediate.py): the import map, node type classification,
INDEX lists, AUGMENTS, OBJECTS / NOTIFICATIONS / VARIABLES lists and compliance groups.
Names and modules are numbers; modules are ranked by their sorted order. Import-free.
-/
namespace Pysmi.Struct

abbrev Name := Nat
abbrev Module := Nat

/-- `_importMap`: built by `for module in sorted(imports): for symbol in …: map[symbol] = module`, so the
last module (in sorted order) that imports a symbol wins; `imports` is given in sorted module order -/
def importMap (imports : List (Module × List Name)) (n : Name) : Option Module :=
  imports.foldl (fun acc e => if e.2.contains n then some e.1 else acc) none

/-- `{'module': importMap.get(x, self), 'object': x}` -/
structure Ref where
  module : Module
  object : Name
  deriving DecidableEq, Repr

def mkRef (imports : List (Module × List Name)) (self : Module) (x : Name) : Ref :=
  { module := (importMap imports x).getD self, object := x }

/-- OBJECTS / NOTIFICATIONS / VARIABLES lists -/
def genObjects (imports : List (Module × List Name)) (self : Module) (xs : List Name) : List Ref :=
  xs.map (mkRef imports self)

/-- INDEX { [IMPLIED] x, … } -/
structure IndexRef where
  module : Module
  object : Name
  implied : Bool
  deriving DecidableEq, Repr

def genTableIndex (imports : List (Module × List Name)) (self : Module) (idx : List (Bool × Name)) : List IndexRef :=
  idx.map (fun i => { module := (importMap imports i.2).getD self, object := i.2, implied := i.1 })

/-- compliance groups: per MODULE clause (named module or the current one), mandatory then conditional -/
def genCompliances (self : Module) (mods : List (Option Module × List Name)) : List Ref :=
  mods.flatMap (fun cm => cm.2.map (fun g => { module := cm.1.getD self, object := g }))

/-- the SYNTAX of an OBJECT-TYPE as far as classification goes -/
inductive Syn
  | seqOf (row : Name)       -- SEQUENCE OF X
  | named (t : Name)         -- a type name (possibly a row type)
  | bits
  | other
  deriving DecidableEq, Repr

inductive NodeType | table | row | column | scalar
  deriving DecidableEq, Repr

/-- `rows` = `_symtable_rows` (all X of `SEQUENCE OF X` in the module), `cols` = `_symtable_cols` (all field
names of all SEQUENCE declarations of the module) -/
def nodeType (rows cols : List Name) (name : Name) (syn : Syn) : NodeType :=
  if cols.contains name then .column
  else match syn with
    | .seqOf _ => .table
    | .named t => if rows.contains t then .row else .scalar
    | .bits => .scalar
    | .other => .scalar

end Pysmi.Struct
