/-
Python `dict` as an insertion-ordered association list with unique keys.
`set` replaces in place (keeping the position) or appends; `del` removes.
Import-free (linked into the driver).
-/
namespace Pysmi

abbrev AList (κ ν : Type) := List (κ × ν)

namespace AList
variable {κ ν : Type} [DecidableEq κ]

def get? (d : AList κ ν) (k : κ) : Option ν :=
  match d with
  | [] => none
  | (k', v) :: rest => if k' = k then some v else get? rest k

def contains (d : AList κ ν) (k : κ) : Bool := (get? d k).isSome

def set (d : AList κ ν) (k : κ) (v : ν) : AList κ ν :=
  match d with
  | [] => [(k, v)]
  | (k', v') :: rest => if k' = k then (k', v) :: rest else (k', v') :: set rest k v

def del (d : AList κ ν) (k : κ) : AList κ ν :=
  match d with
  | [] => []
  | (k', v') :: rest => if k' = k then rest else (k', v') :: del rest k

def keys (d : AList κ ν) : List κ := d.map (·.1)

end AList
end Pysmi
