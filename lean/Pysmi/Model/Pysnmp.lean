/-
The pure steps of `PySnmpCodeGen.genCode` (C04): expansion of imported SMI macro names into pysnmp class
names, and the stable sort of the records by OID (records without an OID have the empty key).  Import-free.
-/
namespace Pysmi.Pysnmp

/-- a record of the template context: symbol name and its OID (none for types, imports, meta) -/
structure Rec where
  name : String
  oid : Option (List Nat)
  deriving DecidableEq, Repr

/-- `x[1].get('oid', ())` -/
def key (r : Rec) : List Nat := r.oid.getD []

/-- Python's tuple comparison is the lexicographic order -/
def le (a b : Rec) : Bool := decide (key a ≤ key b)

/-- `sorted(context.items(), key=...)`: Python's sort is stable, so is merge sort -/
def sortByOid (l : List Rec) : List Rec := l.mergeSort le

/-- `imports[module].extend(SMI_OBJECTS[symbol])` / `.append(symbol)` -/
def expandImports (smiObjects : List (String × List String)) (symbols : List String) : List String :=
  symbols.flatMap (fun s => match smiObjects.lookup s with | some cls => cls | none => [s])

end Pysmi.Pysnmp
