import Pysmi.Generated.Text
/-
Texts on their way to the output (C15): Python's white-space class and the default text filter
`re.sub(r'\s+', ' ', text)`; the evaluation of a Python string literal body (escape sequences, the
tokenizer's newline normalisation); the two literal shapes of the pysnmp template and the escaping
filters `pyblock` / `pyline` of pysmi/codegen/jfilters.py; the text gating of the intermediate generator.
-/
namespace Pysmi.PyStr

abbrev Str := List Char

/-- `\s` of a Python 3 str pattern (table regenerated from CPython) -/
def isWs (c : Char) : Bool := Pysmi.Generated.Text.pyWhitespace.contains c.toNat

/-- `re.sub(r'\s+', ' ', s)`; `prevWs`: the previous character belonged to a run already replaced -/
def norm (prevWs : Bool) : Str → Str
  | [] => []
  | c :: cs => if isWs c then (if prevWs then norm true cs else ' ' :: norm true cs) else c :: norm false cs

/-- the default text filter -/
def normalize (s : Str) : Str := norm false s

/-- "equal up to white space": compare after deleting all white space -/
def dropWs (s : Str) : Str := s.filter (fun c => !isWs c)

/-! ### text gating of the intermediate generator -/

/-- `if self.genRules['text'] and text: outDict[key] = text` -/
def gated (genTexts : Bool) (text : Option Str) : Option Str :=
  match text with
  | some t => if genTexts && !t.isEmpty then some t else none
  | none => none

/-! ### Python string literals -/

/-- the tokenizer reads source lines with universal newlines: CR LF and lone CR become LF, also inside literals -/
def srcNl (afterCR : Bool) : Str → Str
  | [] => []
  | c :: cs =>
    if c = '\r' then '\n' :: srcNl true cs
    else if c = '\n' ∧ afterCR = true then srcNl false cs
    else c :: srcNl false cs

def srcNewlines (s : Str) : Str := srcNl false s

def hexVal (c : Char) : Option Nat :=
  if '0' ≤ c && c ≤ '9' then some (c.toNat - '0'.toNat)
  else if 'a' ≤ c && c ≤ 'f' then some (c.toNat - 'a'.toNat + 10)
  else if 'A' ≤ c && c ≤ 'F' then some (c.toNat - 'A'.toNat + 10)
  else none

def octVal (c : Char) : Option Nat := if '0' ≤ c && c ≤ '7' then some (c.toNat - '0'.toNat) else none

/-- exactly `n` hex digits -/
def takeHex : Nat → Str → Nat → Option (Nat × Str)
  | 0, s, acc => some (acc, s)
  | _ + 1, [], _ => none
  | n + 1, c :: cs, acc => match hexVal c with
    | some v => takeHex n cs (acc * 16 + v)
    | none => none

inductive EvalErr
  | syntaxError        -- truncated \x / \u / \U escape, code point out of range
  | namedEscape        -- \N{…}: depends on the Unicode name table, not modelled
  deriving DecidableEq, Repr

/-- value of the body of an ordinary (non-raw, non-bytes) string literal; `fuel` ≥ length -/
def evalBody : Nat → Str → Except EvalErr Str
  | 0, _ => .ok []
  | _ + 1, [] => .ok []
  | fuel + 1, '\\' :: rest =>
    match rest with
    | [] => .ok ['\\']
    | '\n' :: cs => evalBody fuel cs                                   -- line continuation
    | '\\' :: cs => (evalBody fuel cs).map ('\\' :: ·)
    | '\'' :: cs => (evalBody fuel cs).map ('\'' :: ·)
    | '"' :: cs => (evalBody fuel cs).map ('"' :: ·)
    | 'a' :: cs => (evalBody fuel cs).map (Char.ofNat 7 :: ·)
    | 'b' :: cs => (evalBody fuel cs).map (Char.ofNat 8 :: ·)
    | 'f' :: cs => (evalBody fuel cs).map (Char.ofNat 12 :: ·)
    | 'n' :: cs => (evalBody fuel cs).map ('\n' :: ·)
    | 'r' :: cs => (evalBody fuel cs).map ('\r' :: ·)
    | 't' :: cs => (evalBody fuel cs).map ('\t' :: ·)
    | 'v' :: cs => (evalBody fuel cs).map (Char.ofNat 11 :: ·)
    | 'x' :: cs => match takeHex 2 cs 0 with
      | some (v, cs') => (evalBody fuel cs').map (Char.ofNat v :: ·)
      | none => .error .syntaxError
    | 'u' :: cs => match takeHex 4 cs 0 with
      | some (v, cs') => (evalBody fuel cs').map (Char.ofNat v :: ·)
      | none => .error .syntaxError
    | 'U' :: cs => match takeHex 8 cs 0 with
      | some (v, cs') => if v ≤ 0x10FFFF then (evalBody fuel cs').map (Char.ofNat v :: ·) else .error .syntaxError
      | none => .error .syntaxError
    | 'N' :: _ => .error .namedEscape
    | c :: cs =>
      match octVal c with
      | some v1 =>
        match cs with
        | c2 :: cs2 =>
          match octVal c2 with
          | some v2 =>
            match cs2 with
            | c3 :: cs3 =>
              match octVal c3 with
              | some v3 => (evalBody fuel cs3).map (Char.ofNat ((v1 * 8 + v2) * 8 + v3) :: ·)
              | none => (evalBody fuel cs2).map (Char.ofNat (v1 * 8 + v2) :: ·)
            | [] => .ok [Char.ofNat (v1 * 8 + v2)]
          | none => (evalBody fuel cs).map (Char.ofNat v1 :: ·)
        | [] => .ok [Char.ofNat v1]
      | none => (evalBody fuel (c :: cs)).map ('\\' :: ·)             -- unknown escape: the backslash stays
  | fuel + 1, c :: cs => (evalBody fuel cs).map (c :: ·)

def eval (s : Str) : Except EvalErr Str := evalBody (s.length + 1) s

/-- `jfilters.pyblock`: for the body of a triple-quoted literal -/
def nul : Char := Char.ofNat 0

def pyblock (s : Str) : Str :=
  s.flatMap (fun c => if c = '\\' then ['\\', '\\'] else if c = '"' then ['\\', '"'] else if c = nul then ['\\', 'x', '0', '0'] else [c])

/-- `jfilters.pyline`: for the body of a one-line double-quoted literal -/
def pyline (s : Str) : Str :=
  s.flatMap (fun c => if c = '\\' then ['\\', '\\'] else if c = '"' then ['\\', '"'] else if c = nul then ['\\', 'x', '0', '0']
    else if c = '\n' then ['\\', 'n'] else if c = '\r' then ['\\', 'r'] else [c])

/-- is there a `"` that is not preceded by an odd run of backslashes? (`esc`: the previous character was an unconsumed backslash) -/
def hasBareQuote (esc : Bool) : Str → Bool
  | [] => false
  | c :: cs => if esc then hasBareQuote false cs else if c = '"' then true else hasBareQuote (c = '\\') cs

/-- does the text end in a backslash that escapes whatever follows the body? -/
def escAtEnd (esc : Bool) : Str → Bool
  | [] => esc
  | c :: cs => if esc then escAtEnd false cs else escAtEnd (c = '\\') cs

/-- what executing the module gives for a block site: `"""\` LF body LF `"""`, read through the tokenizer;
a NUL or a bare double quote in the body makes the module unusable (the latter may close the literal) -/
def blockValue (body : Str) : Except EvalErr Str :=
  if body.contains nul || hasBareQuote false body then .error .syntaxError
  else eval (srcNewlines ('\\' :: '\n' :: body ++ ['\n']))

/-- is there a line end that is not escaped by a backslash (which would make it a line continuation)? -/
def hasBareNewline (esc : Bool) : Str → Bool
  | [] => false
  | c :: cs => if esc then hasBareNewline false cs else if c = '\n' then true else hasBareNewline (c = '\\') cs

/-- what executing the module gives for a one-line site `"body"`: a raw line end or a bare quote ends the literal early -/
def lineValue (body : Str) : Except EvalErr Str :=
  if body.contains nul || hasBareNewline false (srcNewlines body) || hasBareQuote false body || escAtEnd false body then .error .syntaxError
  else eval (srcNewlines body)

end Pysmi.PyStr
