/-
`genImports` of both code generators (C16): SMIv1 -> SMIv2 import rewriting, merging of the
constant imports, and the emitted `imports` section.  Dicts are association lists in insertion order.
Import-free.
-/
namespace Pysmi.Imports

abbrev Imports := List (String × List String)                               -- module ↦ imported symbols
abbrev Table := List (String × List (String × List (String × String)))      -- convertImportv2

/-- replacement imports for symbol `s` of module `m`, if the table has the pair -/
def targets (tbl : Table) (m s : String) : Option (List (String × String)) :=
  match tbl.lookup m with
  | some syms => syms.lookup s
  | none => none

def convertible (tbl : Table) (m s : String) : Bool := (targets tbl m s).isSome

/-- `imports[m].append(s)` / `imports[m] = [s]` -/
def addTo (imp : Imports) (m s : String) : Imports :=
  match imp with
  | [] => [(m, [s])]
  | (k, v) :: rest => if k = m then (k, v ++ [s]) :: rest else (k, v) :: addTo rest m s

/-- everything the walk over the original IMPORTS appends, in the order it appends it -/
def additions (tbl : Table) (imp : Imports) : List (String × String) :=
  imp.flatMap (fun e => e.2.flatMap (fun s => (targets tbl e.1 s).getD []))

/-- the conversion step: converted symbols leave their SMIv1 module, their replacements are appended -/
def convert (tbl : Table) (imp : Imports) : Imports :=
  (additions tbl imp).foldl (fun acc t => addTo acc t.1 t.2)
    (imp.map (fun e => (e.1, e.2.filter (fun s => !convertible tbl e.1 s))))

/-- `for module in constImports: imports[module] += constImports[module]` (or a new key) -/
def mergeConst (consts : Imports) (imp : Imports) : Imports :=
  consts.foldl (fun acc c => c.2.foldl (fun a s => addTo a c.1 s)
    (if acc.any (·.1 = c.1) then acc else acc ++ [(c.1, [])])) imp

/-- the emitted `imports` section: modules sorted, per module `sorted(set(symbols))`, empty lists dropped -/
def emit (imp : Imports) : Imports :=
  let mods := (imp.map (·.1)).eraseDups.mergeSort (fun a b => decide (a ≤ b))
  (mods.map (fun m => (m, ((imp.lookup m).getD []).eraseDups.mergeSort (fun a b => decide (a ≤ b))))).filter (fun e => !e.2.isEmpty)

/-- `genImports` of the intermediate generator: conversion, constant imports, emission; also the module tuple returned -/
def genImports (tbl : Table) (consts : Imports) (imp : Imports) : Imports × List String :=
  let merged := mergeConst consts (convert tbl imp)
  (emit merged, (merged.map (·.1)).eraseDups.mergeSort (fun a b => decide (a ≤ b)))

def symbolsOf (imp : Imports) (m : String) : List String := (imp.lookup m).getD []

/-- no replacement is itself replaceable: the walk never has to look at what it appended -/
def TargetsFinal (tbl : Table) : Prop :=
  ∀ e ∈ tbl, ∀ se ∈ e.2, ∀ t ∈ se.2, convertible tbl t.1 t.2 = false

instance (tbl : Table) : Decidable (TargetsFinal tbl) := by unfold TargetsFinal; infer_instance

end Pysmi.Imports
