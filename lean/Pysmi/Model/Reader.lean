/-
Model of the name-to-file lookup of the readers:
* `AbstractReader.getMibVariants` (pysmi/reader/base.py) — on ASCII names (lists of characters),
* `FileReader` `.index` precedence and directory-tree lookup (pysmi/reader/localfile.py),
* `ZipReader` member table and lookup (pysmi/reader/zipreader.py),
* `getReadersFromUrls` scheme → reader kind (pysmi/reader/url.py).
Import-free.
-/
namespace Pysmi.Reader

abbrev Str := List Char

/-! ### ASCII case mapping and `str.find` -/

def upperC (c : Char) : Char := if 'a' ≤ c ∧ c ≤ 'z' then Char.ofNat (c.toNat - 32) else c
def lowerC (c : Char) : Char := if 'A' ≤ c ∧ c ≤ 'Z' then Char.ofNat (c.toNat + 32) else c
def upper (s : Str) : Str := s.map upperC
def lower (s : Str) : Str := s.map lowerC

def startsWith : Str → Str → Bool
  | _, [] => true
  | [], _ :: _ => false
  | c :: s, d :: p => c == d && startsWith s p

/-- `s.find(p)`: index of the first occurrence, `none` for -1 -/
def find (s p : Str) : Option Nat :=
  if startsWith s p then some 0
  else match s with
    | [] => none
    | _ :: rest => (find rest p).map (· + 1)

structure Opts where
  original : Bool := true
  uppercase : Bool := true
  lowcase : Bool := true
  fuzzy : Bool := true
  exts : List Str
  deriving Repr

def dashMib : Str := ['-', 'm', 'i', 'b']

/-- the spellings switched on, in the order the code lists them -/
def spellings (o : Opts) (name : Str) : List Str :=
  (if o.original then [name] else []) ++ (if o.uppercase then [upper name] else []) ++
  (if o.lowcase then [lower name] else [])

/-- candidate base names, before extensions.  With fuzzy matching the `-mib` part is looked for in the lower-cased
name, whatever spellings are switched on (since repair 634cb10; before it, in the last spelling switched on, which
raised IndexError when none was).  The result is kept an `Option` for the callers; it is always `some`. -/
def baseNames (o : Opts) (name : Str) : Option (List Str) :=
  let fs := spellings o name
  if o.fuzzy then
    match find (lower name) dashMib with
    | some part => some (fs ++ fs.map (fun x => x.take part))
    | none => some (fs ++ [upper (name ++ dashMib), lower (name ++ dashMib)])
  else some fs

/-- `getMibVariants`: (alias, file name) pairs in the order the code tries them -/
def variants (o : Opts) (name : Str) : Option (List (Str × Str)) :=
  (baseNames o name).map fun fs => fs.flatMap (fun x => o.exts.map (fun y => (x, x ++ y)))

/-- `FileReader.loadIndex`: one line of `.index` split at white space; a line that does not hold two fields maps
nothing (since repair 6ddf549 in /repo; it used to raise ValueError), fields beyond the second are ignored -/
def indexLine (fields : List Str) : Option (Str × Str) :=
  match fields with
  | a :: b :: _ => some (a, b)
  | _ => none

/-- the pairs `dict()` is built from, in file order -/
def loadIndex (lines : List (List Str)) : List (Str × Str) := lines.filterMap indexLine

/-- `dict` lookup over pairs in file order: the last line for a name is the one that counts -/
def indexLookup (index : List (Str × Str)) (name : Str) : Option Str :=
  ((index.filter (fun e => e.1 == name)).getLast?).map (·.2)

/-- `FileReader.getMibVariants`: an `.index` entry takes precedence -/
def fileVariants (o : Opts) (index : List (Str × Str)) (useIndex : Bool) (name : Str) :
    Option (List (Str × Str)) :=
  match (if useIndex then indexLookup index name else none) with
  | some f => some [(name, f)]
  | none => variants o name

/-! ### directory tree lookup -/

/-- a regular file: content id and modification time -/
structure FileEnt where
  content : Nat
  mtime : Int
  deriving DecidableEq, Repr

/-- `for path in subdirs: for alias, file in variants: if isfile(path/file): return …`;
`dirs` are the directories in visiting order, each a lookup of regular files by name -/
def dirLookup (dirs : List (Str → Option FileEnt)) (vs : List (Str × Str)) : Option (Str × Str × FileEnt) :=
  match dirs with
  | [] => none
  | d :: rest =>
    match vs.findSome? (fun v => (d v.2).map (fun e => (v.1, v.2, e))) with
    | some r => some r
    | none => dirLookup rest vs

inductive GetRes
  | notFound
  | tooLarge                                   -- a file of `maxMibSize` bytes or more: reader error, search stops
  | found (alias file : Str) (e : FileEnt)
  deriving DecidableEq, Repr

/-- `FileReader.getData`: the first matching file decides; if it reaches the size limit the reader
raises its (non-"not found") error instead of returning truncated data -/
def fileGetData (dirs : List (Str → Option FileEnt)) (vs : List (Str × Str)) (tooLarge : Nat → Bool) : GetRes :=
  match dirLookup dirs vs with
  | none => .notFound
  | some (a, f, e) => if tooLarge e.content then .tooLarge else .found a f e

/-! ### ZIP member table -/

/-- an archive: members in `infolist()` order; a member is a plain file or a nested archive -/
inductive Member
  | file (path : Str) (e : FileEnt)
  | zip (path : Str) (inner : List Member)
  | dirEntry (path : Str)              -- name ending in '/': skipped

/-- `os.path.basename` -/
def basename (p : Str) : Str := (p.reverse.takeWhile (· != '/')).reverse

def plusFree (members : List (Str × FileEnt)) (k : Str) : Nat → Str
  | 0 => k
  | fuel + 1 => if members.any (·.1 == k) then plusFree members (k ++ ['+']) fuel else k

def setKey (members : List (Str × FileEnt)) (k : Str) (e : FileEnt) : List (Str × FileEnt) :=
  if members.any (·.1 == k) then members.map (fun m => if m.1 == k then (k, e) else m) else members ++ [(k, e)]

/-- `for innerFilename, ref in innerMembers.items(): while innerFilename in members: innerFilename += '+'` -/
def mergeInner : List (Str × FileEnt) → List (Str × FileEnt) → List (Str × FileEnt)
  | [], acc => acc
  | (k, e) :: rest, acc =>
    let k' := plusFree acc k (acc.length + 1)
    mergeInner rest (acc ++ [(k', e)])

/-- `_readZipDirectory`: basename → innermost member (content, mtime) -/
def buildMembers : List Member → List (Str × FileEnt) → List (Str × FileEnt)
  | [], acc => acc
  | .file path e :: rest, acc =>
    let fn := basename path
    if fn.isEmpty then buildMembers rest acc else buildMembers rest (setKey acc fn e)
  | .dirEntry _ :: rest, acc => buildMembers rest acc
  | .zip path inner :: rest, acc =>
    let fn := basename path
    if fn.isEmpty then buildMembers rest acc
    else buildMembers rest (mergeInner (buildMembers inner []) acc)

/-- `ZipReader.getData`: first variant present in the member table whose content is not empty
(`emptyContent` tells which content ids are the empty string) -/
def zipLookup (members : List (Str × FileEnt)) (emptyContent : Nat → Bool) (vs : List (Str × Str)) :
    Option (Str × Str × FileEnt) :=
  vs.findSome? fun v =>
    match members.find? (·.1 == v.2) with
    | some m => if emptyContent m.2.content then none else some (v.1, v.2, m.2)
    | none => none

/-- `ZipReader.getData`: an empty member table answers not-found before any variant is computed;
outer `none` = IndexError from `getMibVariants` -/
def zipGetData (o : Opts) (members : List (Str × FileEnt)) (emptyContent : Nat → Bool) (name : Str) :
    Option (Option (Str × Str × FileEnt)) :=
  if members.isEmpty then some none
  else (variants o name).map (zipLookup members emptyContent)

/-! ### source URL → reader kind -/

inductive Kind | file | zip | http | ftp | unsupported
  deriving DecidableEq, Repr

def endsWith (s suf : Str) : Bool := startsWith s.reverse suf.reverse

/-- `getReadersFromUrls`: decision on (scheme, path) as `urlparse` returns them -/
def urlKind (scheme path : Str) : Kind :=
  let isZip := endsWith path ".zip".toList || endsWith path ".ZIP".toList
  if scheme = [] ∨ scheme = "file".toList ∨ scheme = "zip".toList then
    if scheme ≠ "file".toList ∧ isZip then .zip else .file
  else if scheme = "http".toList ∨ scheme = "https".toList then .http
  else if scheme = "ftp".toList ∨ scheme = "sftp".toList then .ftp
  else .unsupported

/-- the path a local reader is made for: with the scheme `zip` the archive may be named where a host would stand
(`zip://mymibs.zip`, the form the documentation gives); every other scheme takes the path component alone -/
def urlPath (scheme netloc path : Str) : Str :=
  if scheme = "zip".toList ∧ netloc ≠ [] then netloc ++ path else path

/-- reader kind and, for the local kinds, the path it is made for -/
def urlTarget (scheme netloc path : Str) : Kind × Str :=
  (urlKind scheme (urlPath scheme netloc path), urlPath scheme netloc path)

end Pysmi.Reader
