/-
`IntermediateCodeGen.genTime` (REVISION / LAST-UPDATED stamps): `'19' +` for the 11-character short form, then
`time.strptime(s, '%Y%m%d%H%MZ')` and `time.strftime('%Y-%m-%d %H:%M', …)`, with the dummy date for whatever
`strptime` rejects.

`strptime` is modelled as CPython implements it: the format is turned into the regular expression
`(\d\d\d\d)(1[0-2]|0[1-9]|[1-9])(3[0-1]|[1-2]\d|0[1-9]|[1-9]| [1-9])(2[0-3]|[0-1]\d|\d)([0-5]\d|\d)Z` (case-insensitive),
matched by backtracking from the start of the string (first alternative first), the rest of the string must be empty,
and the date must exist (`datetime.date(y, m, d)`: year 1..9999, day within the month).  `strftime('%Y')` is glibc's:
no zero padding.  ASCII texts only (`\d` of a `str` pattern also matches other Unicode decimal digits; that part of
CPython is not modelled and the correspondence draws ASCII texts).
Import-free (linked into the driver).
-/
namespace Pysmi.Time

abbrev Str := List Char

inductive Cls
  | range (lo hi : Char)     -- `[lo-hi]`; `\d` is `[0-9]` on ASCII
  | lit (c : Char)
  | zed                      -- the literal `Z` under IGNORECASE
  deriving Repr, DecidableEq

def Cls.ok : Cls → Char → Bool
  | .range lo hi, c => lo.toNat ≤ c.toNat && c.toNat ≤ hi.toNat
  | .lit x, c => c == x
  | .zed, c => c == 'Z' || c == 'z'

/-- one alternative: a sequence of character classes -/
abbrev Alt := List Cls

def matchAlt : Alt → Str → Option (Str × Str)
  | [], s => some ([], s)
  | _ :: _, [] => none
  | k :: ks, c :: cs => if k.ok c then (matchAlt ks cs).map fun (m, r) => (c :: m, r) else none

/-- groups in sequence, each an ordered alternation, matched the way a backtracking engine does: the first
alternative that lets the rest of the pattern match wins -/
def matchFields : List (List Alt) → Str → Option (List Str × Str)
  | [], s => some ([], s)
  | alts :: more, s => alts.findSome? fun a =>
      match matchAlt a s with
      | none => none
      | some (m, rest) => (matchFields more rest).map fun (ms, r) => (m :: ms, r)

def d09 : Cls := .range '0' '9'

def fields : List (List Alt) := [
  [[d09, d09, d09, d09]],
  [[.lit '1', .range '0' '2'], [.lit '0', .range '1' '9'], [.range '1' '9']],
  [[.lit '3', .range '0' '1'], [.range '1' '2', d09], [.lit '0', .range '1' '9'], [.range '1' '9'], [.lit ' ', .range '1' '9']],
  [[.lit '2', .range '0' '3'], [.range '0' '1', d09], [d09]],
  [[.range '0' '5', d09], [d09]],
  [[.zed]]]

/-- `int(group)`: decimal value, a leading blank ignored -/
def toNat (s : Str) : Nat := s.foldl (fun n c => if c == ' ' then n else 10 * n + (c.toNat - 48)) 0

def isLeap (y : Nat) : Bool := y % 4 == 0 && (y % 100 != 0 || y % 400 == 0)

def daysIn (y m : Nat) : Nat :=
  if m == 2 then (if isLeap y then 29 else 28)
  else if m == 4 || m == 6 || m == 9 || m == 11 then 30 else 31

structure TM where
  (y mo d h mi : Nat)
  deriving Repr, DecidableEq

def strptime (s : Str) : Option TM :=
  match matchFields fields s with
  | some ([Y, m, d, H, M, _], []) =>
    let t : TM := ⟨toNat Y, toNat m, toNat d, toNat H, toNat M⟩
    if 1 ≤ t.y && t.d ≤ daysIn t.y t.mo then some t else none
  | _ => none

def digits (n : Nat) : Str := Nat.toDigits 10 n

def pad2 (n : Nat) : Str := if n < 10 then '0' :: digits n else digits n

def strftime (t : TM) : Str :=
  digits t.y ++ ['-'] ++ pad2 t.mo ++ ['-'] ++ pad2 t.d ++ [' '] ++ pad2 t.h ++ [':'] ++ pad2 t.mi

def dummy : Str := "1970-01-01 00:00".toList

/-- one element of `genTime`'s result -/
def genTime (s : Str) : Str :=
  let s := if s.length = 11 then '1' :: '9' :: s else s
  match strptime s with
  | some t => strftime t
  | none => dummy

end Pysmi.Time
