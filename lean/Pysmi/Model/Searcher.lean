/-
Model of the searchers' decision (pysmi/searcher/anyfile.py, pyfile.py, stub.py) over an
abstract directory: for a module name, what exists under `name + suffix`.  Import-free.
-/
namespace Pysmi.Searcher

inductive Ent
  | absent
  | dir                                     -- a directory of that name: never counts
  | file (mtime : Int) (hdr : Option Int)   -- regular file; `hdr` = the timestamp inside a byte-code file with a usable header
  deriving DecidableEq, Repr

inductive Ans | notFound | notModified | returns
  deriving DecidableEq, Repr

/-- `for sfx in exts: …` of AnyFileSearcher (also the source-suffix loop of PyFileSearcher) -/
def scanFiles (look : String → Ent) (mtime : Int) : List String → Ans
  | [] => .notFound
  | sfx :: rest =>
    match look sfx with
    | .file t _ => if t ≥ mtime then .notModified else scanFiles look mtime rest
    | _ => scanFiles look mtime rest

def anyFile (exts : List String) (look : String → Ent) (mtime : Int) (rebuild : Bool) : Ans :=
  if rebuild then .returns else scanFiles look mtime exts

/-- the byte-code loop of PyFileSearcher: a file with a good magic number and a timestamp (PEP 552: flags word 0, then
the timestamp) that is not older than the MIB answers "up to date"; an older one is passed over like any other file
(since repair of the loop in /repo; it used to answer "absent" on the spot and hide a fresh source file beside it) -/
def scanPyc (look : String → Ent) (mtime : Int) : List String → Bool
  | [] => false
  | sfx :: rest =>
    match look sfx with
    | .file _ (some pyTime) => if pyTime ≥ mtime then true else scanPyc look mtime rest
    | _ => scanPyc look mtime rest

def pyFile (bytecode source : List String) (look : String → Ent) (mtime : Int) (rebuild : Bool) : Ans :=
  if rebuild then .returns
  else if scanPyc look mtime bytecode then .notModified
  else scanFiles look mtime source

def stub (names : List String) (name : String) (_mtime : Int) (_rebuild : Bool) : Ans :=
  if name ∈ names then .notModified else .notFound

end Pysmi.Searcher
