import Pysmi.Model.PyExpr
import Pysmi.Model.Lexer
/-
Model of PLY's LR driver (`yacc.LRParser.parseopt_notrack`) as a *checked* LR driver over arbitrary
tables: at every reduction it verifies that the symbols popped are the production's right-hand
side, so the properties of `Props/C02` hold whatever the tables are — PLY's LALR tables are only
data for the run.  Import-free apart from the other model files.
-/
namespace Pysmi.LR
open Pysmi.Py

abbrev Sym := String

structure Rule where
  lhs : Sym
  rhs : List Sym
  func : String          -- the `p_*` function owning the production
  deriving Repr, Inhabited, DecidableEq

/-- a terminal as the parser sees it -/
structure Token where
  ty : Sym
  val : PyVal
  line : Nat
  deriving Repr, Inhabited

inductive Tree
  | leaf (t : Token)
  | node (p : Nat) (lhs : Sym) (kids : List Tree)
  deriving Repr, Inhabited

def Tree.sym : Tree → Sym
  | .leaf t => t.ty
  | .node _ l _ => l

mutual
def Tree.frontier : Tree → List Token
  | .leaf t => [t]
  | .node _ _ ks => frontierL ks
def frontierL : List Tree → List Token
  | [] => []
  | k :: ks => k.frontier ++ frontierL ks
end

structure Tables where
  prods : Array Rule
  action : Nat → Sym → Option Int       -- >0 shift to state, <0 reduce by production, 0 accept
  goto : Nat → Sym → Option Nat
  defaulted : Nat → Option Int           -- PLY's defaulted_states: reduce without looking at the lookahead
  start : Sym

inductive Res
  | ok (t : Tree)
  | syntaxError (tok : Option Token)     -- `p_error(tok)`; none = end of input
  | lexerErrorReached                    -- the parser asked for the token at which the lexer fails
  | tableError (msg : String)            -- inconsistent tables (never with PLY's)
  | fuel
  deriving Repr, Inhabited

abbrev Stack := List (Nat × Tree)        -- top first

def topState (st : Stack) : Nat :=
  match st with
  | [] => 0
  | (s, _) :: _ => s

def endSym : Sym := "$end"
def lexErrSym : Sym := "$lexerror"

/-- the action PLY takes in `state`: the defaulted reduction if there is one, else the table entry for
the lookahead (the first remaining token, `$end` at the end of the input) -/
def chooseAction (T : Tables) (state : Nat) (inp : List Token) : Option Int :=
  match T.defaulted state with
  | some a => some a
  | none => T.action state (match inp with | [] => endSym | t :: _ => t.ty)

/-- a reduction by production `p` on stack `st`: the new stack, or what is wrong with the tables -/
def reduce (T : Tables) (p : Nat) (st : Stack) : Except String Stack :=
  match T.prods[p]? with
  | none => .error "unknown production"
  | some pr =>
    let n := pr.rhs.length
    if n ≤ st.length then
      let kids := ((st.take n).map (·.2)).reverse
      if kids.map Tree.sym = pr.rhs then
        let st' := st.drop n
        match T.goto (topState st') pr.lhs with
        | none => .error "no goto"
        | some g => .ok ((g, .node p pr.lhs kids) :: st')
      else .error "table inconsistent with production"
    else .error "stack underflow"

/-- the driver loop over a token list; the input ends with an implicit `$end` -/
def run (T : Tables) : Nat → Stack → List Token → Res
  | 0, _, _ => .fuel
  | fuel + 1, st, inp =>
    match chooseAction T (topState st) inp with
    | none =>
      match inp with
      | [] => .syntaxError none
      | t :: _ => if t.ty == lexErrSym then .lexerErrorReached else .syntaxError (some t)
    | some a =>
      if a > 0 then
        match inp with
        | [] => .tableError "shift at end of input"
        | t :: rest => if t.ty == lexErrSym then .lexerErrorReached else run T fuel ((a.toNat, .leaf t) :: st) rest
      else if a < 0 then
        match reduce T (-a).toNat st with
        | .error m => .tableError m
        | .ok st' => run T fuel st' inp
      else
        match st, inp with
        | [(_, t)], [] => if t.sym = T.start then .ok t else .tableError "accept of a non-start symbol"
        | _, _ => .tableError "accept with a deep stack or before the end of the input"

/-! ### semantic actions -/

structure Actions where
  body : String → Option (List Stmt)     -- translated body of a `p_*` function
  native : String → Bool                 -- functions modelled natively (`p_importPart`)

mutual
/-- the value PLY computes for a tree: tokens carry their value, a node the result of its action -/
def value (T : Tables) (A : Actions) : Tree → Except String PyVal
  | .leaf t => .ok t.val
  | .node p _ kids => do
    let vs ← valueL T A kids
    match T.prods[p]? with
    | none => .error "unknown production"
    | some pr =>
      if A.native pr.func then
        (if pr.func == "p_importPart" then .ok (importPart (vs.headD .none)) else .error s!"no native model of {pr.func}")
      else match A.body pr.func with
        | some b => runAction b vs
        | none => .error s!"no action for {pr.func}"
def valueL (T : Tables) (A : Actions) : List Tree → Except String (List PyVal)
  | [] => .ok []
  | k :: ks => do let v ← value T A k; let vs ← valueL T A ks; return v :: vs
end

/-- `parser.parse(text)` of `SmiV2Parser`: modules of the file, or the error raised -/
inductive ParseRes
  | modules (ast : PyVal)                       -- what `parse()` returns (a list)
  | lexerError (line : Nat)
  | parserError (line : Nat)
  | other (msg : String)
  deriving Repr, Inhabited

def tokOf (t : Lexer.Tok) : Token :=
  { ty := t.ty, line := t.line,
    val := match t.val with | .str s => .str s | .int v => .int v }

/-- all tokens up to the first lexer error (if any), that error's line, and the line counter at the end -/
def collect (cfg : Lexer.Cfg) : Nat → Lexer.LexState → Nat → List Char → List Lexer.Tok →
    List Lexer.Tok × Option Nat × Nat
  | 0, _, line, _, acc => (acc.reverse, none, line)
  | _ + 1, _, line, [], acc => (acc.reverse, none, line)
  | fuel + 1, st, line, c :: cs, acc =>
    match Lexer.step cfg st line (c :: cs) with
    | .err _ => (acc.reverse, some line, line)
    | .tok t n next lines => collect cfg fuel next (line + lines) ((c :: cs).drop (max n 1)) (t :: acc)
    | .skip n next lines => collect cfg fuel next (line + lines) ((c :: cs).drop (max n 1)) acc

/-- the parser's input: the tokens, followed by the sentinel if scanning failed -/
def parserInput (toks : List Lexer.Tok) (lexErr : Option Nat) : List Token :=
  toks.map tokOf ++ (match lexErr with | some l => [{ ty := lexErrSym, val := .none, line := l }] | none => [])

def fuelFor (n : Nat) : Nat := 12 * n + 64

/-- lexer + driver + actions -/
def parse (cfg : Lexer.Cfg) (T : Tables) (A : Actions) (text : List Char) : ParseRes :=
  let c := collect cfg (text.length + 1) .initial 1 text []
  let inp := parserInput c.1 c.2.1
  match run T (fuelFor inp.length) [] inp with
  | .ok tree =>
    match value T A tree with
    | .error e => .other e
    | .ok v =>
      -- `if ast and ast[0] == 'mibFile' and ast[1]: return ast[1] else: return []`
      match v with
      | .tuple [.str tag, body] => if tag == "mibFile".toList && body.truthy then .modules body else .modules (.list [])
      | _ => .modules (.list [])
  | .syntaxError (some t) => .parserError t.line
  | .syntaxError none => .parserError c.2.2
  | .lexerErrorReached => .lexerError (c.2.1.getD 0)
  | .tableError m => .other m
  | .fuel => .other "fuel"

end Pysmi.LR
