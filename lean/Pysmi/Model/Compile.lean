import Pysmi.Model.Py
/-
Model of `MibCompiler.compile` (pysmi/compiler.py) over abstract component oracles.

Every component (sources, parser, symbol pass, code generator, searchers, borrowers, writer)
is a pure function giving the *outcome* of the call — the package error, the
not-found / not-modified signals, or a value. The model reproduces the dict bookkeeping of
the six phases (Python dict = insertion-ordered `AList`; snapshot iteration) and records
every component call in a trace.

Names, texts, trees and generated data are natural numbers (the harness maps strings to
indices); nothing in `compile` inspects them beyond equality.
-/
namespace Pysmi.Compile

abbrev Name := Nat

inductive Status | compiled | untouched | failed | unprocessed | missing | borrowed
  deriving DecidableEq, Repr

inductive Call
  | get (src : Nat) (n : Name)
  | parse (text : Nat)
  | sym (tree : Nat)
  | gen (tree : Nat) (genTexts : Bool)
  | search (i : Nat) (n : Name) (mtime : Int) (rebuild : Bool)
  | borrow (i : Nat) (n : Name) (genTexts : Bool)
  | put (n : Name) (data : Nat) (dryRun : Bool)
  deriving DecidableEq, Repr

/-- the error attached to a `failed` status: which call raised, or "file holds no module" -/
inductive Err
  | call (c : Call)
  | noModule (src : Nat) (n : Name)
  deriving DecidableEq, Repr

structure Entry where
  st : Status
  err : Option Err := none      -- failed: the causing error
  alias : Option Name := none   -- compiled / borrowed: fileInfo.name
  deriving DecidableEq, Repr

inductive SrcAns | notFound | error | ok (alias : Name) (mtime : Int) (text : Nat)
  deriving DecidableEq, Repr
inductive ParseAns | error | trees (ts : List Nat)
  deriving DecidableEq, Repr
inductive SymAns | error | ok (name : Name) (imports : List Name)
  deriving DecidableEq, Repr
inductive GenAns | error | ok (data : Nat)
  deriving DecidableEq, Repr
inductive SearchAns | notFound | notModified | error | returns
  deriving DecidableEq, Repr
inductive BorrowAns | error | ok (alias : Name) (mtime : Int) (data : Nat)
  deriving DecidableEq, Repr

structure Cfg where
  sources : List (Name → SrcAns)
  parse : Nat → ParseAns
  sym : Nat → SymAns
  gen : Nat → Bool → GenAns
  searchers : List (Name → Int → Bool → SearchAns)
  borrowers : List (Name → Bool → BorrowAns)
  put : Name → Nat → Bool → Bool          -- false = the writer raised the package error

structure Opts where
  noDeps : Bool := false
  rebuild : Bool := false
  dryRun : Bool := false
  genTexts : Bool := false
  writeMibs : Bool := true
  ignoreErrors : Bool := false
  deriving DecidableEq, Repr

/-- `(fileInfo.name, fileInfo.mtime, payload)`; payload = tree while parsed, data once built -/
abbrev Rec := Name × Int × Nat

structure St where
  processed : AList Name Entry := []
  parsed : AList Name Rec := []
  failed : AList Name Unit := []
  borrowedM : AList Name Rec := []
  built : AList Name Rec := []
  canonical : List Name := []
  queue : List Name := []
  fetched : List Name := []
  trace : List Call := []
  deriving Repr

def St.log (s : St) (c : Call) : St := { s with trace := s.trace ++ [c] }

/-! ### Phase 1: discovery -/

/-- the `except error.PySmiError` handler of the source loop -/
def failSource (s : St) (n : Name) (e : Err) : St :=
  { s with failed := s.failed.set n (), processed := s.processed.set n { st := .failed, err := some e } }

/-- `if k in failedMibs: del failedMibs[k]; processed.pop(k, None)`: the module is available now, whatever went wrong
with it (or with the name it was asked for by) before -/
def clearStale (s : St) (k : Name) : St :=
  if s.failed.contains k then { s with failed := s.failed.del k, processed := s.processed.del k } else s

/-- body of `for mibTree in mibTrees` after a successful symbol pass -/
def registerTree (req : List Name) (s : St) (n alias : Name) (mtime : Int) (tree : Nat)
    (name : Name) (imports : List Name) : St :=
  let s := { s with parsed := s.parsed.set name (alias, mtime, tree) }
  let s := clearStale (clearStale s n) name
  let s := { s with queue := s.queue ++ imports }
  if (n ∈ req ∨ alias ∈ req) ∧ name ∉ s.canonical then { s with canonical := s.canonical ++ [name] } else s

/-- `for mibTree in mibTrees: …`; `none` = the symbol pass raised on some tree -/
def symTrees (c : Cfg) (req : List Name) (n alias : Name) (mtime : Int) :
    List Nat → St → St × Option Err
  | [], s => (s, none)
  | t :: ts, s =>
    let s := s.log (.sym t)
    match c.sym t with
    | .error => (s, some (.call (.sym t)))
    | .ok name imports => symTrees c req n alias mtime ts (registerTree req s n alias mtime t name imports)

/-- `for source in self._sources: … else: …`; `i` counts the sources already tried -/
def trySources (c : Cfg) (req : List Name) (n : Name) : List (Name → SrcAns) → Nat → St → St
  | [], _, s =>
    let s := if s.failed.contains n then s else { s with failed := s.failed.set n () }
    if s.processed.contains n then s else { s with processed := s.processed.set n { st := .missing } }
  | src :: rest, i, s =>
    let s := s.log (.get i n)
    match src n with
    | .notFound => trySources c req n rest (i + 1) s
    | .error => trySources c req n rest (i + 1) (failSource s n (.call (.get i n)))
    | .ok alias mtime text =>
      let s := s.log (.parse text)
      match c.parse text with
      | .error => trySources c req n rest (i + 1) (failSource s n (.call (.parse text)))
      | .trees [] => trySources c req n rest (i + 1) (failSource s n (.noModule i n))
      | .trees ts =>
        match symTrees c req n alias mtime ts s with
        | (s, some e) => trySources c req n rest (i + 1) (failSource s n e)
        | (s, none) => s                                   -- `break`

/-- one iteration of `while mibsToParse` -/
def discoverStep (c : Cfg) (req : List Name) (n : Name) (s : St) : St :=
  if s.parsed.contains n then s
  else if s.failed.contains n then s
  else if n ∈ s.fetched then s
  else trySources c req n c.sources 0 { s with fetched := n :: s.fetched }

/-- `while mibsToParse: …` with explicit fuel; `none` = fuel exhausted -/
def discover (c : Cfg) (req : List Name) : Nat → St → Option St
  | 0, _ => none
  | fuel + 1, s =>
    match s.queue with
    | [] => some s
    | n :: q => discover c req fuel (discoverStep c req n { s with queue := q })

/-! ### Searcher loop (phases 2 and 5) -/

/-- `for searcher in self._searchers: …`; returns (some searcher said not-modified, calls made) -/
def searchLoop (n : Name) (mtime : Int) (rebuild : Bool) :
    List (Name → Int → Bool → SearchAns) → Nat → Bool × List Call
  | [], _ => (false, [])
  | sr :: rest, i =>
    match sr n mtime rebuild with
    | .notModified => (true, [.search i n mtime rebuild])
    | _ => let r := searchLoop n mtime rebuild rest (i + 1)
           (r.1, .search i n mtime rebuild :: r.2)

/-! ### Phase 2: what needs generating -/

def needStep (c : Cfg) (o : Opts) (s : St) (n : Name) : St :=
  match s.parsed.get? n with
  | none => s
  | some (_, mtime, _) =>
    let r := searchLoop n mtime o.rebuild c.searchers 0
    let s := { s with trace := s.trace ++ r.2 }
    if r.1 then
      { s with parsed := s.parsed.del n, processed := s.processed.set n { st := .untouched } }
    else if o.noDeps ∧ n ∉ s.canonical then
      { s with parsed := s.parsed.del n, processed := s.processed.set n { st := .untouched } }
    else s

def phaseNeed (c : Cfg) (o : Opts) (s : St) : St := s.parsed.keys.foldl (needStep c o) s

/-! ### Phase 3: code generation -/

def genStep (c : Cfg) (o : Opts) (s : St) (n : Name) : St :=
  match s.parsed.get? n with
  | none => s
  | some (alias, mtime, tree) =>
    let s := s.log (.gen tree o.genTexts)
    match c.gen tree o.genTexts with
    | .ok data => { s with built := s.built.set n (alias, mtime, data), parsed := s.parsed.del n }
    | .error =>
      { s with processed := s.processed.set n { st := .failed, err := some (.call (.gen tree o.genTexts)) },
               failed := s.failed.set n (), parsed := s.parsed.del n }

def phaseGen (c : Cfg) (o : Opts) (s : St) : St := s.parsed.keys.foldl (genStep c o) s

/-! ### Phase 4: borrowing -/

/-- `for borrower in self._borrowers: …`; returns (delivery, calls made) -/
def borrowLoop (n : Name) (genTexts : Bool) :
    List (Name → Bool → BorrowAns) → Nat → Option Rec × List Call
  | [], _ => (none, [])
  | b :: rest, i =>
    match b n genTexts with
    | .ok alias mtime data => (some (alias, mtime, data), [.borrow i n genTexts])
    | .error => let r := borrowLoop n genTexts rest (i + 1)
                (r.1, .borrow i n genTexts :: r.2)

def borrowStep (c : Cfg) (req : List Name) (o : Opts) (s : St) (n : Name) : St :=
  if o.noDeps ∧ n ∉ s.canonical ∧ n ∉ req then s
  else
    let r := borrowLoop n o.genTexts c.borrowers 0
    let s := { s with trace := s.trace ++ r.2 }
    match r.1 with
    | some rec => { s with borrowedM := s.borrowedM.set n rec, failed := s.failed.del n }
    | none => s

def phaseBorrow (c : Cfg) (req : List Name) (o : Opts) (s : St) : St :=
  s.failed.keys.foldl (borrowStep c req o) s

/-! ### Phase 5: what needs borrowing -/

def needBorrowStep (c : Cfg) (req : List Name) (o : Opts) (s : St) (n : Name) : St :=
  match s.borrowedM.get? n with
  | none => s
  | some (alias, mtime, data) =>
    let r := searchLoop n mtime o.rebuild c.searchers 0
    let s := { s with trace := s.trace ++ r.2 }
    if r.1 then
      { s with borrowedM := s.borrowedM.del n, processed := s.processed.set n { st := .untouched } }
    else if o.noDeps ∧ n ∉ s.canonical ∧ n ∉ req then
      { s with processed := s.processed.set n { st := .untouched }, borrowedM := s.borrowedM.del n }
    else
      { s with built := s.built.set n (alias, mtime, data),
               processed := s.processed.set n { st := .borrowed, alias := some alias },
               borrowedM := s.borrowedM.del n }

def phaseNeedBorrow (c : Cfg) (req : List Name) (o : Opts) (s : St) : St :=
  s.borrowedM.keys.foldl (needBorrowStep c req o) s

/-! ### Gate and phase 6: storing -/

def markUnprocessed (s : St) : St :=
  { s with processed := s.built.keys.foldl (fun p n => p.set n { st := .unprocessed }) s.processed }

def storeStep (c : Cfg) (o : Opts) (s : St) (n : Name) : St :=
  match s.built.get? n with
  | none => s
  | some (alias, _, data) =>
    let ok := if o.writeMibs then c.put n data o.dryRun else true
    let s := if o.writeMibs then s.log (.put n data o.dryRun) else s
    if ok then
      let s := { s with built := s.built.del n }
      if s.processed.contains n then s
      else { s with processed := s.processed.set n { st := .compiled, alias := some alias } }
    else
      { s with processed := s.processed.set n { st := .failed, err := some (.call (.put n data o.dryRun)) },
               failed := s.failed.set n (), built := s.built.del n }

def phaseStore (c : Cfg) (o : Opts) (s : St) : St := s.built.keys.foldl (storeStep c o) s

/-- the state at the gate (after phases 1–5) -/
def beforeGate (c : Cfg) (req : List Name) (o : Opts) (fuel : Nat) : Option St :=
  (discover c req fuel { queue := req }).map fun s =>
    phaseNeedBorrow c req o (phaseBorrow c req o (phaseGen c o (phaseNeed c o s)))

def afterGate (c : Cfg) (o : Opts) (s : St) : St :=
  if ¬ s.failed.isEmpty ∧ ¬ o.ignoreErrors then markUnprocessed s else phaseStore c o s

structure Out where
  processed : AList Name Entry
  trace : List Call
  deriving Repr

/-- `MibCompiler.compile(*req, **opts)`; `none` = the discovery loop ran out of fuel -/
def run (c : Cfg) (req : List Name) (o : Opts) (fuel : Nat) : Option Out :=
  (beforeGate c req o fuel).map fun s =>
    let s := afterGate c o s
    { processed := s.processed, trace := s.trace }

end Pysmi.Compile
