/-
Model of `JsonCodeGen.genIndex` (pysmi/codegen/jsondoc.py).

The model is generic in the key type `κ` (OID strings in the code) and the module-name
type `μ`; the prefix test `pref` and the sort key `depth` are parameters, instantiated in
`Index.String` below with what the code does on Python strings:

  pref p oid  :=  oid == p or oid.startswith(p + '.')
  depth oid   :=  oid.count('.')

Python dicts are insertion-ordered association lists with unique keys.
No imports: this file is linked into the driver executable.
-/
namespace Pysmi.Index

/-- `d[k]` for an association list. -/
def lookup {κ α} [DecidableEq κ] (d : List (κ × α)) (k : κ) : Option α :=
  match d with
  | [] => none
  | (k', v) :: rest => if k' = k then some v else lookup rest k

/-- `if k not in d: d[k] = []` followed by `d[k].append(m)`. -/
def appendAt {κ μ} [DecidableEq κ] (d : List (κ × List μ)) (k : κ) (m : μ) : List (κ × List μ) :=
  match d with
  | [] => [(k, [m])]
  | (k', v) :: rest => if k' = k then (k', v ++ [m]) :: rest else (k', v) :: appendAt rest k m

/-- Stable insertion of `x` into a list sorted by `key` (after every element with key ≤). -/
def insertByKey {α} (key : α → Nat) (x : α) : List α → List α
  | [] => [x]
  | y :: ys => if key x < key y then x :: y :: ys else y :: insertByKey key x ys

/-- Python's stable `sorted(xs, key=key)`. -/
def sortByKey {α} (key : α → Nat) (xs : List α) : List α :=
  xs.foldl (fun acc x => insertByKey key x acc) []

/-- `set(modules).issuperset(mods)` -/
def superset {μ} [DecidableEq μ] (modules mods : List μ) : Bool :=
  mods.all (fun m => decide (m ∈ modules))

/-- Is `(oid, mods)` already covered by an entry of `up`?  (the inner `for … break`) -/
def covered {κ μ} [DecidableEq μ] (pref : κ → κ → Bool)
    (up : List (κ × List μ)) (oid : κ) (mods : List μ) : Bool :=
  up.any (fun e => pref e.1 oid && superset e.2 mods)

/-- One iteration of the `unique_prefixes` loop. -/
def compactStep {κ μ} [DecidableEq μ] (pref : κ → κ → Bool)
    (up : List (κ × List μ)) (e : κ × List μ) : List (κ × List μ) :=
  if covered pref up e.1 e.2 then up else up ++ [e]

/-- The `unique_prefixes` pass over `modData`. -/
def compact {κ μ} [DecidableEq μ] (pref : κ → κ → Bool) (depth : κ → Nat)
    (d : List (κ × List μ)) : List (κ × List μ) :=
  (sortByKey (fun e => depth e.1) d).foldl (compactStep pref) []

/-- The per-module summary that `genIndex` reads off a status object. -/
structure Summary (κ : Type) where
  identity : Option κ      -- falsy (None / '') = none
  enterprise : Option κ
  compliance : List κ
  oids : List κ            -- in the order the code iterates them
  deriving Repr

structure Idx (κ μ : Type) where
  identity : List (κ × List μ)
  enterprise : List (κ × List μ)
  compliance : List (κ × List μ)
  oids : List (κ × List μ)
  deriving Repr

def Idx.empty {κ μ} : Idx κ μ := ⟨[], [], [], []⟩

def addOpt {κ μ} [DecidableEq κ] (d : List (κ × List μ)) (k : Option κ) (m : μ) :=
  match k with
  | none => d
  | some k => appendAt d k m

def addAll {κ μ} [DecidableEq κ] (d : List (κ × List μ)) (ks : List κ) (m : μ) :=
  ks.foldl (fun d k => appendAt d k m) d

/-- Body of `for module, status in processed.items()`. -/
def stepModule {κ μ} [DecidableEq κ] (ix : Idx κ μ) (ms : μ × Summary κ) : Idx κ μ :=
  let m := ms.1
  let s := ms.2
  { identity := addOpt ix.identity s.identity m
    enterprise := addOpt ix.enterprise s.enterprise m
    compliance := addAll ix.compliance s.compliance m
    oids := addAll ix.oids s.oids m }

def addModules {κ μ} [DecidableEq κ] (old : Idx κ μ) (ms : List (μ × Summary κ)) : Idx κ μ :=
  ms.foldl stepModule old

/-- `if modData: … outDict['oids'] = unique_prefixes` -/
def compactOids {κ μ} [DecidableEq μ] (pref : κ → κ → Bool) (depth : κ → Nat)
    (d : List (κ × List μ)) : List (κ × List μ) :=
  if d.isEmpty then d else compact pref depth d

/-- `genIndex` up to the final `order()` call (which sorts keys and turns every module list
into a sorted duplicate-free list; membership is what the theorems speak about, and the
correspondence canonicalises both sides the same way). The compaction runs once, after all
modules have been added (the code as repaired; the original ran it inside the loop, see
`buildPerModule`). -/
def build {κ μ} [DecidableEq κ] [DecidableEq μ] (pref : κ → κ → Bool) (depth : κ → Nat)
    (old : Idx κ μ) (ms : List (μ × Summary κ)) : Idx κ μ :=
  let ix := addModules old ms
  { ix with oids := compactOids pref depth ix.oids }

/-- The original code: compaction inside the module loop. Kept for witness theorems only. -/
def buildPerModule {κ μ} [DecidableEq κ] [DecidableEq μ] (pref : κ → κ → Bool) (depth : κ → Nat)
    (old : Idx κ μ) (ms : List (μ × Summary κ)) : Idx κ μ :=
  ms.foldl (fun ix e => let ix' := stepModule ix e
                        { ix' with oids := compactOids pref depth ix'.oids }) old

/-! ### Instantiation on Python strings (lists of characters) -/

abbrev Str := List Char

/-- `s.startswith(p)` -/
def startsWith : Str → Str → Bool
  | _, [] => true
  | [], _ :: _ => false
  | c :: s, d :: p => c == d && startsWith s p

/-- The prefix test of the (repaired) code: `oid == p or oid.startswith(p + '.')`. -/
def dotPrefix (p oid : Str) : Bool := decide (oid = p) || startsWith oid (p ++ ['.'])

/-- The prefix test of the original code: `oid.startswith(p)`. Kept for the witness theorem. -/
def strPrefix (p oid : Str) : Bool := startsWith oid p

/-- `oid.count('.')` -/
def dotCount (s : Str) : Nat := s.count '.'

/-- `s.split('.')` as (first word, remaining words); total, never empty. -/
def splitDotAux : Str → Str × List Str
  | [] => ([], [])
  | c :: cs =>
    let r := splitDotAux cs
    if c = '.' then ([], r.1 :: r.2) else (c :: r.1, r.2)

/-- `s.split('.')` -/
def splitDot (s : Str) : List Str := (splitDotAux s).1 :: (splitDotAux s).2

def buildStr (old : Idx Str Str) (ms : List (Str × Summary Str)) : Idx Str Str :=
  build dotPrefix dotCount old ms

end Pysmi.Index
