import Pysmi.Model.Lexer
import Pysmi.Generated.LexTables
/-
The lexer configurations the driver runs: the word tables, numeric bounds and error-rule flag
regenerated from pysmi/lexer/smi.py, for the plain lexer ("v2") and the one built with
`supportSmiV1Keywords` ("v1").
-/
namespace Pysmi.Lexer

def cfgOfTables (r : List (String × String)) (f : List String) : Cfg :=
  { reserved := r.map (fun p => (p.1.toList, p.2)), forbidden := f.map (·.toList),
    u32 := Pysmi.Generated.Lex.u32max, u64 := Pysmi.Generated.Lex.u64max,
    macroErrorRule := Pysmi.Generated.Lex.macroErrorRule }

def cfgV2 : Cfg := cfgOfTables Pysmi.Generated.Lex.reservedV2 Pysmi.Generated.Lex.forbiddenV2
def cfgV1 : Cfg := cfgOfTables Pysmi.Generated.Lex.reservedV1 Pysmi.Generated.Lex.forbiddenV1

def cfgOf (variant : String) : Cfg := if variant == "v1" then cfgV1 else cfgV2

end Pysmi.Lexer
