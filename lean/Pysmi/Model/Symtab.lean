/-
Model of symbol registration in `SymtableCodeGen` (pysmi/codegen/symtable.py):
`regSym`, `allParentsExists`, `regPostponedSyms` (repeated until nothing moves) and the final
"Unknown parents" check of `genCode`.

A declaration is abstracted to its (renamed) name, the list of parent symbols its registration
waits for, and the row types it adds to `_rows` while being prepared (only table declarations
`SEQUENCE OF X` do, and they wait for nothing).  `avail` stands for what exists from the start:
imported symbols, base types, `MibTable`/`MibTableRow`/`MibTableColumn`.
Import-free.
-/
namespace Pysmi.Symtab

abbrev Name := Nat

structure Decl where
  name : Name
  parents : List Name
  addsRows : List Name := []
  deriving DecidableEq, Repr

structure St where
  out : List Name := []          -- `_symsOrder`: registered symbols in registration order
  postponed : List Decl := []    -- `_postponedSyms` (insertion ordered)
  rows : List Name := []         -- `_rows`
  deriving DecidableEq, Repr

inductive Err
  | duplicate (n : Name)
  | unknownParents (ns : List Name)
  deriving DecidableEq, Repr

/-- `allParentsExists` for one parent -/
def parentExists (avail : Name → Bool) (out rows : List Name) (p : Name) : Bool :=
  out.contains p || avail p || rows.contains p

def allParents (avail : Name → Bool) (out rows : List Name) (ps : List Name) : Bool :=
  ps.all (parentExists avail out rows)

/-- one `for sym, val in self._postponedSyms.items()` pass: symbols registered early in the pass are
visible to later ones; returns (new out, still postponed, something was registered) -/
def pass (avail : Name → Bool) (rows : List Name) : List Decl → List Name → List Name × List Decl × Bool
  | [], out => (out, [], false)
  | d :: rest, out =>
    if allParents avail out rows d.parents then
      let r := pass avail rows rest (out ++ [d.name])
      (r.1, r.2.1, true)
    else
      let r := pass avail rows rest out
      (r.1, d :: r.2.1, r.2.2)

/-- `regPostponedSyms`: passes until one registers nothing (fuel: the number of postponed symbols + 1
always suffices, see `Props/C03`) -/
def fixpoint (avail : Name → Bool) (rows : List Name) : Nat → List Decl → List Name → List Name × List Decl
  | 0, post, out => (out, post)
  | fuel + 1, post, out =>
    let r := pass avail rows post out
    if r.2.2 then fixpoint avail rows fuel r.2.1 r.1 else (r.1, r.2.1)

/-- preparing and registering one declaration -/
def regDecl (avail : Name → Bool) (s : St) (d : Decl) : Except Err St :=
  let rows := s.rows ++ d.addsRows
  if s.out.contains d.name || s.postponed.any (·.name == d.name) then .error (.duplicate d.name)
  else if allParents avail s.out rows d.parents then
    let r := fixpoint avail rows (s.postponed.length + 1) s.postponed (s.out ++ [d.name])
    .ok { out := r.1, postponed := r.2, rows := rows }
  else .ok { s with postponed := s.postponed ++ [d], rows := rows }

def regAll (avail : Name → Bool) : List Decl → St → Except Err St
  | [], s => .ok s
  | d :: rest, s =>
    match regDecl avail s d with
    | .error e => .error e
    | .ok s' => regAll avail rest s'

/-- `genCode`: all declarations, then the "Unknown parents for symbols" check -/
def run (avail : Name → Bool) (decls : List Decl) : Except Err (List Name) :=
  match regAll avail decls {} with
  | .error e => .error e
  | .ok s => if s.postponed.isEmpty then .ok s.out else .error (.unknownParents (s.postponed.map (·.name)))

end Pysmi.Symtab
