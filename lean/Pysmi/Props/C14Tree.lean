import Pysmi.Model.Tree
/-!
# C14 — every directory of the tree is searched, once, parents first

* `C14_tree_count`: `getSubdirs` yields as many directories as the tree has - none twice, none left out by count.
* `C14_tree_every_dir_searched`: the directory at *any* path below the root, at any depth, is among those searched.
* `C14_tree_root_first`: the root is searched first (a file in the root shadows a same-named file further down).
-/
namespace Pysmi.Tree

mutual
theorem flatten_length : ∀ d : Dir, d.flatten.length = d.size
  | .mk fs subs => by simp [Dir.flatten, Dir.size, flattenAll_length subs]; omega
theorem flattenAll_length : ∀ ds : List Dir, (flattenAll ds).length = sizeAll ds
  | [] => rfl
  | d :: ds => by simp [flattenAll, sizeAll, flatten_length d, flattenAll_length ds]
end

/-- **C14_tree_count** -/
theorem C14_tree_count (t : Dir) : t.flatten.length = t.size := flatten_length t

mutual
theorem at_mem : ∀ (d : Dir) (p : List Nat) (e : Dir), d.at? p = some e → e.files ∈ d.flatten
  | d, [], e, h => by
    simp only [Dir.at?, Option.some.injEq] at h
    subst h
    cases d with
    | mk fs subs => simp [Dir.flatten, Dir.files]
  | .mk fs subs, i :: p, e, h => by
    simp only [Dir.at?] at h
    simp only [Dir.flatten, List.mem_cons]
    exact Or.inr (atAll_mem subs i p e h)
theorem atAll_mem : ∀ (ds : List Dir) (i : Nat) (p : List Nat) (e : Dir), atAll ds i p = some e → e.files ∈ flattenAll ds
  | [], _, _, _, h => by simp [atAll] at h
  | d :: ds, 0, p, e, h => by
    simp only [atAll] at h
    simp only [flattenAll, List.mem_append]
    exact Or.inl (at_mem d p e h)
  | d :: ds, i + 1, p, e, h => by
    simp only [atAll] at h
    simp only [flattenAll, List.mem_append]
    exact Or.inr (atAll_mem ds i p e h)
end

/-- **C14_tree_every_dir_searched**: whatever path of sub-directories leads to a directory, it is searched. -/
theorem C14_tree_every_dir_searched (t : Dir) (p : List Nat) (e : Dir) (h : t.at? p = some e) : e.files ∈ t.flatten :=
  at_mem t p e h

/-- **C14_tree_root_first** -/
theorem C14_tree_root_first (t : Dir) : t.flatten.head? = some t.files := by
  cases t with
  | mk fs subs => simp [Dir.flatten, Dir.files]

/-- a tree three levels deep: root, two children, a grandchild under the first -/
example : (Dir.mk ["a"] [.mk ["b"] [.mk ["c"] []], .mk ["d"] []]).flatten = [["a"], ["b"], ["c"], ["d"]] := by
  simp [Dir.flatten, flattenAll]
example : (Dir.mk ["a"] [.mk ["b"] [.mk ["c"] []], .mk ["d"] []]).at? [0, 0] = some (.mk ["c"] []) := by
  simp [Dir.at?, atAll]

end Pysmi.Tree
