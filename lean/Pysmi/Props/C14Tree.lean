import Pysmi.Model.Tree
/-!
# C14 — every directory of the tree is searched, once, parents first

* `C14_tree_count`: `getSubdirs` yields as many directories as the tree has - none twice, none left out by count.
* `C14_tree_every_dir_searched`: the directory at *any* path below the root, at any depth, is among those searched.
* `C14_tree_root_first`: the root is searched first (a file in the root shadows a same-named file further down).
-/
namespace Pysmi.Tree

mutual
theorem flatten_length : ∀ d : Dir, d.flatten.length = d.size
  | .mk fs subs => by simp [Dir.flatten, Dir.size, flattenAll_length subs]; omega
theorem flattenAll_length : ∀ ds : List Dir, (flattenAll ds).length = sizeAll ds
  | [] => rfl
  | d :: ds => by simp [flattenAll, sizeAll, flatten_length d, flattenAll_length ds]
end

/-- **C14_tree_count** -/
theorem C14_tree_count (t : Dir) : t.flatten.length = t.size := flatten_length t

mutual
theorem at_mem : ∀ (d : Dir) (p : List Nat) (e : Dir), d.at? p = some e → e.files ∈ d.flatten
  | d, [], e, h => by
    simp only [Dir.at?, Option.some.injEq] at h
    subst h
    cases d with
    | mk fs subs => simp [Dir.flatten, Dir.files]
  | .mk fs subs, i :: p, e, h => by
    simp only [Dir.at?] at h
    simp only [Dir.flatten, List.mem_cons]
    exact Or.inr (atAll_mem subs i p e h)
theorem atAll_mem : ∀ (ds : List Dir) (i : Nat) (p : List Nat) (e : Dir), atAll ds i p = some e → e.files ∈ flattenAll ds
  | [], _, _, _, h => by simp [atAll] at h
  | d :: ds, 0, p, e, h => by
    simp only [atAll] at h
    simp only [flattenAll, List.mem_append]
    exact Or.inl (at_mem d p e h)
  | d :: ds, i + 1, p, e, h => by
    simp only [atAll] at h
    simp only [flattenAll, List.mem_append]
    exact Or.inr (atAll_mem ds i p e h)
end

/-- **C14_tree_every_dir_searched**: whatever path of sub-directories leads to a directory, it is searched. -/
theorem C14_tree_every_dir_searched (t : Dir) (p : List Nat) (e : Dir) (h : t.at? p = some e) : e.files ∈ t.flatten :=
  at_mem t p e h

/-- **C14_tree_root_first** -/
theorem C14_tree_root_first (t : Dir) : t.flatten.head? = some t.files := by
  cases t with
  | mk fs subs => simp [Dir.flatten, Dir.files]

mutual
theorem at_before : ∀ (t : Dir) (p : List Nat) (i : Nat) (d e : Dir), t.at? p = some d → t.at? (p ++ [i]) = some e →
    [d.files, e.files].Sublist t.flatten
  | .mk fs subs, [], i, d, e, h1, h2 => by
    simp only [Dir.at?, Option.some.injEq] at h1
    subst h1
    simp only [List.nil_append, Dir.at?] at h2
    have hm := atAll_mem subs i [] e h2
    simp only [Dir.flatten, Dir.files]
    exact List.Sublist.cons₂ _ (List.singleton_sublist.mpr hm)
  | .mk fs subs, j :: p, i, d, e, h1, h2 => by
    simp only [Dir.at?] at h1
    simp only [List.cons_append, Dir.at?] at h2
    simp only [Dir.flatten]
    exact List.Sublist.cons _ (atAll_before subs j p i d e h1 h2)
theorem atAll_before : ∀ (ds : List Dir) (j : Nat) (p : List Nat) (i : Nat) (d e : Dir), atAll ds j p = some d →
    atAll ds j (p ++ [i]) = some e → [d.files, e.files].Sublist (flattenAll ds)
  | [], _, _, _, _, _, h1, _ => by simp [atAll] at h1
  | t :: ds, 0, p, i, d, e, h1, h2 => by
    simp only [atAll] at h1 h2
    simp only [flattenAll]
    exact (at_before t p i d e h1 h2).trans (List.sublist_append_left _ _)
  | t :: ds, j + 1, p, i, d, e, h1, h2 => by
    simp only [atAll] at h1 h2
    simp only [flattenAll]
    exact (atAll_before ds j p i d e h1 h2).trans (List.sublist_append_right _ _)
end

/-- **C14_tree_parent_first**: a directory is searched before each of its sub-directories, at any depth - a file found in a
directory shadows a same-named file in the directories below it. -/
theorem C14_tree_parent_first (t : Dir) (p : List Nat) (i : Nat) (d e : Dir) (h1 : t.at? p = some d)
    (h2 : t.at? (p ++ [i]) = some e) : [d.files, e.files].Sublist t.flatten := at_before t p i d e h1 h2

/-- a tree three levels deep: root, two children, a grandchild under the first -/
example : (Dir.mk ["a"] [.mk ["b"] [.mk ["c"] []], .mk ["d"] []]).flatten = [["a"], ["b"], ["c"], ["d"]] := by
  simp [Dir.flatten, flattenAll]
example : (Dir.mk ["a"] [.mk ["b"] [.mk ["c"] []], .mk ["d"] []]).at? [0, 0] = some (.mk ["c"] []) := by
  simp [Dir.at?, atAll]

end Pysmi.Tree
