import Pysmi.Props.C09
import Pysmi.Props.C07Accounted
/-!
# C09 — a failure that nothing repairs blocks every write

`C09_gate` speaks about the state at the gate.  Here the premise is moved back to where failures arise: a name recorded
as failed / missing when discovery ends (`C09_unrepaired_failure_blocks`), or a module whose code generation fails
(`C09_generation_failure_blocks`), that no borrower delivers, is still recorded at the gate - so with errors not ignored
nothing is written and every built module is reported `unprocessed`.
-/
namespace Pysmi.Compile
open Pysmi

/-! ### a failure that no borrower repairs reaches the gate -/

theorem failed_needStep (c : Cfg) (o : Opts) (s : St) (k : Name) : (needStep c o s k).failed = s.failed := by
  unfold needStep
  split
  · rfl
  · simp only; split
    · rfl
    · split <;> rfl

theorem failed_needBorrowStep (c : Cfg) (req : List Name) (o : Opts) (s : St) (k : Name) :
    (needBorrowStep c req o s k).failed = s.failed := by
  unfold needBorrowStep
  split
  · rfl
  · simp only; split
    · rfl
    · split <;> rfl

theorem failed_genStep (c : Cfg) (o : Opts) (s : St) (k n : Name) (h : s.failed.contains n = true) :
    (genStep c o s k).failed.contains n = true := by
  unfold genStep
  split
  · exact h
  · simp only; split
    · exact h
    · exact contains_set_of _ _ _ _ h

theorem failed_borrowStep (c : Cfg) (req : List Name) (o : Opts) (s : St) (k n : Name)
    (hb : (borrowLoop n o.genTexts c.borrowers 0).1 = none) (h : s.failed.contains n = true) :
    (borrowStep c req o s k).failed.contains n = true := by
  unfold borrowStep
  split
  · exact h
  · simp only
    split
    · rename_i r hr
      by_cases hk : k = n
      · subst hk; rw [hb] at hr; cases hr
      · simp only; rw [contains_del_iff _ _ _ hk]; exact h
    · exact h

theorem foldl_pred {α} (P : St → Prop) (f : St → α → St) (hf : ∀ s a, P s → P (f s a)) (l : List α) (s : St) (h : P s) :
    P (l.foldl f s) := by
  induction l generalizing s with
  | nil => exact h
  | cons a l ih => exact ih _ (hf s a h)

/-- what is recorded as failed when discovery ends, and cannot be borrowed, is still recorded as failed at the gate -/
theorem failed_reaches_gate (c : Cfg) (req : List Name) (o : Opts) (s : St) (n : Name)
    (hb : (borrowLoop n o.genTexts c.borrowers 0).1 = none) (h : s.failed.contains n = true) :
    (phaseNeedBorrow c req o (phaseBorrow c req o (phaseGen c o (phaseNeed c o s)))).failed.contains n = true := by
  unfold phaseNeedBorrow
  rw [foldl_keep (needBorrowStep c req o) (·.failed) (failed_needBorrowStep c req o)]
  unfold phaseBorrow
  apply foldl_pred (fun s => s.failed.contains n = true) _ (fun s a => failed_borrowStep c req o s a n hb)
  unfold phaseGen
  apply foldl_pred (fun s => s.failed.contains n = true) _ (fun s a => failed_genStep c o s a n)
  unfold phaseNeed
  rw [foldl_keep (needStep c o) (·.failed) (failed_needStep c o)]
  exact h

theorem isEmpty_false_of_contains {ν} (d : AList Name ν) (n : Name) (h : d.contains n = true) : d.isEmpty = false := by
  cases d with
  | nil => simp [AList.contains, AList.get?] at h
  | cons e d => rfl

/-- **C09_unrepaired_failure_blocks**: if, when discovery ends, some name is recorded as failed or missing (no source had
it, a reader, the parser or the symbol pass failed and no later source repaired it), no borrower delivers it, and errors
are not ignored, then the writer is never called and every built module is reported `unprocessed` - for every import
graph, every outcome of every other call, every other option. -/
theorem C09_unrepaired_failure_blocks (c : Cfg) (req : List Name) (o : Opts) (fuel : Nat) (s0 : St) (n : Name)
    (hd : discover c req fuel { queue := req } = some s0) (hf : s0.failed.contains n = true)
    (hb : (borrowLoop n o.genTexts c.borrowers 0).1 = none) (hi : o.ignoreErrors = false) :
    ∃ s out, beforeGate c req o fuel = some s ∧ run c req o fuel = some out ∧ (∀ x ∈ out.trace, x.isPut = false) ∧
      ∀ m ∈ s.built.keys, out.processed.get? m = some { st := .unprocessed } := by
  have hs : beforeGate c req o fuel = some (phaseNeedBorrow c req o (phaseBorrow c req o (phaseGen c o (phaseNeed c o s0)))) := by
    simp [beforeGate, hd]
  obtain ⟨out, ho, hp, hu⟩ := C09_gate c req o fuel _ hs
    (isEmpty_false_of_contains _ n (failed_reaches_gate c req o s0 n hb hf)) hi
  exact ⟨_, out, hs, ho, hp, hu⟩

/-! ### a module whose code generation fails is recorded as failed -/

theorem get?_parsed_genStep_ne (c : Cfg) (o : Opts) (s : St) (k n : Name) (hk : k ≠ n) :
    (genStep c o s k).parsed.get? n = s.parsed.get? n := by
  rw [genStep_parsed]; exact AList.get?_del_ne _ _ _ hk

theorem gen_failure_recorded (c : Cfg) (o : Opts) (n alias : Name) (mtime : Int) (tree : Nat)
    (hg : c.gen tree o.genTexts = .error) :
    ∀ (l : List Name) (s : St), (s.failed.contains n = true ∨ (s.parsed.get? n = some (alias, mtime, tree) ∧ n ∈ l)) →
      (l.foldl (genStep c o) s).failed.contains n = true := by
  intro l
  induction l with
  | nil =>
    intro s h
    rcases h with h | ⟨_, h⟩
    · exact h
    · cases h
  | cons k l ih =>
    intro s h
    simp only [List.foldl_cons]
    apply ih
    rcases h with h | ⟨hp, hm⟩
    · exact Or.inl (failed_genStep c o s k n h)
    · by_cases hk : k = n
      · subst hk
        left
        unfold genStep
        simp only [hp, St.log, hg]
        exact contains_set_self _ _ _
      · right
        refine ⟨by rw [get?_parsed_genStep_ne c o s k n hk]; exact hp, ?_⟩
        rcases List.mem_cons.mp hm with hm | hm
        · exact absurd hm.symm hk
        · exact hm

/-- **C09_generation_failure_blocks**: a module that reaches the code generator (parsed, not up to date, not excluded by
noDeps) and whose generation fails, with no borrower delivering it and errors not ignored: nothing is written. -/
theorem C09_generation_failure_blocks (c : Cfg) (req : List Name) (o : Opts) (fuel : Nat) (s0 : St) (n alias : Name)
    (mtime : Int) (tree : Nat)
    (hd : discover c req fuel { queue := req } = some s0)
    (hp : (phaseNeed c o s0).parsed.get? n = some (alias, mtime, tree)) (hg : c.gen tree o.genTexts = .error)
    (hb : (borrowLoop n o.genTexts c.borrowers 0).1 = none) (hi : o.ignoreErrors = false) :
    ∃ s out, beforeGate c req o fuel = some s ∧ run c req o fuel = some out ∧ (∀ x ∈ out.trace, x.isPut = false) ∧
      ∀ m ∈ s.built.keys, out.processed.get? m = some { st := .unprocessed } := by
  have hs : beforeGate c req o fuel = some (phaseNeedBorrow c req o (phaseBorrow c req o (phaseGen c o (phaseNeed c o s0)))) := by
    simp [beforeGate, hd]
  have hmem : n ∈ (phaseNeed c o s0).parsed.keys := by
    apply Classical.byContradiction
    intro hne
    have := (AList.get?_eq_none_iff _ _).mpr hne
    rw [this] at hp; cases hp
  have h1 : (phaseGen c o (phaseNeed c o s0)).failed.contains n = true := by
    unfold phaseGen
    exact gen_failure_recorded c o n alias mtime tree hg _ _ (Or.inr ⟨hp, hmem⟩)
  have h2 : (phaseNeedBorrow c req o (phaseBorrow c req o (phaseGen c o (phaseNeed c o s0)))).failed.contains n = true := by
    unfold phaseNeedBorrow
    rw [foldl_keep (needBorrowStep c req o) (·.failed) (failed_needBorrowStep c req o)]
    unfold phaseBorrow
    exact foldl_pred (fun s => s.failed.contains n = true) _ (fun s a => failed_borrowStep c req o s a n hb) _ _ h1
  obtain ⟨out, ho, hpt, hu⟩ := C09_gate c req o fuel _ hs (isEmpty_false_of_contains _ n h2) hi
  exact ⟨_, out, hs, ho, hpt, hu⟩

end Pysmi.Compile
