import Pysmi.Props.C09
import Pysmi.Props.C07Accounted
/-!
# C09 — a failure that nothing repairs blocks every write

`C09_gate` speaks about the state at the gate.  Here the premise is moved back to where failures arise: a name recorded
as failed / missing when discovery ends (`C09_unrepaired_failure_blocks`), or a module whose code generation fails
(`C09_generation_failure_blocks`), that no borrower delivers, is still recorded at the gate - so with errors not ignored
nothing is written and every built module is reported `unprocessed`.
-/
namespace Pysmi.Compile
open Pysmi

/-! ### a failure that no borrower repairs reaches the gate -/

theorem failed_needStep (c : Cfg) (o : Opts) (s : St) (k : Name) : (needStep c o s k).failed = s.failed := by
  unfold needStep
  split
  · rfl
  · simp only; split
    · rfl
    · split <;> rfl

theorem failed_needBorrowStep (c : Cfg) (req : List Name) (o : Opts) (s : St) (k : Name) :
    (needBorrowStep c req o s k).failed = s.failed := by
  unfold needBorrowStep
  split
  · rfl
  · simp only; split
    · rfl
    · split <;> rfl

theorem failed_genStep (c : Cfg) (o : Opts) (s : St) (k n : Name) (h : s.failed.contains n = true) :
    (genStep c o s k).failed.contains n = true := by
  unfold genStep
  split
  · exact h
  · simp only; split
    · exact h
    · exact contains_set_of _ _ _ _ h

theorem failed_borrowStep (c : Cfg) (req : List Name) (o : Opts) (s : St) (k n : Name)
    (hb : (borrowLoop n o.genTexts c.borrowers 0).1 = none) (h : s.failed.contains n = true) :
    (borrowStep c req o s k).failed.contains n = true := by
  unfold borrowStep
  split
  · exact h
  · simp only
    split
    · rename_i r hr
      by_cases hk : k = n
      · subst hk; rw [hb] at hr; cases hr
      · simp only; rw [contains_del_iff _ _ _ hk]; exact h
    · exact h

theorem foldl_pred {α} (P : St → Prop) (f : St → α → St) (hf : ∀ s a, P s → P (f s a)) (l : List α) (s : St) (h : P s) :
    P (l.foldl f s) := by
  induction l generalizing s with
  | nil => exact h
  | cons a l ih => exact ih _ (hf s a h)

/-- what is recorded as failed when discovery ends, and cannot be borrowed, is still recorded as failed at the gate -/
theorem failed_reaches_gate (c : Cfg) (req : List Name) (o : Opts) (s : St) (n : Name)
    (hb : (borrowLoop n o.genTexts c.borrowers 0).1 = none) (h : s.failed.contains n = true) :
    (phaseNeedBorrow c req o (phaseBorrow c req o (phaseGen c o (phaseNeed c o s)))).failed.contains n = true := by
  unfold phaseNeedBorrow
  rw [foldl_keep (needBorrowStep c req o) (·.failed) (failed_needBorrowStep c req o)]
  unfold phaseBorrow
  apply foldl_pred (fun s => s.failed.contains n = true) _ (fun s a => failed_borrowStep c req o s a n hb)
  unfold phaseGen
  apply foldl_pred (fun s => s.failed.contains n = true) _ (fun s a => failed_genStep c o s a n)
  unfold phaseNeed
  rw [foldl_keep (needStep c o) (·.failed) (failed_needStep c o)]
  exact h

theorem isEmpty_false_of_contains {ν} (d : AList Name ν) (n : Name) (h : d.contains n = true) : d.isEmpty = false := by
  cases d with
  | nil => simp [AList.contains, AList.get?] at h
  | cons e d => rfl

/-- **C09_unrepaired_failure_blocks**: if, when discovery ends, some name is recorded as failed or missing (no source had
it, a reader, the parser or the symbol pass failed and no later source repaired it), no borrower delivers it, and errors
are not ignored, then the writer is never called and every built module is reported `unprocessed` - for every import
graph, every outcome of every other call, every other option. -/
theorem C09_unrepaired_failure_blocks (c : Cfg) (req : List Name) (o : Opts) (fuel : Nat) (s0 : St) (n : Name)
    (hd : discover c req fuel { queue := req } = some s0) (hf : s0.failed.contains n = true)
    (hb : (borrowLoop n o.genTexts c.borrowers 0).1 = none) (hi : o.ignoreErrors = false) :
    ∃ s out, beforeGate c req o fuel = some s ∧ run c req o fuel = some out ∧ (∀ x ∈ out.trace, x.isPut = false) ∧
      ∀ m ∈ s.built.keys, out.processed.get? m = some { st := .unprocessed } := by
  have hs : beforeGate c req o fuel = some (phaseNeedBorrow c req o (phaseBorrow c req o (phaseGen c o (phaseNeed c o s0)))) := by
    simp [beforeGate, hd]
  obtain ⟨out, ho, hp, hu⟩ := C09_gate c req o fuel _ hs
    (isEmpty_false_of_contains _ n (failed_reaches_gate c req o s0 n hb hf)) hi
  exact ⟨_, out, hs, ho, hp, hu⟩

/-! ### a module whose code generation fails is recorded as failed -/

theorem get?_parsed_genStep_ne (c : Cfg) (o : Opts) (s : St) (k n : Name) (hk : k ≠ n) :
    (genStep c o s k).parsed.get? n = s.parsed.get? n := by
  rw [genStep_parsed]; exact AList.get?_del_ne _ _ _ hk

theorem gen_failure_recorded (c : Cfg) (o : Opts) (n alias : Name) (mtime : Int) (tree : Nat)
    (hg : c.gen tree o.genTexts = .error) :
    ∀ (l : List Name) (s : St), (s.failed.contains n = true ∨ (s.parsed.get? n = some (alias, mtime, tree) ∧ n ∈ l)) →
      (l.foldl (genStep c o) s).failed.contains n = true := by
  intro l
  induction l with
  | nil =>
    intro s h
    rcases h with h | ⟨_, h⟩
    · exact h
    · cases h
  | cons k l ih =>
    intro s h
    simp only [List.foldl_cons]
    apply ih
    rcases h with h | ⟨hp, hm⟩
    · exact Or.inl (failed_genStep c o s k n h)
    · by_cases hk : k = n
      · subst hk
        left
        unfold genStep
        simp only [hp, St.log, hg]
        exact contains_set_self _ _ _
      · right
        refine ⟨by rw [get?_parsed_genStep_ne c o s k n hk]; exact hp, ?_⟩
        rcases List.mem_cons.mp hm with hm | hm
        · exact absurd hm.symm hk
        · exact hm

/-- **C09_generation_failure_blocks**: a module that reaches the code generator (parsed, not up to date, not excluded by
noDeps) and whose generation fails, with no borrower delivering it and errors not ignored: nothing is written. -/
theorem C09_generation_failure_blocks (c : Cfg) (req : List Name) (o : Opts) (fuel : Nat) (s0 : St) (n alias : Name)
    (mtime : Int) (tree : Nat)
    (hd : discover c req fuel { queue := req } = some s0)
    (hp : (phaseNeed c o s0).parsed.get? n = some (alias, mtime, tree)) (hg : c.gen tree o.genTexts = .error)
    (hb : (borrowLoop n o.genTexts c.borrowers 0).1 = none) (hi : o.ignoreErrors = false) :
    ∃ s out, beforeGate c req o fuel = some s ∧ run c req o fuel = some out ∧ (∀ x ∈ out.trace, x.isPut = false) ∧
      ∀ m ∈ s.built.keys, out.processed.get? m = some { st := .unprocessed } := by
  have hs : beforeGate c req o fuel = some (phaseNeedBorrow c req o (phaseBorrow c req o (phaseGen c o (phaseNeed c o s0)))) := by
    simp [beforeGate, hd]
  have hmem : n ∈ (phaseNeed c o s0).parsed.keys := by
    apply Classical.byContradiction
    intro hne
    have := (AList.get?_eq_none_iff _ _).mpr hne
    rw [this] at hp; cases hp
  have h1 : (phaseGen c o (phaseNeed c o s0)).failed.contains n = true := by
    unfold phaseGen
    exact gen_failure_recorded c o n alias mtime tree hg _ _ (Or.inr ⟨hp, hmem⟩)
  have h2 : (phaseNeedBorrow c req o (phaseBorrow c req o (phaseGen c o (phaseNeed c o s0)))).failed.contains n = true := by
    unfold phaseNeedBorrow
    rw [foldl_keep (needBorrowStep c req o) (·.failed) (failed_needBorrowStep c req o)]
    unfold phaseBorrow
    exact foldl_pred (fun s => s.failed.contains n = true) _ (fun s a => failed_borrowStep c req o s a n hb) _ _ h1
  obtain ⟨out, ho, hpt, hu⟩ := C09_gate c req o fuel _ hs (isEmpty_false_of_contains _ n h2) hi
  exact ⟨_, out, hs, ho, hpt, hu⟩

end Pysmi.Compile
namespace Pysmi.Compile
open Pysmi

/-! ### a requested module that no source has, and no file names, stays failed until discovery ends -/

/-- no file any source serves, under whatever name it is asked for, holds a module that calls itself `n` -/
def NoModuleNamed (c : Cfg) (n : Name) : Prop :=
  ∀ src ∈ c.sources, ∀ m alias mtime text ts, src m = .ok alias mtime text → c.parse text = .trees ts →
    ∀ t ∈ ts, ∀ name imps, c.sym t = .ok name imps → name ≠ n

/-- the part of the state that concerns `n` -/
structure KeepsFailed (n : Name) (s : St) : Prop where
  failed : s.failed.contains n = true
  notParsed : n ∉ s.parsed.keys

theorem kf_log {n : Name} {s : St} (k : Call) (h : KeepsFailed n s) : KeepsFailed n (s.log k) := ⟨h.failed, h.notParsed⟩

theorem kf_failSource {n : Name} {s : St} (m : Name) (e : Err) (h : KeepsFailed n s) : KeepsFailed n (failSource s m e) :=
  ⟨contains_set_of _ _ _ _ h.failed, h.notParsed⟩

theorem kf_clearStale {n : Name} {s : St} (k : Name) (hk : k ≠ n) (h : KeepsFailed n s) : KeepsFailed n (clearStale s k) := by
  unfold clearStale
  split
  · exact ⟨by simp only; rw [contains_del_iff _ _ _ hk]; exact h.failed, h.notParsed⟩
  · exact h

theorem kf_registerTree {n : Name} {s : St} (req : List Name) (m alias : Name) (mtime : Int) (tree : Nat) (name : Name)
    (imports : List Name) (hm : m ≠ n) (hname : name ≠ n) (h : KeepsFailed n s) :
    KeepsFailed n (registerTree req s m alias mtime tree name imports) := by
  unfold registerTree
  have h1 : KeepsFailed n ({ s with parsed := s.parsed.set name (alias, mtime, tree) } : St) :=
    ⟨h.failed, by
      intro hmem
      rcases (AList.mem_keys_set _ _ _ _).mp hmem with e | e
      · exact hname e.symm
      · exact h.notParsed e⟩
  have h2 := kf_clearStale name hname (kf_clearStale m hm h1)
  simp only
  split
  · exact ⟨h2.failed, h2.notParsed⟩
  · exact ⟨h2.failed, h2.notParsed⟩

theorem kf_symTrees (c : Cfg) (req : List Name) (n m alias : Name) (mtime : Int) (hm : m ≠ n) :
    ∀ (ts : List Nat) (s : St), (∀ t ∈ ts, ∀ name imps, c.sym t = .ok name imps → name ≠ n) → KeepsFailed n s →
      KeepsFailed n (symTrees c req m alias mtime ts s).1 := by
  intro ts
  induction ts with
  | nil => intro s _ h; exact h
  | cons t ts ih =>
    intro s hts h
    unfold symTrees
    simp only
    split
    · exact kf_log _ h
    · rename_i name imports hs
      exact ih _ (fun t' ht' => hts t' (List.mem_cons_of_mem _ ht'))
        (kf_registerTree req m alias mtime t name imports hm (hts t (by simp) name imports hs) (kf_log _ h))

theorem kf_trySources (c : Cfg) (req : List Name) (n m : Name) (hm : m ≠ n) (hno : NoModuleNamed c n) :
    ∀ (srcs : List (Name → SrcAns)) (i : Nat) (s : St), (∀ src ∈ srcs, src ∈ c.sources) → KeepsFailed n s →
      KeepsFailed n (trySources c req m srcs i s) := by
  intro srcs
  induction srcs with
  | nil =>
    intro i s _ h
    unfold trySources
    simp only
    split
    · split
      · exact h
      · exact ⟨h.failed, h.notParsed⟩
    · split
      · exact ⟨contains_set_of _ _ _ _ h.failed, h.notParsed⟩
      · exact ⟨contains_set_of _ _ _ _ h.failed, h.notParsed⟩
  | cons src rest ih =>
    intro i s hsub h
    have hrest : ∀ x ∈ rest, x ∈ c.sources := fun x hx => hsub x (List.mem_cons_of_mem _ hx)
    unfold trySources
    simp only
    have h1 := kf_log (n := n) (.get i m) h
    split
    · exact ih _ _ hrest h1
    · exact ih _ _ hrest (kf_failSource _ _ h1)
    · rename_i alias mtime text hsrc
      have h2 := kf_log (n := n) (.parse text) h1
      split
      · exact ih _ _ hrest (kf_failSource _ _ h2)
      · exact ih _ _ hrest (kf_failSource _ _ h2)
      · rename_i ts _ hparse
        have hts : ∀ t ∈ ts, ∀ name imps, c.sym t = .ok name imps → name ≠ n :=
          hno src (hsub src (by simp)) m alias mtime text ts hsrc hparse
        have h3 := kf_symTrees c req n m alias mtime hm ts _ hts h2
        split
        · rename_i hst
          rw [hst] at h3
          exact ih _ _ hrest (kf_failSource _ _ h3)
        · rename_i hst
          rw [hst] at h3
          exact h3

/-- asking every source for a module none of them has records it as failed (and parses nothing) -/
theorem trySources_all_notFound (c : Cfg) (req : List Name) (n : Name) :
    ∀ (srcs : List (Name → SrcAns)) (i : Nat) (s : St), (∀ src ∈ srcs, src n = .notFound) → n ∉ s.parsed.keys →
      KeepsFailed n (trySources c req n srcs i s) := by
  intro srcs
  induction srcs with
  | nil =>
    intro i s _ hp
    unfold trySources
    simp only
    split
    · rename_i hf
      split
      · exact ⟨hf, hp⟩
      · exact ⟨hf, hp⟩
    · split
      · exact ⟨contains_set_self _ _ _, hp⟩
      · exact ⟨contains_set_self _ _ _, hp⟩
  | cons src rest ih =>
    intro i s hnf hp
    unfold trySources
    simp only [hnf src (by simp)]
    exact ih _ _ (fun x hx => hnf x (List.mem_cons_of_mem _ hx)) hp

end Pysmi.Compile

namespace Pysmi.Compile
open Pysmi

/-! the same for the two facts that hold before `n` itself is looked up: nothing parsed under that name, still queued -/

theorem np_clearStale {n : Name} {s : St} (k : Name) (h : n ∉ s.parsed.keys) : n ∉ (clearStale s k).parsed.keys := by
  unfold clearStale; split <;> exact h

theorem np_registerTree {n : Name} {s : St} (req : List Name) (m alias : Name) (mtime : Int) (tree : Nat) (name : Name)
    (imports : List Name) (hname : name ≠ n) (h : n ∉ s.parsed.keys) :
    n ∉ (registerTree req s m alias mtime tree name imports).parsed.keys := by
  unfold registerTree
  have h1 : n ∉ ({ s with parsed := s.parsed.set name (alias, mtime, tree) } : St).parsed.keys := by
    intro hmem
    rcases (AList.mem_keys_set _ _ _ _).mp hmem with e | e
    · exact hname e.symm
    · exact h e
  have h2 := np_clearStale name (np_clearStale m h1)
  simp only
  split <;> exact h2

theorem np_symTrees (c : Cfg) (req : List Name) (n m alias : Name) (mtime : Int) :
    ∀ (ts : List Nat) (s : St), (∀ t ∈ ts, ∀ name imps, c.sym t = .ok name imps → name ≠ n) → n ∉ s.parsed.keys →
      n ∉ (symTrees c req m alias mtime ts s).1.parsed.keys := by
  intro ts
  induction ts with
  | nil => intro s _ h; exact h
  | cons t ts ih =>
    intro s hts h
    unfold symTrees
    simp only
    split
    · exact h
    · rename_i name imports hs
      exact ih _ (fun t' ht' => hts t' (List.mem_cons_of_mem _ ht'))
        (np_registerTree req m alias mtime t name imports (hts t (by simp) name imports hs) h)

theorem np_failSource {n : Name} {s : St} (m : Name) (e : Err) (h : n ∉ s.parsed.keys) : n ∉ (failSource s m e).parsed.keys := h

theorem np_trySources (c : Cfg) (req : List Name) (n m : Name) (hno : NoModuleNamed c n) :
    ∀ (srcs : List (Name → SrcAns)) (i : Nat) (s : St), (∀ src ∈ srcs, src ∈ c.sources) → n ∉ s.parsed.keys →
      n ∉ (trySources c req m srcs i s).parsed.keys := by
  intro srcs
  induction srcs with
  | nil =>
    intro i s _ h
    unfold trySources
    simp only
    split <;> split <;> exact h
  | cons src rest ih =>
    intro i s hsub h
    have hrest : ∀ x ∈ rest, x ∈ c.sources := fun x hx => hsub x (List.mem_cons_of_mem _ hx)
    unfold trySources
    simp only
    split
    · exact ih _ _ hrest h
    · exact ih _ _ hrest h
    · rename_i alias mtime text hsrc
      split
      · exact ih _ _ hrest h
      · exact ih _ _ hrest h
      · rename_i ts _ hparse
        have hts := hno src (hsub src (by simp)) m alias mtime text ts hsrc hparse
        have h3 := np_symTrees c req n m alias mtime ts ((s.log (.get i m)).log (.parse text)) hts h
        split
        · rename_i hst
          rw [hst] at h3
          exact ih _ _ hrest h3
        · rename_i hst
          rw [hst] at h3
          exact h3

/-- the work list only grows while a name is being looked up; the list of names already looked up does not change -/
theorem queue_registerTree {s : St} (req : List Name) (m alias : Name) (mtime : Int) (tree : Nat) (name : Name)
    (imports : List Name) (x : Name) (h : x ∈ s.queue) :
    x ∈ (registerTree req s m alias mtime tree name imports).queue ∧
    (registerTree req s m alias mtime tree name imports).fetched = s.fetched := by
  unfold registerTree clearStale
  simp only
  split <;> split <;> split <;> simp [h]

theorem queue_symTrees (c : Cfg) (req : List Name) (m alias : Name) (mtime : Int) (x : Name) :
    ∀ (ts : List Nat) (s : St), x ∈ s.queue → x ∈ (symTrees c req m alias mtime ts s).1.queue := by
  intro ts
  induction ts with
  | nil => intro s h; exact h
  | cons t ts ih =>
    intro s h
    unfold symTrees
    simp only
    split
    · exact h
    · exact ih _ (queue_registerTree (s := s.log (.sym t)) req m alias mtime t _ _ x h).1

theorem fetched_symTrees (c : Cfg) (req : List Name) (m alias : Name) (mtime : Int) :
    ∀ (ts : List Nat) (s : St), (symTrees c req m alias mtime ts s).1.fetched = s.fetched := by
  intro ts
  induction ts with
  | nil => intro s; rfl
  | cons t ts ih =>
    intro s
    unfold symTrees
    simp only
    split
    · rfl
    · rw [ih]
      unfold registerTree clearStale
      simp only
      split <;> split <;> split <;> rfl

end Pysmi.Compile

namespace Pysmi.Compile
open Pysmi

theorem queue_trySources (c : Cfg) (req : List Name) (m x : Name) :
    ∀ (srcs : List (Name → SrcAns)) (i : Nat) (s : St), x ∈ s.queue → x ∈ (trySources c req m srcs i s).queue := by
  intro srcs
  induction srcs with
  | nil =>
    intro i s h
    unfold trySources
    simp only
    split <;> split <;> exact h
  | cons src rest ih =>
    intro i s h
    unfold trySources
    simp only
    split
    · exact ih _ _ h
    · exact ih _ _ h
    · rename_i alias mtime text _
      split
      · exact ih _ _ h
      · exact ih _ _ h
      · rename_i ts _ _
        have h3 := queue_symTrees c req m alias mtime x ts ((s.log (.get i m)).log (.parse text)) h
        split
        · rename_i hst
          rw [hst] at h3
          exact ih _ _ h3
        · rename_i hst
          rw [hst] at h3
          exact h3

theorem fetched_trySources (c : Cfg) (req : List Name) (m : Name) :
    ∀ (srcs : List (Name → SrcAns)) (i : Nat) (s : St), (trySources c req m srcs i s).fetched = s.fetched := by
  intro srcs
  induction srcs with
  | nil =>
    intro i s
    unfold trySources
    simp only
    split <;> split <;> rfl
  | cons src rest ih =>
    intro i s
    unfold trySources
    simp only
    split
    · rw [ih]; rfl
    · rw [ih]; rfl
    · rename_i alias mtime text _
      split
      · rw [ih]; rfl
      · rw [ih]; rfl
      · rename_i ts _ _
        have h3 := fetched_symTrees c req m alias mtime ts ((s.log (.get i m)).log (.parse text))
        split
        · rename_i hst
          rw [hst] at h3
          rw [ih]; exact h3
        · rename_i hst
          rw [hst] at h3
          exact h3

/-- what holds of `n` in every state of the discovery loop -/
structure Pending (n : Name) (s : St) : Prop where
  queuedOrFailed : n ∈ s.queue ∨ s.failed.contains n = true
  notParsed : n ∉ s.parsed.keys
  fetchedFailed : n ∈ s.fetched → s.failed.contains n = true

theorem pending_discoverStep (c : Cfg) (req : List Name) (n : Name) (hnf : ∀ src ∈ c.sources, src n = .notFound)
    (hno : NoModuleNamed c n) (m : Name) (q : List Name) (s : St) (hq : s.queue = m :: q) (h : Pending n s) :
    Pending n (discoverStep c req m { s with queue := q }) := by
  have hnp : n ∉ ({ s with queue := q } : St).parsed.keys := h.notParsed
  by_cases hm : m = n
  · subst hm
    unfold discoverStep
    split
    · rename_i hp
      exfalso
      have : ({ s with queue := q } : St).parsed.get? m ≠ none := by
        intro hn; simp [AList.contains, hn] at hp
      exact this ((AList.get?_eq_none_iff _ _).mpr hnp)
    · split
      · rename_i hf
        exact ⟨Or.inr hf, hnp, fun _ => hf⟩
      · split
        · rename_i hf hfe
          exact absurd (h.fetchedFailed hfe) (by simpa using hf)
        · have k := trySources_all_notFound c req m c.sources 0 { s with queue := q, fetched := m :: s.fetched } hnf hnp
          exact ⟨Or.inr k.failed, k.notParsed, fun _ => k.failed⟩
  · have hqn : n ∈ q ∨ s.failed.contains n = true := by
      rcases h.queuedOrFailed with h1 | h1
      · rw [hq] at h1
        rcases List.mem_cons.mp h1 with h2 | h2
        · exact absurd h2.symm hm
        · exact Or.inl h2
      · exact Or.inr h1
    unfold discoverStep
    split
    · exact ⟨hqn, hnp, h.fetchedFailed⟩
    · split
      · exact ⟨hqn, hnp, h.fetchedFailed⟩
      · split
        · exact ⟨hqn, hnp, h.fetchedFailed⟩
        · -- a real lookup of another name
          have hsub : ∀ src ∈ c.sources, src ∈ c.sources := fun _ hx => hx
          have hnp' := np_trySources c req n m hno c.sources 0 { s with queue := q, fetched := m :: s.fetched } hsub hnp
          have hfe := fetched_trySources c req m c.sources 0 { s with queue := q, fetched := m :: s.fetched }
          refine ⟨?_, hnp', ?_⟩
          · rcases hqn with h1 | h1
            · exact Or.inl (queue_trySources c req m n c.sources 0 { s with queue := q, fetched := m :: s.fetched } h1)
            · exact Or.inr (kf_trySources c req n m hm hno c.sources 0 { s with queue := q, fetched := m :: s.fetched } hsub ⟨h1, hnp⟩).failed
          · intro hf
            rw [hfe] at hf
            simp only at hf
            rcases List.mem_cons.mp hf with h2 | h2
            · exact absurd h2.symm hm
            · have := h.fetchedFailed h2
              exact (kf_trySources c req n m hm hno c.sources 0 { s with queue := q, fetched := m :: s.fetched } hsub ⟨this, hnp⟩).failed

theorem pending_discover (c : Cfg) (req : List Name) (n : Name) (hnf : ∀ src ∈ c.sources, src n = .notFound)
    (hno : NoModuleNamed c n) (fuel : Nat) (s s' : St) (h : Pending n s) (hd : discover c req fuel s = some s') :
    s'.failed.contains n = true := by
  induction fuel generalizing s with
  | zero => simp [discover] at hd
  | succ fuel ih =>
    unfold discover at hd
    split at hd
    · rename_i hq
      injection hd with hd
      rw [← hd]
      rcases h.queuedOrFailed with h1 | h1
      · rw [hq] at h1; cases h1
      · exact h1
    · rename_i m q hq
      exact ih _ (pending_discoverStep c req n hnf hno m q s hq h) hd

/-- **C09_missing_module_blocks**: stated on the inputs alone - a requested module that no source has, that no file of any
source contains under whatever name, and that no borrower delivers, with errors not ignored: the writer is never called and
every module that was built is reported `unprocessed`, whatever else the request names, whatever the import graph and the
outcome of every other call. -/
theorem C09_missing_module_blocks (c : Cfg) (req : List Name) (o : Opts) (fuel : Nat) (s0 : St) (n : Name)
    (hd : discover c req fuel { queue := req } = some s0) (hn : n ∈ req)
    (hnf : ∀ src ∈ c.sources, src n = .notFound) (hno : NoModuleNamed c n)
    (hb : (borrowLoop n o.genTexts c.borrowers 0).1 = none) (hi : o.ignoreErrors = false) :
    ∃ s out, beforeGate c req o fuel = some s ∧ run c req o fuel = some out ∧ (∀ x ∈ out.trace, x.isPut = false) ∧
      ∀ m ∈ s.built.keys, out.processed.get? m = some { st := .unprocessed } := by
  have h0 : Pending n ({ queue := req } : St) := ⟨Or.inl hn, by simp [AList.keys], fun h => by cases h⟩
  exact C09_unrepaired_failure_blocks c req o fuel s0 n hd (pending_discover c req n hnf hno fuel _ s0 h0 hd) hb hi

end Pysmi.Compile

namespace Pysmi.Compile
open Pysmi

/-- non-vacuity: module 1 is there and imports 2; 2 is requested too, no source has it, no file contains it -/
def missCfg : Cfg where
  sources := [fun n => if n = 1 then .ok 1 0 10 else .notFound]
  parse := fun t => .trees [t]
  sym := fun t => if t = 10 then .ok 1 [2] else .error
  gen := fun t _ => .ok (t + 1)
  searchers := []
  borrowers := []
  put := fun _ _ _ => true

theorem missCfg_hyps : (∀ src ∈ missCfg.sources, src 2 = .notFound) ∧ NoModuleNamed missCfg 2 := by
  constructor
  · intro src hs
    simp only [missCfg, List.mem_singleton] at hs
    subst hs; rfl
  · intro src hsrc m alias mtime text ts hs hp t ht name imps hy
    simp only [missCfg, List.mem_singleton] at hsrc
    subst hsrc
    simp only [missCfg] at hp hy
    injection hp with hp
    subst hp
    simp only [List.mem_singleton] at ht
    subst ht
    by_cases h1 : m = 1
    · subst h1
      simp at hs
      obtain ⟨_, _, ht⟩ := hs; subst ht
      simp at hy
      intro h; rw [← hy.1] at h; cases h
    · simp [h1] at hs

example : ((run missCfg [1, 2] {} 10).map fun out => (out.processed.map fun e => (e.1, e.2.st), out.trace.filter Call.isPut)) =
    some ([(2, .missing), (1, .unprocessed)], []) := by decide +kernel

end Pysmi.Compile
