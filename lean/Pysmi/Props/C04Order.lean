import Pysmi.Props.C03
import Pysmi.Generated.Pysnmp
/-!
# C04 — every definition of the generated module stands after what it is built from

The pysnmp template writes one Python statement per record, in the order of `_symtable_order` (records that carry an
OID are then sorted by it, the others keep their place: `C04_types_keep_dependency_order`).  A class statement names
its base class, so the module can only be loaded if the base has been defined (or imported) before.

* `C04_parents_before`: whenever the symbol pass succeeds, every symbol of the emission order is the name of a
  declaration all of whose parents are imported / base symbols, row types, or symbols *earlier in the order* —
  for any number and order of declarations, any depth of forward references.
* `C04_before_survives_filter`: a pass of the template over the records of some classes (a filter of the order)
  keeps "earlier" — a base that is defined by the same pass is defined before.
* `C04_types_one_pass` (regenerated table): the template defines plain types and textual conventions in the same
  single pass, and that pass comes before every pass that uses them.  (Before repair b06c2a8 there were two passes,
  types first: a type based on a textual convention was written ahead of its base.)
-/
namespace Pysmi.Symtab

/-- every element of `out` names a declaration whose parents are all there before it -/
def Ord (avail : Name → Bool) (all : List Decl) (rows out : List Name) : Prop :=
  ∀ (i : Nat) (h : i < out.length), ∃ d ∈ all, d.name = out[i] ∧ allParents avail (out.take i) rows d.parents = true

theorem ord_nil (avail : Name → Bool) (all : List Decl) (rows : List Name) : Ord avail all rows [] := by
  intro i h; simp at h

theorem ord_snoc (avail : Name → Bool) (all : List Decl) (rows rows' out : List Name) (d : Decl) (hd : d ∈ all)
    (ho : Ord avail all rows out) (hp : allParents avail out rows' d.parents = true) (hsub : ∀ x ∈ rows', x ∈ rows) :
    Ord avail all rows (out ++ [d.name]) := by
  intro i h
  by_cases hi : i < out.length
  · obtain ⟨d', hd', hn, hpar⟩ := ho i hi
    refine ⟨d', hd', ?_, ?_⟩
    · rw [List.getElem_append_left hi]; exact hn
    · rw [List.take_append_of_le_length (by omega)]; exact hpar
  · have hi' : i = out.length := by simp at h; omega
    subst hi'
    refine ⟨d, hd, ?_, ?_⟩
    · simp
    · simp only [List.take_left']
      exact allParents_mono_rows avail out rows' rows d.parents hp hsub

theorem pass_ord (avail : Name → Bool) (all : List Decl) (R rows : List Name) (hsub : ∀ x ∈ rows, x ∈ R)
    (post : List Decl) (out : List Name) (hpost : ∀ d ∈ post, d ∈ all) (ho : Ord avail all R out) :
    Ord avail all R (pass avail rows post out).1 := by
  induction post generalizing out with
  | nil => simpa [pass] using ho
  | cons d rest ih =>
    unfold pass
    split
    · rename_i hp
      exact ih _ (fun x hx => hpost x (List.mem_cons_of_mem _ hx)) (ord_snoc avail all R rows out d (hpost d (by simp)) ho hp hsub)
    · exact ih _ (fun x hx => hpost x (List.mem_cons_of_mem _ hx)) ho

theorem fixpoint_ord (avail : Name → Bool) (all : List Decl) (R rows : List Name) (hsub : ∀ x ∈ rows, x ∈ R)
    (fuel : Nat) (post : List Decl) (out : List Name) (hpost : ∀ d ∈ post, d ∈ all) (ho : Ord avail all R out) :
    Ord avail all R (fixpoint avail rows fuel post out).1 := by
  induction fuel generalizing post out with
  | zero => simpa [fixpoint] using ho
  | succ fuel ih =>
    unfold fixpoint
    simp only
    have hp := pass_ord avail all R rows hsub post out hpost ho
    split
    · exact ih _ _ (fun d hd => hpost d (pass_post_sub avail rows post out d hd)) hp
    · exact hp

/-- the invariant carried through the declarations: the order so far is justified, postponed declarations are declared ones,
rows are rows of the module -/
structure OrdInv (avail : Name → Bool) (all : List Decl) (s : St) : Prop where
  ord : Ord avail all (allRows all) s.out
  post : ∀ d ∈ s.postponed, d ∈ all
  rows : ∀ x ∈ s.rows, x ∈ allRows all

theorem ordInv_regDecl (avail : Name → Bool) (all : List Decl) (s s' : St) (d : Decl) (hd : d ∈ all)
    (hinv : OrdInv avail all s) (h : regDecl avail s d = .ok s') : OrdInv avail all s' := by
  unfold regDecl at h
  simp only at h
  have hrows : ∀ x ∈ s.rows ++ d.addsRows, x ∈ allRows all := by
    intro x hx
    rcases List.mem_append.mp hx with hx | hx
    · exact hinv.rows x hx
    · exact List.mem_flatMap.mpr ⟨d, hd, hx⟩
  split at h
  · cases h
  · split at h
    · rename_i hpar
      injection h with h; subst h
      refine ⟨?_, ?_, hrows⟩
      · exact fixpoint_ord avail all _ _ hrows _ _ _ hinv.post (ord_snoc avail all _ _ _ d hd hinv.ord hpar hrows)
      · intro x hx
        exact hinv.post x (fixpoint_post_sub avail _ _ _ _ x hx)
    · injection h with h; subst h
      refine ⟨hinv.ord, ?_, hrows⟩
      intro x hx
      rcases List.mem_append.mp hx with hx | hx
      · exact hinv.post x hx
      · simp at hx; subst hx; exact hd

theorem ordInv_regAll (avail : Name → Bool) (all rest : List Decl) (hrest : ∀ d ∈ rest, d ∈ all) (s s' : St)
    (hinv : OrdInv avail all s) (h : regAll avail rest s = .ok s') : OrdInv avail all s' := by
  induction rest generalizing s with
  | nil =>
    simp only [regAll, Except.ok.injEq] at h
    subst h; exact hinv
  | cons d rest ih =>
    unfold regAll at h
    split at h
    · cases h
    · rename_i s1 hs1
      exact ih (fun x hx => hrest x (List.mem_cons_of_mem _ hx)) s1
        (ordInv_regDecl avail all s s1 d (hrest d (by simp)) hinv hs1) h

/-- **C04_parents_before**: on success, every symbol of the emission order names a declaration whose parents are each an
imported / base symbol, a row type of the module, or a symbol that stands earlier in the order. -/
theorem C04_parents_before (avail : Name → Bool) (decls : List Decl) (order : List Name) (h : run avail decls = .ok order)
    (i : Nat) (hi : i < order.length) :
    ∃ d ∈ decls, d.name = order[i] ∧ ∀ p ∈ d.parents, p ∈ order.take i ∨ avail p = true ∨ p ∈ allRows decls := by
  unfold run at h
  split at h
  · cases h
  · rename_i s hs
    split at h
    · injection h with h; subst h
      have hinv := ordInv_regAll avail decls decls (fun _ hd => hd) {} s
        ⟨ord_nil avail decls _, by simp, by simp⟩ hs
      obtain ⟨d, hd, hn, hp⟩ := hinv.ord i hi
      refine ⟨d, hd, hn, ?_⟩
      intro p hpm
      unfold allParents at hp
      rw [List.all_eq_true] at hp
      have := hp p hpm
      unfold parentExists at this
      simp only [Bool.or_eq_true, List.contains_iff_mem] at this
      rcases this with (h1 | h1) | h1
      · exact Or.inl h1
      · exact Or.inr (Or.inl h1)
      · exact Or.inr (Or.inr h1)
    · cases h

/-- **C04_declared_parent_earlier**: with distinct declared names, *the* declaration of a symbol of the order has every
parent that is itself only a declared symbol (not imported, not a row type) strictly earlier in the order. -/
theorem C04_declared_parent_earlier (avail : Name → Bool) (decls : List Decl) (hnd : (names decls).Nodup)
    (order : List Name) (h : run avail decls = .ok order) (d : Decl) (hd : d ∈ decls)
    (i : Nat) (hi : i < order.length) (hn : order[i] = d.name) (p : Name) (hp : p ∈ d.parents)
    (hnb : ¬ Base avail decls p) : p ∈ order.take i := by
  obtain ⟨d', hd', hn', hpar⟩ := C04_parents_before avail decls order h i hi
  have : d' = d := decl_unique decls hnd d' d hd' hd (by rw [hn', hn])
  subst this
  rcases hpar p hp with h1 | h1 | h1
  · exact h1
  · exact absurd (Or.inl h1) hnb
  · exact absurd (Or.inr h1) hnb

theorem filter_split (f : Name → Bool) (a : List Name) (x : Name) (b : List Name) (hf : f x = true) :
    (a ++ x :: b).filter f = a.filter f ++ x :: b.filter f := by
  simp [List.filter_append, List.filter_cons, hf]

/-- **C04_before_survives_filter**: one pass of the template writes the records of some classes in the order of the
list; a symbol that stands before another in the list and is written by the same pass is written before it. -/
theorem C04_before_survives_filter (f : Name → Bool) (order : List Name) (i : Nat) (hi : i < order.length)
    (hf : f order[i] = true) (p : Name) (hp : p ∈ order.take i) (hfp : f p = true) :
    ∃ pre post, order.filter f = pre ++ order[i] :: post ∧ p ∈ pre := by
  refine ⟨(order.take i).filter f, (order.drop (i + 1)).filter f, ?_, List.mem_filter.mpr ⟨hp, hfp⟩⟩
  have hsplit : order = order.take i ++ order[i] :: order.drop (i + 1) := by
    rw [List.getElem_cons_drop]; exact (List.take_append_drop i order).symm
  have key := filter_split f (order.take i) order[i] (order.drop (i + 1)) hf
  rw [← hsplit] at key
  exact key

/-- a chain of forward references: `T3 ::= T2`, `T2 ::= T1`, `T1 ::= <base 0>` (names 3, 2, 1) comes out base first -/
example : run (fun n => n == 0) [⟨3, [2], []⟩, ⟨2, [1], []⟩, ⟨1, [0], []⟩] = .ok [1, 2, 3] := by decide

end Pysmi.Symtab

namespace Pysmi.Generated.Pysnmp

/-- the passes of the template that write records of class `c`, by position -/
def passesOf (c : String) : List Nat :=
  (List.range templateLoops.length).filter (fun i => (templateLoops.getD i []).contains c)

/-- **C04_types_one_pass**: plain types and textual conventions are defined by one and the same pass of the template
(the last pass is the export list, which defines nothing), and that pass precedes every pass over records that use
types (objects) — so the order of `C04_parents_before` is the order of the class statements. -/
theorem C04_types_one_pass :
    (passesOf "type").dropLast = (passesOf "textualconvention").dropLast ∧ (passesOf "type").dropLast.length = 1 ∧
    (∀ i ∈ (passesOf "type").dropLast, ∀ j ∈ (passesOf "objecttype"), i < j) ∧
    (passesOf "type").getLast? = some (templateLoops.length - 1) := by decide

/-- the pass that defines the managed objects (the one that also defines OBJECT-IDENTITY nodes and is not the export list) -/
def objectPasses : List Nat := (passesOf "objectidentity").dropLast

/-- **C04_augment_after_objects**: the statements that register an augmenting row with its base row stand in exactly one pass,
which comes after the (one) pass that defines the managed objects - so the base row, wherever its OID sorts, is defined when
they run.  (Before repair f9270ed they stood inside the pass over the managed objects, behind the augmenting row.) -/
theorem C04_augment_after_objects :
    templateAugmentPasses.length = 1 ∧ objectPasses.length = 1 ∧
    (∀ a ∈ templateAugmentPasses, ∀ o ∈ objectPasses, o < a) ∧
    (∀ a ∈ templateAugmentPasses, a < templateLoops.length - 1) := by decide

end Pysmi.Generated.Pysnmp
