import Pysmi.Props.C02
import Pysmi.Model.LexCfg
/-!
# C02 — the contents of a MACRO block do not matter

`MACRO … END`: in the lexer's `macro` state line ends are counted, everything else up to the first `END` is discarded
(`.+?(?=END)` under DOTALL), `END` is returned as a token and the lexer is back in INITIAL.  Proved for every body that
does not contain `END`, whatever else it holds (quotes, braces, keywords, line ends of any kind).
-/
namespace Pysmi.Lexer

def endW : Str := "END".toList

/-- the text contains no `END` -/
def NoEND (b : Str) : Prop := ∀ i, startsWith (b.drop i) endW = false

theorem noEND_drop {b : Str} (h : NoEND b) (n : Nat) : NoEND (b.drop n) := by
  intro i; rw [List.drop_drop]; exact h _

/-- no `END` starts inside a body free of it, even when `END` follows (no overlap is possible) -/
theorem no_straddle (t rest : Str) (ht : t ≠ []) (h : startsWith t endW = false) :
    startsWith (t ++ 'E' :: 'N' :: 'D' :: rest) endW = false := by
  match t, ht with
  | [x], _ => simp [startsWith, endW]
  | [x, y], _ => simp [startsWith, endW]
  | x :: y :: z :: more, _ => simpa [startsWith, endW] using h

theorem go_spec (t : Str) (m k : Nat) (hfree : ∀ i, i < m → startsWith (t.drop i) endW = false)
    (hend : startsWith (t.drop m) endW = true) : macroBodyLen.go t k = some (k + m) := by
  induction m generalizing t k with
  | zero =>
    cases t with
    | nil => simp [startsWith, endW] at hend
    | cons c cs =>
      simp only [List.drop_zero] at hend
      have : startsWith (c :: cs) "END".toList = true := hend
      simp only [macroBodyLen.go, this, if_true, Nat.add_zero]
  | succ m ih =>
    cases t with
    | nil => simp [startsWith, endW] at hend
    | cons c cs =>
      have h0 := hfree 0 (by omega)
      simp only [List.drop_zero] at h0
      simp only [macroBodyLen.go]
      have : startsWith (c :: cs) "END".toList = false := h0
      simp only [this]
      rw [ih cs (k + 1) (fun i hi => by have := hfree (i + 1) (by omega); simpa using this) (by simpa using hend)]
      simp only [Bool.false_eq_true, if_false]
      congr 1; omega

end Pysmi.Lexer

namespace Pysmi.Lexer

def endTok (line : Nat) : Tok := ⟨"END", .str "END".toList, line⟩

theorem step_macro_end (cfg : Cfg) (line : Nat) (rest : Str) :
    step cfg .macro line ('E' :: 'N' :: 'D' :: rest) = .tok (endTok line) 3 .initial 0 := by
  simp [step, newlineLen, startsWith, endTok]

/-- the body of a MACRO up to its `END` is skipped whatever it contains: the next token is `END`, then the lexer is back
in the INITIAL state at the text that follows; only the line counter has moved -/
theorem scan_macro (cfg : Cfg) :
    ∀ (len : Nat) (body rest : Str), body.length ≤ len → NoEND body →
      ∃ k d, ∀ fuel line, scan cfg (fuel + k) .macro line (body ++ 'E' :: 'N' :: 'D' :: rest) =
        (scan cfg fuel .initial (line + d) rest).map (endTok (line + d) :: ·) := by
  intro len
  induction len with
  | zero =>
    intro body rest hl _
    have : body = [] := List.eq_nil_of_length_eq_zero (by omega)
    subst this
    refine ⟨1, 0, fun fuel line => ?_⟩
    simp only [List.nil_append]
    rw [scan_cons, step_macro_end]
    simp
  | succ len ih =>
    intro body rest hl hb
    cases body with
    | nil => exact ih [] rest (by simp) hb
    | cons b bs =>
      cases hnl : newlineLen ((b :: bs) ++ 'E' :: 'N' :: 'D' :: rest) with
      | some n =>
        have hn1 := newlineLen_pos _ _ hnl
        have hnle := newlineLen_le_of_append (b :: bs) 'E' ('N' :: 'D' :: rest) n (by decide) (by decide) hnl
        obtain ⟨k, d, hk⟩ := ih ((b :: bs).drop n) rest
          (by simp only [List.length_drop, List.length_cons] at hl hnle ⊢; omega) (noEND_drop hb n)
        refine ⟨k + 1, d + 1, fun fuel line => ?_⟩
        have hstep : step cfg .macro line (b :: (bs ++ 'E' :: 'N' :: 'D' :: rest)) = .skip n .macro 1 := by
          have hnl' : newlineLen (b :: (bs ++ 'E' :: 'N' :: 'D' :: rest)) = some n := by simpa using hnl
          simp only [step, hnl']
        simp only [List.cons_append]
        rw [← Nat.add_assoc, scan_skip cfg (fuel + k) _ _ _ _ _ _ _ hstep]
        have hdrop : (b :: (bs ++ 'E' :: 'N' :: 'D' :: rest)).drop (max n 1) = (b :: bs).drop n ++ 'E' :: 'N' :: 'D' :: rest := by
          have : max n 1 = n := by omega
          rw [this, ← List.cons_append, List.drop_append_of_le_length hnle]
        rw [hdrop, hk]
        have : line + 1 + d = line + (d + 1) := by omega
        rw [this]
      | none =>
        have hnl' : newlineLen (b :: (bs ++ 'E' :: 'N' :: 'D' :: rest)) = none := by simpa using hnl
        -- no END starts inside the body, the first one is right behind it
        have hfree : ∀ i, i < bs.length + 1 →
            startsWith ((b :: (bs ++ 'E' :: 'N' :: 'D' :: rest)).drop i) endW = false := by
          intro i hi
          have : (b :: (bs ++ 'E' :: 'N' :: 'D' :: rest)).drop i = (b :: bs).drop i ++ 'E' :: 'N' :: 'D' :: rest := by
            rw [← List.cons_append, List.drop_append_of_le_length (by simp; omega)]
          rw [this]
          exact no_straddle _ rest (by intro h; have := congrArg List.length h; simp at this; omega) (hb i)
        have hhead : startsWith (b :: (bs ++ 'E' :: 'N' :: 'D' :: rest)) "END".toList = false := hfree 0 (by omega)
        have hlen : macroBodyLen (b :: (bs ++ 'E' :: 'N' :: 'D' :: rest)) = some (bs.length + 1) := by
          unfold macroBodyLen
          have := go_spec (bs ++ 'E' :: 'N' :: 'D' :: rest) bs.length 1
            (fun i hi => by have := hfree (i + 1) (by omega); simpa using this)
            (by simp [startsWith, endW])
          show macroBodyLen.go (bs ++ 'E' :: 'N' :: 'D' :: rest) 1 = some (bs.length + 1)
          rw [this]; congr 1; omega
        let d := countNewlines ((b :: (bs ++ 'E' :: 'N' :: 'D' :: rest)).take (bs.length + 1))
        have hstep : ∀ line, step cfg .macro line (b :: (bs ++ 'E' :: 'N' :: 'D' :: rest)) = .skip (bs.length + 1) .macro d := by
          intro line
          simp only [step, hnl', hhead, hlen, Bool.false_eq_true, if_false]
          rfl
        refine ⟨2, d, fun fuel line => ?_⟩
        simp only [List.cons_append]
        rw [show fuel + 2 = (fuel + 1) + 1 from rfl, scan_skip cfg (fuel + 1) _ _ _ _ _ _ _ (hstep line)]
        have hdrop : (b :: (bs ++ 'E' :: 'N' :: 'D' :: rest)).drop (max (bs.length + 1) 1) = 'E' :: 'N' :: 'D' :: rest := by
          have : max (bs.length + 1) 1 = bs.length + 1 := by omega
          rw [this]; simp
        rw [hdrop, scan_cons, step_macro_end]
        simp

theorem strip_map_cons (t : Tok) (r : Except LexErr (List Tok)) :
    strip (r.map (t :: ·)) = (strip r).map ((t.ty, t.val) :: ·) := by
  cases r with
  | ok ts => rfl
  | error e => cases e <;> rfl

/-- **C02_macro_opaque**: inside `MACRO … END` nothing but the terminating `END` matters: any two bodies free of `END`
give, after the `END` token, the same tokens for the text that follows. -/
theorem C02_macro_opaque (cfg : Cfg) (b1 b2 rest : Str) (h1 : NoEND b1) (h2 : NoEND b2) :
    ∃ k1 k2, ∀ fuel l1 l2, strip (scan cfg (fuel + k1) .macro l1 (b1 ++ 'E' :: 'N' :: 'D' :: rest)) =
      strip (scan cfg (fuel + k2) .macro l2 (b2 ++ 'E' :: 'N' :: 'D' :: rest)) := by
  obtain ⟨k1, d1, hk1⟩ := scan_macro cfg b1.length b1 rest (Nat.le_refl _) h1
  obtain ⟨k2, d2, hk2⟩ := scan_macro cfg b2.length b2 rest (Nat.le_refl _) h2
  refine ⟨k1, k2, fun fuel l1 l2 => ?_⟩
  rw [hk1, hk2, strip_map_cons, strip_map_cons, scan_line_indep cfg fuel .initial (l1 + d1) (l2 + d2) rest]
  rfl

end Pysmi.Lexer

namespace Pysmi.Lexer

/-- decidable form of `NoEND` -/
def noEndB (b : Str) : Bool := (List.range (b.length + 1)).all fun i => !startsWith (b.drop i) endW

theorem noEND_of_noEndB (b : Str) (h : noEndB b = true) : NoEND b := by
  intro i
  by_cases hi : i < b.length + 1
  · have := (List.all_eq_true.mp h) i (List.mem_range.mpr hi)
    simpa using this
  · have : b.drop i = [] := List.drop_eq_nil_of_le (by omega)
    rw [this]; rfl

/-- non-vacuity: the body of a real macro definition (several lines, quotes, braces, the word `BEGIN`) is skipped -/
example : NoEND " ::= BEGIN TYPE NOTATION ::= \"SYNTAX\" type(Syntax)\n  VALUE NOTATION ::= value(VALUE ObjectName) ".toList :=
  noEND_of_noEndB _ (by decide +kernel)

example : (match strip (scan cfgV2 100 .macro 1 " ::= BEGIN x\n y END z OBJECT".toList) with
    | .ok ts => ts.map (·.1)
    | .error _ => []) = ["END", "LOWERCASE_IDENTIFIER", "OBJECT"] := by decide +kernel

end Pysmi.Lexer
