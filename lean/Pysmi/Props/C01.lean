import Pysmi.Model.Oid
/-!
# C01 — every symbol gets the OID the text defines (OID resolution)

`Denotes` is the specification, independent of the algorithm: the OID obtained by following
parent references down to numeric roots. The symbol tables are *maps* (module → name →
parts), so the order of declarations and of modules cannot matter by construction; what is
proved is that the recursive resolver computes exactly the denoted OID, for tables of any
size, any depth of parent chains, across any number of modules.
-/
namespace Pysmi.Oid

/-- `ps` denotes the numeric OID `o` in tables `T` -/
inductive Denotes (iso : Name) (T : Tables) : List Part → List Nat → Prop
  | nil : Denotes iso T [] []
  | num {k rest r} : Denotes iso T rest r → Denotes iso T (.num k :: rest) (k :: r)
  | iso {m rest r} : Denotes iso T rest r → Denotes iso T (.ref iso m :: rest) (1 :: r)
  | ref {n m parts a rest r} : n ≠ iso → T m n = some parts → Denotes iso T parts a → Denotes iso T rest r →
      Denotes iso T (.ref n m :: rest) (a ++ r)

/-- **C01_denotes_functional**: a symbol denotes at most one OID. -/
theorem C01_denotes_functional (iso : Name) (T : Tables) (ps : List Part) (o o' : List Nat)
    (h : Denotes iso T ps o) (h' : Denotes iso T ps o') : o = o' := by
  induction h generalizing o' with
  | nil => cases h'; rfl
  | num _ ih => cases h' with | num h2 => rw [ih _ h2]
  | iso _ ih =>
    cases h' with
    | iso h2 => rw [ih _ h2]
    | ref hne _ _ _ => exact absurd rfl hne
  | ref hne ht _ _ ih1 ih2 =>
    cases h' with
    | iso _ => exact absurd rfl hne
    | ref _ ht' h1 h2 =>
      rw [ht] at ht'; injection ht' with ht'; subst ht'
      rw [ih1 _ h1, ih2 _ h2]

/-- **C01_numericOid_sound**: whatever the resolver returns is the denoted OID. -/
theorem C01_numericOid_sound (iso : Name) (T : Tables) (fuel : Nat) (ps : List Part) (o : List Nat)
    (h : numericOid iso T fuel ps = .ok o) : Denotes iso T ps o := by
  induction fuel, ps using numericOid.induct iso T generalizing o with
  | case1 fuel =>
    simp [numericOid] at h; subst h; exact .nil
  | case2 fuel k rest ih =>
    simp only [numericOid, bind, Except.bind] at h
    split at h
    · cases h
    · rename_i r hr
      simp only [pure, Except.pure, Except.ok.injEq] at h
      subst h
      exact .num (ih r hr)
  | case3 n m rest =>
    simp [numericOid] at h
  | case4 fuel m rest ih =>
    simp only [numericOid, if_true, bind, Except.bind] at h
    split at h
    · cases h
    · rename_i r hr
      simp only [pure, Except.pure, Except.ok.injEq] at h
      subst h
      exact .iso (ih r hr)
  | case5 fuel n m rest hn ht =>
    simp [numericOid, hn, ht] at h
  | case6 fuel n m rest hn parts ht ih1 ih2 =>
    simp only [numericOid, hn, if_false, ht, bind, Except.bind] at h
    split at h
    · cases h
    · rename_i a ha
      split at h
      · cases h
      · rename_i r hr
        simp only [pure, Except.pure, Except.ok.injEq] at h
        subst h
        exact .ref hn ht (ih1 a ha) (ih2 r hr)

/-- more fuel never changes an answer -/
theorem numericOid_mono (iso : Name) (T : Tables) (fuel : Nat) (ps : List Part) (o : List Nat)
    (h : numericOid iso T fuel ps = .ok o) : ∀ fuel', fuel ≤ fuel' → numericOid iso T fuel' ps = .ok o := by
  induction fuel, ps using numericOid.induct iso T generalizing o with
  | case1 fuel =>
    intro fuel' _
    simp [numericOid] at h ⊢; exact h
  | case2 fuel k rest ih =>
    intro fuel' hle
    simp only [numericOid, bind, Except.bind] at h ⊢
    split at h
    · cases h
    · rename_i r hr
      rw [ih r hr fuel' hle]; exact h
  | case3 n m rest => simp [numericOid] at h
  | case4 fuel m rest ih =>
    intro fuel' hle
    obtain ⟨f, rfl⟩ : ∃ f, fuel' = f + 1 := ⟨fuel' - 1, by omega⟩
    simp only [numericOid, if_true, bind, Except.bind] at h ⊢
    split at h
    · cases h
    · rename_i r hr
      rw [ih r hr (f + 1) hle]; exact h
  | case5 fuel n m rest hn ht => simp [numericOid, hn, ht] at h
  | case6 fuel n m rest hn parts ht ih1 ih2 =>
    intro fuel' hle
    obtain ⟨f, rfl⟩ : ∃ f, fuel' = f + 1 := ⟨fuel' - 1, by omega⟩
    simp only [numericOid, hn, if_false, ht, bind, Except.bind] at h ⊢
    split at h
    · cases h
    · rename_i a ha
      split at h
      · cases h
      · rename_i r hr
        rw [ih1 a ha f (by omega), ih2 r hr (f + 1) hle]; exact h

/-- **C01_numericOid_complete**: every denoted OID is computed, given enough recursion depth (the
depth of the parent chain); from then on the answer is stable. So for tables without reference
cycles the resolver returns exactly the denoted OID. -/
theorem C01_numericOid_complete (iso : Name) (T : Tables) (ps : List Part) (o : List Nat)
    (h : Denotes iso T ps o) : ∃ fuel0, ∀ fuel, fuel0 ≤ fuel → numericOid iso T fuel ps = .ok o := by
  induction h with
  | nil => exact ⟨0, fun fuel _ => by simp [numericOid]⟩
  | num _ ih =>
    obtain ⟨f0, hf⟩ := ih
    refine ⟨f0, fun fuel hle => ?_⟩
    simp [numericOid, hf fuel hle, bind, Except.bind, pure, Except.pure]
  | iso _ ih =>
    obtain ⟨f0, hf⟩ := ih
    refine ⟨f0 + 1, fun fuel hle => ?_⟩
    obtain ⟨f, rfl⟩ : ∃ f, fuel = f + 1 := ⟨fuel - 1, by omega⟩
    simp [numericOid, hf (f + 1) (by omega), bind, Except.bind, pure, Except.pure]
  | ref hne ht _ _ ih1 ih2 =>
    obtain ⟨f1, hf1⟩ := ih1
    obtain ⟨f2, hf2⟩ := ih2
    refine ⟨max f1 f2 + 1, fun fuel hle => ?_⟩
    obtain ⟨f, rfl⟩ : ∃ f, fuel = f + 1 := ⟨fuel - 1, by omega⟩
    simp [numericOid, hne, ht, hf1 f (by omega), hf2 (f + 1) (by omega), bind, Except.bind, pure, Except.pure]

/-! ### spellings -/

theorem denotes_append (iso : Name) (T : Tables) (a b : List Part) (oa ob : List Nat)
    (ha : Denotes iso T a oa) (hb : Denotes iso T b ob) : Denotes iso T (a ++ b) (oa ++ ob) := by
  induction ha with
  | nil => simpa using hb
  | num _ ih => exact .num ih
  | iso _ ih => exact .iso ih
  | ref hne ht h1 _ _ ih2 =>
    rw [List.append_assoc]
    exact .ref hne ht h1 ih2

/-- **C01_spelling_named**: `name(number)` is read exactly like the bare number. -/
theorem C01_spelling_named (importMap : Name → Option Module) (self : Module) (n : Name) (k : Nat)
    (pre post : List SubId) :
    capture importMap self (pre ++ [.named n k] ++ post) = capture importMap self (pre ++ [.num k] ++ post) := by
  induction pre with
  | nil => simp [capture]
  | cons s pre ih => cases s <;> simp_all [capture]

/-- **C01_spelling_name_vs_number**: writing a parent by name, or writing out its own definition
(its parent followed by its arcs), denotes the same OID. -/
theorem C01_spelling_name_vs_number (iso : Name) (T : Tables) (q : Name) (m : Module) (parts rest : List Part)
    (o : List Nat) (hq : q ≠ iso) (ht : T m q = some parts) :
    Denotes iso T (.ref q m :: rest) o ↔ Denotes iso T (parts ++ rest) o := by
  constructor
  · intro h
    cases h with
    | iso _ => exact absurd rfl hq
    | ref _ ht' h1 h2 =>
      rw [ht] at ht'; injection ht' with ht'; subst ht'
      exact denotes_append iso T _ _ _ _ h1 h2
  · intro h
    -- split the derivation of `parts ++ rest`
    have split : ∀ (a b : List Part) (o : List Nat), Denotes iso T (a ++ b) o →
        ∃ oa ob, o = oa ++ ob ∧ Denotes iso T a oa ∧ Denotes iso T b ob := by
      intro a
      induction a with
      | nil => intro b o h; exact ⟨[], o, rfl, .nil, h⟩
      | cons p a ih =>
        intro b o h
        cases h with
        | num h' =>
          obtain ⟨oa, ob, rfl, h1, h2⟩ := ih b _ h'
          exact ⟨_ :: oa, ob, rfl, .num h1, h2⟩
        | iso h' =>
          obtain ⟨oa, ob, rfl, h1, h2⟩ := ih b _ h'
          exact ⟨1 :: oa, ob, rfl, .iso h1, h2⟩
        | ref hne ht hp h' =>
          obtain ⟨oa, ob, rfl, h1, h2⟩ := ih b _ h'
          exact ⟨_ ++ oa, ob, by rw [List.append_assoc], .ref hne ht hp h1, h2⟩
    obtain ⟨oa, ob, rfl, h1, h2⟩ := split parts rest o h
    exact .ref hq ht h1 h2

/-- **C01_import_attribution**: a parent name is looked up in the module it is imported from, else in
the current module. -/
theorem C01_import_attribution (importMap : Name → Option Module) (self : Module) (n : Name) :
    capture importMap self [.name n] = [.ref n (match importMap n with | some m => m | none => self)] := by
  simp [capture]; cases importMap n <;> rfl

/-- **C01_trap_oid**: a TRAP-TYPE with enterprise `e` and number `n` gets `e.0.n`. -/
theorem C01_trap_oid (e : List Nat) (n : Nat) : trapOid e n = e ++ [0] ++ [n] := by simp [trapOid]

/-! ### non-vacuity: a chain across two modules, declared "later" and imported -/
def exT : Tables := fun m n =>
  match m, n with
  | 0, 10 => some [.ref 1 0, .num 3]           -- org ::= { iso 3 }
  | 0, 11 => some [.ref 10 0, .num 6, .num 1]  -- internet ::= { org 6 1 }
  | 1, 20 => some [.ref 11 0, .num 4, .num 1]  -- module 1: enterprises ::= { internet 4 1 } (imported parent)
  | 1, 21 => some [.ref 22 1, .num 48]         -- forward reference inside module 1
  | 1, 22 => some [.ref 20 1, .num 4]
  | _, _ => none

example : numericOid 1 exT 10 [.ref 21 1] = .ok [1, 3, 6, 1, 4, 1, 4, 48] := by
  simp [numericOid, exT, bind, Except.bind, pure, Except.pure]
/-- a reference cycle exhausts any recursion depth (in the code: RecursionError) -/
example : numericOid 1 (fun _ _ => some [.ref 5 0]) 3 [.ref 5 0] = .error .fuel := by
  simp [numericOid, bind, Except.bind, pure, Except.pure]

end Pysmi.Oid
