import Pysmi.Props.C18
/-!
# C18, continued — re-indexing the same results changes nothing

* `compact_minimal`: an entry that survives the compaction pass is not covered by an entry under another key (the pass
  visits shallower keys first: `pairwise_sortByKey`; a proper prefix is shallower: `Strict`);
* `compact_reindex`: the abstract statement — compacting a dictionary that agrees with the first one on the surviving keys
  and lists nothing new gives the same keys with the same modules;
* `C18_reindex_oids`, `C18_reindex_sections`, `C18_reindex_same`: `genIndex` run again on the same compile results, on top of
  its own output, yields the same keys and the same modules under every key in all four sections — for every old index with
  distinct keys (a Python dict) and every list of module summaries.
-/
namespace Pysmi.Index
set_option linter.unusedSectionVars false
variable {κ μ : Type} [DecidableEq κ] [DecidableEq μ]

/-! ### the sort puts smaller keys first -/

theorem pairwise_insertByKey {α} (key : α → Nat) (x : α) (l : List α) (h : l.Pairwise (fun a b => key a ≤ key b)) :
    (insertByKey key x l).Pairwise (fun a b => key a ≤ key b) := by
  induction l with
  | nil => simp [insertByKey]
  | cons y ys ih =>
    unfold insertByKey
    have hy := List.pairwise_cons.mp h
    by_cases hlt : key x < key y
    · simp only [hlt, if_true]
      apply List.pairwise_cons.mpr
      refine ⟨?_, h⟩
      intro b hb
      rcases List.mem_cons.mp hb with hb | hb
      · rw [hb]; omega
      · have := hy.1 b hb; omega
    · simp only [hlt, if_false]
      apply List.pairwise_cons.mpr
      refine ⟨?_, ih hy.2⟩
      intro b hb
      rcases (mem_insertByKey key x b ys).mp hb with hb | hb
      · rw [hb]; omega
      · exact hy.1 b hb

theorem pairwise_sortByKey {α} (key : α → Nat) (xs : List α) : (sortByKey key xs).Pairwise (fun a b => key a ≤ key b) := by
  unfold sortByKey
  suffices ∀ acc : List α, acc.Pairwise (fun a b => key a ≤ key b) →
      (xs.foldl (fun acc x => insertByKey key x acc) acc).Pairwise (fun a b => key a ≤ key b) from this [] List.Pairwise.nil
  induction xs with
  | nil => intro acc h; exact h
  | cons x xs ih => intro acc h; exact ih _ (pairwise_insertByKey key x acc h)

/-- `e'` covers `e` -/
def Cov (pref : κ → κ → Bool) (e' e : κ × List μ) : Prop := pref e'.1 e.1 = true ∧ ∀ x ∈ e.2, x ∈ e'.2

theorem covered_iff (pref : κ → κ → Bool) (up : List (κ × List μ)) (e : κ × List μ) :
    covered pref up e.1 e.2 = true ↔ ∃ u ∈ up, Cov pref u e := by
  unfold covered Cov
  simp only [List.any_eq_true, Bool.and_eq_true, superset_spec]

/-- what survives the compaction loop is not covered by anything of smaller depth that was offered -/
theorem foldl_compact_minimal (pref : κ → κ → Bool) (depth : κ → Nat) (hrefl : ∀ a, pref a a = true)
    (htrans : ∀ a b c, pref a b = true → pref b c = true → pref a c = true) :
    ∀ (l p up : List (κ × List μ)),
      (p ++ l).Pairwise (fun a b => depth a.1 ≤ depth b.1) →
      (∀ x ∈ p, ∃ u ∈ up, Cov pref u x) →
      ∀ e ∈ l.foldl (compactStep pref) up, e ∈ up ∨
        (e ∈ l ∧ ∀ e' ∈ p ++ l, depth e'.1 < depth e.1 → ¬ Cov pref e' e) := by
  intro l
  induction l with
  | nil => intro p up _ _ e he; exact Or.inl he
  | cons a l ih =>
    intro p up hs hdom e he
    simp only [List.foldl_cons] at he
    have hs' : ((p ++ [a]) ++ l).Pairwise (fun a b => depth a.1 ≤ depth b.1) := by simpa using hs
    have hup : ∀ x ∈ up, x ∈ compactStep pref up a := fun x hx => compactStep_mono pref up a x hx
    have hdom' : ∀ x ∈ p ++ [a], ∃ u ∈ compactStep pref up a, Cov pref u x := by
      intro x hx
      rcases List.mem_append.mp hx with hx | hx
      · obtain ⟨u, hu, hc⟩ := hdom x hx
        exact ⟨u, hup u hu, hc⟩
      · simp only [List.mem_singleton] at hx
        subst hx
        by_cases hc : covered pref up x.1 x.2 = true
        · obtain ⟨u, hu, hcu⟩ := (covered_iff pref up x).mp hc
          exact ⟨u, hup u hu, hcu⟩
        · refine ⟨x, ?_, hrefl _, fun y hy => hy⟩
          unfold compactStep
          simp only [hc]
          simp
    rcases ih (p ++ [a]) (compactStep pref up a) hs' hdom' e he with h1 | ⟨h1, h2⟩
    · -- e ∈ compactStep up a
      unfold compactStep at h1
      split at h1
      · exact Or.inl h1
      · rename_i hnc
        rcases List.mem_append.mp h1 with h1 | h1
        · exact Or.inl h1
        · simp only [List.mem_singleton] at h1
          subst h1
          right
          refine ⟨by simp, ?_⟩
          intro e' he' hlt hcov
          -- e' has smaller depth, so it stands before e in the sorted list: it is in p
          have hin : e' ∈ p := by
            rcases List.mem_append.mp he' with h | h
            · exact h
            · exfalso
              rcases List.mem_cons.mp h with h | h
              · rw [h] at hlt; omega
              · have hp := (List.pairwise_append.mp hs).2.1
                have := (List.pairwise_cons.mp hp).1 e' h
                omega
          obtain ⟨u, hu, hcu⟩ := hdom e' hin
          apply hnc
          apply (covered_iff pref up e).mpr
          exact ⟨u, hu, htrans _ _ _ hcu.1 hcov.1, fun x hx => hcu.2 x (hcov.2 x hx)⟩
    · right
      refine ⟨List.mem_cons_of_mem _ h1, ?_⟩
      intro e' he' hlt
      apply h2 e' _ hlt
      simpa using he'

/-- the prefix test is strict with respect to the sort key -/
def Strict (pref : κ → κ → Bool) (depth : κ → Nat) : Prop := ∀ a b, pref a b = true → a ≠ b → depth a < depth b

/-- **minimality**: an entry that survives compaction is not covered by an entry under another key -/
theorem compact_minimal (pref : κ → κ → Bool) (depth : κ → Nat) (ha : Admissible pref) (hst : Strict pref depth)
    (d : List (κ × List μ)) (e : κ × List μ) (he : e ∈ compact pref depth d) (e' : κ × List μ) (he' : e' ∈ d)
    (hne : e'.1 ≠ e.1) : ¬ Cov pref e' e := by
  intro hcov
  unfold compact at he
  have hs : (([] : List (κ × List μ)) ++ sortByKey (fun e : κ × List μ => depth e.1) d).Pairwise (fun a b : κ × List μ => depth a.1 ≤ depth b.1) := by
    simpa using pairwise_sortByKey (fun e : κ × List μ => depth e.1) d
  rcases foldl_compact_minimal pref depth ha.refl ha.trans _ [] [] hs (fun x hx => by cases hx) e he with h | ⟨_, h⟩
  · cases h
  · exact h e' (by simpa using (mem_sortByKey _ _ _).mpr he') (hst _ _ hcov.1 hne) hcov


/-! ### dictionaries with unique keys -/

def HasKey (d : List (κ × List μ)) (k : κ) : Prop := ∃ v, (k, v) ∈ d
def KeysNodup (d : List (κ × List μ)) : Prop := (d.map Prod.fst).Nodup

theorem hasKey_iff (d : List (κ × List μ)) (k : κ) : HasKey d k ↔ k ∈ d.map Prod.fst := by
  unfold HasKey
  simp only [List.mem_map]
  constructor
  · rintro ⟨v, hv⟩; exact ⟨(k, v), hv, rfl⟩
  · rintro ⟨⟨k', v⟩, hv, rfl⟩; exact ⟨v, hv⟩

theorem unique_of_nodup (d : List (κ × List μ)) (h : KeysNodup d) (k : κ) (v1 v2 : List μ)
    (h1 : (k, v1) ∈ d) (h2 : (k, v2) ∈ d) : v1 = v2 := by
  induction d with
  | nil => cases h1
  | cons e rest ih =>
    unfold KeysNodup at h
    simp only [List.map_cons, List.nodup_cons] at h
    rcases List.mem_cons.mp h1 with h1 | h1 <;> rcases List.mem_cons.mp h2 with h2 | h2
    · rw [← h1] at h2; injection h2 with _ a; exact a.symm
    · exfalso; apply h.1; rw [← h1]; exact List.mem_map.mpr ⟨(k, v2), h2, rfl⟩
    · exfalso; apply h.1; rw [← h2]; exact List.mem_map.mpr ⟨(k, v1), h1, rfl⟩
    · exact ih h.2 h1 h2

theorem keys_appendAt (d : List (κ × List μ)) (k0 : κ) (m : μ) :
    (appendAt d k0 m).map Prod.fst = if k0 ∈ d.map Prod.fst then d.map Prod.fst else d.map Prod.fst ++ [k0] := by
  induction d with
  | nil => simp [appendAt]
  | cons e rest ih =>
    obtain ⟨k', v'⟩ := e
    unfold appendAt
    by_cases hk : k' = k0
    · subst hk; simp
    · have hk' : ¬ k0 = k' := fun h => hk h.symm
      simp only [hk, if_false, List.map_cons, ih, List.mem_cons, hk', false_or]
      split <;> simp

theorem keysNodup_appendAt (d : List (κ × List μ)) (k0 : κ) (m : μ) (h : KeysNodup d) : KeysNodup (appendAt d k0 m) := by
  unfold KeysNodup at *
  rw [keys_appendAt]
  split
  · exact h
  · rename_i hn
    apply List.nodup_append.mpr
    refine ⟨h, by simp, ?_⟩
    intro a ha b hb
    simp only [List.mem_singleton] at hb
    rw [hb]; intro hab; rw [hab] at ha; exact hn ha

theorem hasKey_appendAt (d : List (κ × List μ)) (k0 : κ) (m : μ) (k : κ) :
    HasKey (appendAt d k0 m) k ↔ k = k0 ∨ HasKey d k := by
  rw [hasKey_iff, hasKey_iff, keys_appendAt]
  split
  · rename_i hin
    constructor
    · intro h; exact Or.inr h
    · rintro (h | h)
      · rw [h]; exact hin
      · exact h
  · simp only [List.mem_append, List.mem_singleton]
    constructor
    · rintro (h | h)
      · exact Or.inr h
      · exact Or.inl h
    · rintro (h | h)
      · exact Or.inr h
      · exact Or.inl h

theorem keysNodup_addAll (ks : List κ) (m : μ) (d : List (κ × List μ)) (h : KeysNodup d) : KeysNodup (addAll d ks m) := by
  unfold addAll
  induction ks generalizing d with
  | nil => exact h
  | cons k ks ih => exact ih _ (keysNodup_appendAt d k m h)

theorem hasKey_addAll (ks : List κ) (m : μ) (d : List (κ × List μ)) (k : κ) :
    HasKey (addAll d ks m) k ↔ k ∈ ks ∨ HasKey d k := by
  unfold addAll
  induction ks generalizing d with
  | nil => simp
  | cons k0 ks ih =>
    simp only [List.foldl_cons, List.mem_cons]
    rw [ih, hasKey_appendAt]
    constructor
    · rintro (h | h | h)
      · exact Or.inl (Or.inr h)
      · exact Or.inl (Or.inl h)
      · exact Or.inr h
    · rintro ((h | h) | h)
      · exact Or.inr (Or.inl h)
      · exact Or.inl h
      · exact Or.inr (Or.inr h)

theorem keysNodup_addModules (ms : List (μ × Summary κ)) (old : Idx κ μ) (h : KeysNodup old.oids) :
    KeysNodup (addModules old ms).oids := by
  unfold addModules
  induction ms generalizing old with
  | nil => exact h
  | cons e ms ih =>
    apply ih
    simp only [stepModule]
    exact keysNodup_addAll _ _ _ h

theorem hasKey_addModules (ms : List (μ × Summary κ)) (old : Idx κ μ) (k : κ) :
    HasKey (addModules old ms).oids k ↔ HasKey old.oids k ∨ ∃ e ∈ ms, k ∈ e.2.oids := by
  unfold addModules
  induction ms generalizing old with
  | nil => simp
  | cons e ms ih =>
    simp only [List.foldl_cons]
    rw [ih]
    simp only [stepModule, hasKey_addAll, List.mem_cons]
    constructor
    · rintro ((h | h) | ⟨e', he', hk⟩)
      · exact Or.inr ⟨e, Or.inl rfl, h⟩
      · exact Or.inl h
      · exact Or.inr ⟨e', Or.inr he', hk⟩
    · rintro (h | ⟨e', he' | he', hk⟩)
      · exact Or.inl (Or.inr h)
      · subst he'; exact Or.inl (Or.inl hk)
      · exact Or.inr ⟨e', he', hk⟩


theorem compactOids_eq (pref : κ → κ → Bool) (depth : κ → Nat) (d : List (κ × List μ)) :
    compactOids pref depth d = compact pref depth d := by
  unfold compactOids
  split
  · rename_i h
    have : d = [] := by simpa using h
    subst this; rfl
  · rfl

/-- entries of a dictionary with unique keys are determined by `Listed` -/
theorem mem_iff_listed (d : List (κ × List μ)) (h : KeysNodup d) (k : κ) (v : List μ) (hv : (k, v) ∈ d) (x : μ) :
    x ∈ v ↔ Listed d x k := by
  constructor
  · intro hx; exact ⟨v, hv, hx⟩
  · rintro ⟨w, hw, hx⟩
    rw [unique_of_nodup d h k v w hv hw]; exact hx

/-- **re-compaction**: if `D2` has unique keys, no key outside `D1`, lists nothing `D1` does not list, and agrees with
`D1` on every key that survived the compaction of `D1`, then compacting `D2` gives the same keys with the same modules. -/
theorem compact_reindex (pref : κ → κ → Bool) (depth : κ → Nat) (ha : Admissible pref) (hst : Strict pref depth)
    (D1 D2 : List (κ × List μ)) (u1 : KeysNodup D1) (u2 : KeysNodup D2)
    (hkeys : ∀ k, HasKey D2 k → HasKey D1 k)
    (hsub : ∀ k x, Listed D2 x k → Listed D1 x k)
    (hkept : ∀ k, HasKey (compact pref depth D1) k → HasKey D2 k ∧ ∀ x, Listed D1 x k → Listed D2 x k) :
    (∀ k, HasKey (compact pref depth D2) k ↔ HasKey (compact pref depth D1) k) ∧
    (∀ k x, Listed (compact pref depth D2) x k ↔ Listed (compact pref depth D1) x k) := by
  -- a key survives in D2 iff it survives in D1
  have fwd : ∀ k v2, (k, v2) ∈ compact pref depth D2 → ∃ v1, (k, v1) ∈ compact pref depth D1 := by
    intro k v2 h2
    have h2d : (k, v2) ∈ D2 := compact_sub pref depth D2 _ h2
    obtain ⟨v1, hv1⟩ := hkeys k ⟨v2, h2d⟩
    obtain ⟨p, pm, hp, hpk, hpm⟩ := compact_dominates pref depth ha.refl D1 k v1 hv1
    by_cases hpe : p = k
    · subst hpe; exact ⟨pm, hp⟩
    · exfalso
      have hpd1 : (p, pm) ∈ D1 := compact_sub pref depth D1 _ hp
      obtain ⟨⟨w, hw⟩, hl⟩ := hkept p ⟨pm, hp⟩
      apply compact_minimal pref depth ha hst D2 (k, v2) h2 (p, w) hw hpe
      refine ⟨hpk, ?_⟩
      intro x hx
      have h1 : Listed D1 x k := hsub k x ⟨v2, h2d, hx⟩
      have h2' : x ∈ v1 := (mem_iff_listed D1 u1 k v1 hv1 x).mpr h1
      have h3 : Listed D2 x p := hl x ⟨pm, hpd1, hpm x h2'⟩
      exact (mem_iff_listed D2 u2 p w hw x).mpr h3
  have bwd : ∀ k v1, (k, v1) ∈ compact pref depth D1 → ∃ v2, (k, v2) ∈ compact pref depth D2 := by
    intro k v1 h1
    have h1d : (k, v1) ∈ D1 := compact_sub pref depth D1 _ h1
    obtain ⟨⟨v2, hv2⟩, hl⟩ := hkept k ⟨v1, h1⟩
    obtain ⟨p, pm2, hp, hpk, hpm⟩ := compact_dominates pref depth ha.refl D2 k v2 hv2
    by_cases hpe : p = k
    · subst hpe; exact ⟨pm2, hp⟩
    · exfalso
      have hpd2 : (p, pm2) ∈ D2 := compact_sub pref depth D2 _ hp
      obtain ⟨w1, hw1⟩ := hkeys p ⟨pm2, hpd2⟩
      apply compact_minimal pref depth ha hst D1 (k, v1) h1 (p, w1) hw1 hpe
      refine ⟨hpk, ?_⟩
      intro x hx
      have a1 : Listed D2 x k := hl x ⟨v1, h1d, hx⟩
      have a2 : x ∈ v2 := (mem_iff_listed D2 u2 k v2 hv2 x).mpr a1
      have a3 : Listed D1 x p := hsub p x ⟨pm2, hpd2, hpm x a2⟩
      exact (mem_iff_listed D1 u1 p w1 hw1 x).mpr a3
  refine ⟨fun k => ⟨fun ⟨v, hv⟩ => fwd k v hv, fun ⟨v, hv⟩ => bwd k v hv⟩, ?_⟩
  intro k x
  constructor
  · rintro ⟨v2, hv2, hx⟩
    obtain ⟨v1, hv1⟩ := fwd k v2 hv2
    have h2d : (k, v2) ∈ D2 := compact_sub pref depth D2 _ hv2
    have h1d : (k, v1) ∈ D1 := compact_sub pref depth D1 _ hv1
    exact ⟨v1, hv1, (mem_iff_listed D1 u1 k v1 h1d x).mpr (hsub k x ⟨v2, h2d, hx⟩)⟩
  · rintro ⟨v1, hv1, hx⟩
    obtain ⟨v2, hv2⟩ := bwd k v1 hv1
    have h2d : (k, v2) ∈ D2 := compact_sub pref depth D2 _ hv2
    have h1d : (k, v1) ∈ D1 := compact_sub pref depth D1 _ hv1
    exact ⟨v2, hv2, (mem_iff_listed D2 u2 k v2 h2d x).mpr ((hkept k ⟨v1, hv1⟩).2 x ⟨v1, h1d, hx⟩)⟩

theorem keysNodup_compact (pref : κ → κ → Bool) (depth : κ → Nat) (d : List (κ × List μ)) (h : KeysNodup d) :
    ∀ k v1 v2, (k, v1) ∈ compact pref depth d → (k, v2) ∈ compact pref depth d → v1 = v2 :=
  fun k v1 v2 h1 h2 => unique_of_nodup d h k v1 v2 (compact_sub pref depth d _ h1) (compact_sub pref depth d _ h2)


theorem insertByKey_perm {α} (key : α → Nat) (x : α) (l : List α) : (insertByKey key x l).Perm (x :: l) := by
  induction l with
  | nil => simp [insertByKey]
  | cons y ys ih =>
    unfold insertByKey
    split
    · exact List.Perm.refl _
    · exact (List.Perm.cons y ih).trans (List.Perm.swap x y ys)

theorem sortByKey_perm {α} (key : α → Nat) (xs : List α) : (sortByKey key xs).Perm xs := by
  unfold sortByKey
  suffices ∀ acc : List α, (xs.foldl (fun acc x => insertByKey key x acc) acc).Perm (xs ++ acc) by simpa using this []
  induction xs with
  | nil => intro acc; simp
  | cons x xs ih =>
    intro acc
    simp only [List.foldl_cons]
    refine (ih _).trans ?_
    refine (List.Perm.append_left xs (insertByKey_perm key x acc)).trans ?_
    simpa using (List.perm_middle (a := x) (l₁ := xs) (l₂ := acc))

theorem foldl_compact_sublist (pref : κ → κ → Bool) (l up : List (κ × List μ)) :
    (l.foldl (compactStep pref) up).Sublist (up ++ l) := by
  induction l generalizing up with
  | nil => simp
  | cons e l ih =>
    simp only [List.foldl_cons]
    refine (ih (compactStep pref up e)).trans ?_
    have h1 : (compactStep pref up e).Sublist (up ++ [e]) := by
      unfold compactStep
      split
      · exact List.sublist_append_left up [e]
      · exact List.Sublist.refl _
    have := List.Sublist.append_right h1 l
    simpa using this

theorem keysNodup_compact_list (pref : κ → κ → Bool) (depth : κ → Nat) (d : List (κ × List μ)) (h : KeysNodup d) :
    KeysNodup (compact pref depth d) := by
  unfold KeysNodup compact at *
  have hsub := foldl_compact_sublist pref (sortByKey (fun e : κ × List μ => depth e.1) d) []
  simp only [List.nil_append] at hsub
  have hp : ((sortByKey (fun e : κ × List μ => depth e.1) d).map Prod.fst).Nodup :=
    ((sortByKey_perm _ d).map Prod.fst).nodup_iff.mpr h
  exact (hsub.map Prod.fst).nodup hp

/-- **C18_reindex_oids**: building the index again from the same compile results, on top of the index just built, leaves the
`oids` section with the same keys and the same modules under every key. -/
theorem C18_reindex_oids (pref : κ → κ → Bool) (depth : κ → Nat) (ha : Admissible pref) (hst : Strict pref depth)
    (old : Idx κ μ) (hu : KeysNodup old.oids) (ms : List (μ × Summary κ)) :
    (∀ k, HasKey (build pref depth (build pref depth old ms) ms).oids k ↔ HasKey (build pref depth old ms).oids k) ∧
    (∀ k x, Listed (build pref depth (build pref depth old ms) ms).oids x k ↔ Listed (build pref depth old ms).oids x k) := by
  simp only [build_oids, compactOids_eq]
  have u1 : KeysNodup (addModules old ms).oids := keysNodup_addModules ms old hu
  have uc : KeysNodup (compact pref depth (addModules old ms).oids) := keysNodup_compact_list pref depth _ u1
  -- the second build starts from the compacted dictionary
  have hstart : (build pref depth old ms).oids = compact pref depth (addModules old ms).oids := by
    rw [build_oids, compactOids_eq]
  have u2 : KeysNodup (addModules (build pref depth old ms) ms).oids := keysNodup_addModules ms _ (by rw [hstart]; exact uc)
  apply compact_reindex pref depth ha hst _ _ u1 u2
  · intro k hk
    rcases (hasKey_addModules ms _ k).mp hk with h | h
    · rw [hstart] at h
      obtain ⟨v, hv⟩ := h
      exact ⟨v, compact_sub pref depth _ _ hv⟩
    · exact (hasKey_addModules ms old k).mpr (Or.inr h)
  · intro k x hl
    rcases addModules_oids_inv ms _ x k hl with h | ⟨s, h1, h2⟩
    · rw [hstart] at h
      exact listed_compact_inv pref depth _ x k h
    · exact addModules_oids_own ms old x s h1 k h2
  · intro k hk
    constructor
    · exact (hasKey_addModules ms _ k).mpr (Or.inl (by rw [hstart]; exact hk))
    · intro x hx
      apply addModules_oids_mono ms _ x k
      rw [hstart]
      obtain ⟨v, hv⟩ := hk
      exact ⟨v, hv, (mem_iff_listed _ u1 k v (compact_sub pref depth _ _ hv) x).mpr hx⟩


/-! ### the other three sections -/

theorem addModules_identity_inv (ms : List (μ × Summary κ)) (old : Idx κ μ) (x : μ) (k : κ)
    (h : Listed (addModules old ms).identity x k) : Listed old.identity x k ∨ ∃ s, (x, s) ∈ ms ∧ s.identity = some k := by
  unfold addModules at h
  induction ms generalizing old with
  | nil => exact Or.inl h
  | cons e ms ih =>
    rcases ih (old := stepModule old e) h with h | ⟨s, h1, h2⟩
    · have : (stepModule old e).identity = addOpt old.identity e.2.identity e.1 := by simp [stepModule]
      rw [this] at h
      rcases listed_addOpt_inv _ _ h with h | ⟨h1, h2⟩
      · exact Or.inl h
      · exact Or.inr ⟨e.2, by rw [h1]; simp, h2⟩
    · exact Or.inr ⟨s, List.mem_cons_of_mem _ h1, h2⟩

theorem addModules_enterprise_inv (ms : List (μ × Summary κ)) (old : Idx κ μ) (x : μ) (k : κ)
    (h : Listed (addModules old ms).enterprise x k) : Listed old.enterprise x k ∨ ∃ s, (x, s) ∈ ms ∧ s.enterprise = some k := by
  unfold addModules at h
  induction ms generalizing old with
  | nil => exact Or.inl h
  | cons e ms ih =>
    rcases ih (old := stepModule old e) h with h | ⟨s, h1, h2⟩
    · have : (stepModule old e).enterprise = addOpt old.enterprise e.2.enterprise e.1 := by simp [stepModule]
      rw [this] at h
      rcases listed_addOpt_inv _ _ h with h | ⟨h1, h2⟩
      · exact Or.inl h
      · exact Or.inr ⟨e.2, by rw [h1]; simp, h2⟩
    · exact Or.inr ⟨s, List.mem_cons_of_mem _ h1, h2⟩

theorem addModules_compliance_inv (ms : List (μ × Summary κ)) (old : Idx κ μ) (x : μ) (k : κ)
    (h : Listed (addModules old ms).compliance x k) : Listed old.compliance x k ∨ ∃ s, (x, s) ∈ ms ∧ k ∈ s.compliance := by
  unfold addModules at h
  induction ms generalizing old with
  | nil => exact Or.inl h
  | cons e ms ih =>
    rcases ih (old := stepModule old e) h with h | ⟨s, h1, h2⟩
    · have : (stepModule old e).compliance = addAll old.compliance e.2.compliance e.1 := by simp [stepModule]
      rw [this] at h
      rcases listed_addAll_inv _ _ h with h | ⟨h1, h2⟩
      · exact Or.inl h
      · exact Or.inr ⟨e.2, by rw [h1]; simp, h2⟩
    · exact Or.inr ⟨s, List.mem_cons_of_mem _ h1, h2⟩

/-- **C18_reindex_sections**: re-indexing the same results lists no module anywhere new in the identity, enterprise and
compliance sections (and drops none: `C18_monotone`). -/
theorem C18_reindex_sections (pref : κ → κ → Bool) (depth : κ → Nat) (old : Idx κ μ) (ms : List (μ × Summary κ)) (x : μ) (k : κ) :
    (Listed (build pref depth (build pref depth old ms) ms).identity x k ↔ Listed (build pref depth old ms).identity x k) ∧
    (Listed (build pref depth (build pref depth old ms) ms).enterprise x k ↔ Listed (build pref depth old ms).enterprise x k) ∧
    (Listed (build pref depth (build pref depth old ms) ms).compliance x k ↔ Listed (build pref depth old ms).compliance x k) := by
  refine ⟨⟨?_, build_identity_mono pref depth ms _ x k⟩, ⟨?_, build_enterprise_mono pref depth ms _ x k⟩,
    ⟨?_, build_compliance_mono pref depth ms _ x k⟩⟩
  · intro h
    rw [build_identity] at h
    rcases addModules_identity_inv ms _ x k h with h | ⟨s, h1, h2⟩
    · exact h
    · exact (C18_identity_sections pref depth old ms x s h1).1 k h2
  · intro h
    rw [build_enterprise] at h
    rcases addModules_enterprise_inv ms _ x k h with h | ⟨s, h1, h2⟩
    · exact h
    · exact (C18_identity_sections pref depth old ms x s h1).2.1 k h2
  · intro h
    rw [build_compliance] at h
    rcases addModules_compliance_inv ms _ x k h with h | ⟨s, h1, h2⟩
    · exact h
    · exact (C18_identity_sections pref depth old ms x s h1).2.2 k h2

/-! ### the code's prefix test on strings -/

theorem startsWith_split : ∀ (s t : Str), startsWith s t = true → ∃ r, s = t ++ r
  | s, [], _ => ⟨s, rfl⟩
  | [], _ :: _, h => by simp [startsWith] at h
  | c :: s, d :: t, h => by
    simp only [startsWith, Bool.and_eq_true, beq_iff_eq] at h
    obtain ⟨r, hr⟩ := startsWith_split s t h.2
    exact ⟨r, by rw [h.1, hr]; rfl⟩

theorem dotPrefix_strict : Strict dotPrefix dotCount := by
  intro a b hp hne
  unfold dotPrefix at hp
  rcases Bool.or_eq_true_iff.mp hp with h | h
  · exact absurd (by simpa using h : b = a).symm hne
  · obtain ⟨r, hr⟩ := startsWith_split b (a ++ ['.']) h
    unfold dotCount
    rw [hr]
    simp only [List.count_append, List.count_singleton_self]
    omega

/-- **C18_reindex_same** (strings, as in the code): after `genIndex` has been run on some compile results, running it again on
the same results on top of its own output gives an index with the same keys and the same modules under every key, in all four
sections. -/
theorem C18_reindex_same (old : Idx Str Str) (hu : KeysNodup old.oids) (ms : List (Str × Summary Str)) :
    (∀ k, HasKey (buildStr (buildStr old ms) ms).oids k ↔ HasKey (buildStr old ms).oids k) ∧
    (∀ k x, Listed (buildStr (buildStr old ms) ms).oids x k ↔ Listed (buildStr old ms).oids x k) ∧
    (∀ k x, (Listed (buildStr (buildStr old ms) ms).identity x k ↔ Listed (buildStr old ms).identity x k) ∧
      (Listed (buildStr (buildStr old ms) ms).enterprise x k ↔ Listed (buildStr old ms).enterprise x k) ∧
      (Listed (buildStr (buildStr old ms) ms).compliance x k ↔ Listed (buildStr old ms).compliance x k)) := by
  obtain ⟨h1, h2⟩ := C18_reindex_oids dotPrefix dotCount ⟨dotPrefix_refl, dotPrefix_trans⟩ dotPrefix_strict old hu ms
  exact ⟨h1, h2, fun k x => C18_reindex_sections dotPrefix dotCount old ms x k⟩

example : KeysNodup (Idx.empty : Idx Str Str).oids := by simp [KeysNodup, Idx.empty]

end Pysmi.Index
