import Pysmi.Props.C10
import Pysmi.Props.C07Accounted
/-!
# C10 — run level: an up-to-date module is untouched and never written

`C10_needStep` speaks about one step.  Here the whole run: a module that was parsed, has no failure recorded against its name
and that some configured searcher reports up to date ends with status `untouched` and is never handed to the writer -
the fact is established when the need-phase reaches the module (`Waiting` → `Settled`) and kept by every later step of every
phase (code generation, borrowing, the gate, storing), for every other module, answer and option.
-/
namespace Pysmi.Compile
open Pysmi

/-! ### run level: a module a searcher reports up to date is untouched, never generated into `built`, never written -/

/-- `n` is settled as untouched: out of every working dictionary, status `untouched` -/
structure Settled (n : Name) (s : St) : Prop where
  parsed : s.parsed.get? n = none
  built : s.built.get? n = none
  borrowedM : s.borrowedM.get? n = none
  failed : s.failed.contains n = false
  status : s.processed.get? n = some { st := .untouched }
  noPut : ∀ x ∈ s.trace, ∀ d dr, x ≠ .put n d dr

theorem get?_del_self_none {ν} (d : AList Name ν) (k : Name) (h : d.keys.Nodup) : (d.del k).get? k = none := by
  have := contains_del_self d k h
  simpa [AList.contains] using this

theorem contains_false_set_ne {ν} (d : AList Name ν) (k n : Name) (v : ν) (hk : k ≠ n) (h : d.contains n = false) :
    (d.set k v).contains n = false := by
  simp [AList.contains, AList.get?_set_ne d k n v hk] at h ⊢
  exact h

theorem contains_false_del {ν} (d : AList Name ν) (k n : Name) (h : d.contains n = false) : (d.del k).contains n = false := by
  by_cases hk : k = n
  · subst hk
    cases hc : (d.del k).contains k with
    | false => rfl
    | true =>
      have : d.contains k = true := by
        have hm : k ∈ (d.del k).keys := by
          apply Classical.byContradiction; intro hne
          have := (AList.get?_eq_none_iff _ _).mpr hne
          simp [AList.contains, this] at hc
        have hm2 := AList.mem_keys_del d k k hm
        apply Classical.byContradiction; intro hcf
        have : d.get? k = none := by simpa [AList.contains] using hcf
        exact ((AList.get?_eq_none_iff _ _).mp this) hm2
      rw [this] at h; cases h
  · rw [contains_del_iff _ _ _ hk]; exact h

end Pysmi.Compile

namespace Pysmi.Compile
open Pysmi

theorem settled_needStep (c : Cfg) (o : Opts) (s : St) (k n : Name) (h : Settled n s) : Settled n (needStep c o s k) := by
  by_cases hk : k = n
  · subst hk
    unfold needStep
    rw [h.parsed]
    exact h
  · unfold needStep
    split
    · exact h
    · simp only
      have tr : ∀ (t : List Call), (∀ x ∈ t, ∃ i m mt r, x = Call.search i m mt r) → ∀ x ∈ s.trace ++ t, ∀ d dr, x ≠ .put n d dr := by
        intro t ht x hx d dr
        rcases List.mem_append.mp hx with hx | hx
        · exact h.noPut x hx d dr
        · obtain ⟨i, m, mt, r, e⟩ := ht x hx
          rw [e]; intro hh; cases hh
      have hsearch : ∀ x ∈ (searchLoop k (by assumption) o.rebuild c.searchers 0).2, ∃ i m mt r, x = Call.search i m mt r := by
        intro x hx
        have := C10_searchLoop_calls k (by assumption) o.rebuild c.searchers 0
        rw [this] at hx
        obtain ⟨j, _, e⟩ := List.mem_map.mp hx
        exact ⟨_, _, _, _, e.symm⟩
      split
      · exact ⟨by simp only; rw [AList.get?_del_ne _ _ _ hk]; exact h.parsed, h.built, h.borrowedM, h.failed,
          by simp only; rw [AList.get?_set_ne _ _ _ _ hk]; exact h.status, tr _ hsearch⟩
      · split
        · exact ⟨by simp only; rw [AList.get?_del_ne _ _ _ hk]; exact h.parsed, h.built, h.borrowedM, h.failed,
            by simp only; rw [AList.get?_set_ne _ _ _ _ hk]; exact h.status, tr _ hsearch⟩
        · exact ⟨h.parsed, h.built, h.borrowedM, h.failed, h.status, tr _ hsearch⟩

end Pysmi.Compile

namespace Pysmi.Compile
open Pysmi

theorem noPut_snoc {n : Name} {t : List Call} (c : Call) (hc : ∀ d dr, c ≠ .put n d dr)
    (h : ∀ x ∈ t, ∀ d dr, x ≠ .put n d dr) : ∀ x ∈ t ++ [c], ∀ d dr, x ≠ .put n d dr := by
  intro x hx d dr
  rcases List.mem_append.mp hx with hx | hx
  · exact h x hx d dr
  · simp only [List.mem_singleton] at hx; subst hx; exact hc d dr

theorem settled_genStep (c : Cfg) (o : Opts) (s : St) (k n : Name) (h : Settled n s) : Settled n (genStep c o s k) := by
  by_cases hk : k = n
  · subst hk
    unfold genStep
    rw [h.parsed]
    exact h
  · unfold genStep
    split
    · exact h
    · rename_i alias mtime tree _
      have hp := noPut_snoc (n := n) (Call.gen tree o.genTexts) (by intro d dr hh; cases hh) h.noPut
      simp only [St.log]
      split
      · exact ⟨by simp only; rw [AList.get?_del_ne _ _ _ hk]; exact h.parsed,
          by simp only; rw [AList.get?_set_ne _ _ _ _ hk]; exact h.built, h.borrowedM, h.failed, h.status, hp⟩
      · exact ⟨by simp only; rw [AList.get?_del_ne _ _ _ hk]; exact h.parsed, h.built, h.borrowedM,
          contains_false_set_ne _ _ _ _ hk h.failed,
          by simp only; rw [AList.get?_set_ne _ _ _ _ hk]; exact h.status, hp⟩

theorem borrowLoop_noPut' (k : Name) (g : Bool) (bs : List (Name → Bool → BorrowAns)) (i : Nat) (n : Name) :
    ∀ x ∈ (borrowLoop k g bs i).2, ∀ d dr, x ≠ Call.put n d dr := by
  intro x hx d dr hh
  have := borrowLoop_noPut k g bs i x hx
  rw [hh] at this
  cases this

theorem searchLoop_noPut' (k : Name) (mt : Int) (r : Bool) (srs : List (Name → Int → Bool → SearchAns)) (i : Nat) (n : Name) :
    ∀ x ∈ (searchLoop k mt r srs i).2, ∀ d dr, x ≠ Call.put n d dr := by
  intro x hx d dr hh
  have := searchLoop_noPut k mt r srs i x hx
  rw [hh] at this
  cases this

theorem noPut_append {n : Name} {t u : List Call} (h : ∀ x ∈ t, ∀ d dr, x ≠ .put n d dr) (hu : ∀ x ∈ u, ∀ d dr, x ≠ .put n d dr) :
    ∀ x ∈ t ++ u, ∀ d dr, x ≠ .put n d dr := by
  intro x hx d dr
  rcases List.mem_append.mp hx with hx | hx
  · exact h x hx d dr
  · exact hu x hx d dr

theorem settled_borrowStep (c : Cfg) (req : List Name) (o : Opts) (s : St) (k n : Name) (hk : k ≠ n) (h : Settled n s) :
    Settled n (borrowStep c req o s k) := by
  unfold borrowStep
  split
  · exact h
  · simp only
    have hp := noPut_append h.noPut (borrowLoop_noPut' k o.genTexts c.borrowers 0 n)
    split
    · exact ⟨h.parsed, h.built, by simp only; rw [AList.get?_set_ne _ _ _ _ hk]; exact h.borrowedM,
        contains_false_del _ _ _ h.failed, h.status, hp⟩
    · exact ⟨h.parsed, h.built, h.borrowedM, h.failed, h.status, hp⟩

theorem settled_needBorrowStep (c : Cfg) (req : List Name) (o : Opts) (s : St) (k n : Name) (h : Settled n s) :
    Settled n (needBorrowStep c req o s k) := by
  by_cases hk : k = n
  · subst hk
    unfold needBorrowStep
    rw [h.borrowedM]
    exact h
  · unfold needBorrowStep
    split
    · exact h
    · rename_i alias mtime data _
      simp only
      have hp := noPut_append h.noPut (searchLoop_noPut' k mtime o.rebuild c.searchers 0 n)
      split
      · exact ⟨h.parsed, h.built, by simp only; rw [AList.get?_del_ne _ _ _ hk]; exact h.borrowedM, h.failed,
          by simp only; rw [AList.get?_set_ne _ _ _ _ hk]; exact h.status, hp⟩
      · split
        · exact ⟨h.parsed, h.built, by simp only; rw [AList.get?_del_ne _ _ _ hk]; exact h.borrowedM, h.failed,
            by simp only; rw [AList.get?_set_ne _ _ _ _ hk]; exact h.status, hp⟩
        · exact ⟨h.parsed, by simp only; rw [AList.get?_set_ne _ _ _ _ hk]; exact h.built,
            by simp only; rw [AList.get?_del_ne _ _ _ hk]; exact h.borrowedM, h.failed,
            by simp only; rw [AList.get?_set_ne _ _ _ _ hk]; exact h.status, hp⟩

end Pysmi.Compile

namespace Pysmi.Compile
open Pysmi

theorem settled_storeStep (c : Cfg) (o : Opts) (s : St) (k n : Name) (h : Settled n s) : Settled n (storeStep c o s k) := by
  by_cases hk : k = n
  · subst hk
    unfold storeStep
    rw [h.built]
    exact h
  · unfold storeStep
    cases hg : s.built.get? k with
    | none => exact h
    | some r =>
      obtain ⟨alias, mtime, data⟩ := r
      simp only
      have hput : ∀ d dr, Call.put k data o.dryRun ≠ Call.put n d dr := by
        intro d dr hh; injection hh with h1; exact hk h1
      have hp := noPut_snoc (n := n) (Call.put k data o.dryRun) hput h.noPut
      have hb : (s.built.del k).get? n = none := by rw [AList.get?_del_ne _ _ _ hk]; exact h.built
      have hs : ∀ e, (s.processed.set k e).get? n = some { st := .untouched } := by
        intro e; rw [AList.get?_set_ne _ _ _ _ hk]; exact h.status
      cases o.writeMibs <;> cases c.put k data o.dryRun <;> cases hc : s.processed.contains k <;>
        simp only [St.log, hc, if_true, if_false, Bool.false_eq_true] <;>
        first
        | exact ⟨h.parsed, hb, h.borrowedM, h.failed, h.status, h.noPut⟩
        | exact ⟨h.parsed, hb, h.borrowedM, h.failed, hs _, h.noPut⟩
        | exact ⟨h.parsed, hb, h.borrowedM, h.failed, h.status, hp⟩
        | exact ⟨h.parsed, hb, h.borrowedM, h.failed, hs _, hp⟩
        | exact ⟨h.parsed, hb, h.borrowedM, contains_false_set_ne _ _ _ _ hk h.failed, hs _, hp⟩
        | exact ⟨h.parsed, hb, h.borrowedM, contains_false_set_ne _ _ _ _ hk h.failed, hs _, h.noPut⟩

theorem settled_markUnprocessed (s : St) (n : Name) (h : Settled n s) : Settled n (markUnprocessed s) := by
  have hn : n ∉ s.built.keys := (AList.get?_eq_none_iff _ _).mp h.built
  have : ∀ (ks : List Name) (p : AList Name Entry), n ∉ ks → p.get? n = some { st := .untouched } →
      (ks.foldl (fun p k => p.set k { st := .unprocessed }) p).get? n = some { st := .untouched } := by
    intro ks
    induction ks with
    | nil => intro p _ hp; exact hp
    | cons k ks ih =>
      intro p hk hp
      simp only [List.foldl_cons]
      apply ih _ (fun hm => hk (List.mem_cons_of_mem _ hm))
      rw [AList.get?_set_ne _ _ _ _ (fun e => hk (by rw [e]; simp))]
      exact hp
  unfold markUnprocessed
  exact ⟨h.parsed, h.built, h.borrowedM, h.failed, this _ _ hn h.status, h.noPut⟩

theorem foldl_settled {n : Name} (f : St → Name → St) (hf : ∀ s k, Settled n s → Settled n (f s k)) (l : List Name) (s : St)
    (h : Settled n s) : Settled n (l.foldl f s) := by
  induction l generalizing s with
  | nil => exact h
  | cons a l ih => exact ih _ (hf s a h)

/-- the borrowing loop runs over the names that are failed when it starts; `n` is not among them -/
theorem settled_phaseBorrow (c : Cfg) (req : List Name) (o : Opts) (s : St) (n : Name) (h : Settled n s) :
    Settled n (phaseBorrow c req o s) := by
  unfold phaseBorrow
  have hn : n ∉ s.failed.keys := by
    have := h.failed
    apply (AList.get?_eq_none_iff _ _).mp
    simpa [AList.contains] using this
  have : ∀ (l : List Name) (s : St), n ∉ l → Settled n s → Settled n (l.foldl (borrowStep c req o) s) := by
    intro l
    induction l with
    | nil => intro s _ h; exact h
    | cons k l ih =>
      intro s hk h
      simp only [List.foldl_cons]
      exact ih _ (fun hm => hk (List.mem_cons_of_mem _ hm))
        (settled_borrowStep c req o s k n (fun e => hk (by rw [e]; simp)) h)
  exact this _ _ hn h

/-- where `n` stands when the need-phase reaches it -/
structure Waiting (n alias : Name) (mtime : Int) (tree : Nat) (s : St) : Prop where
  parsed : s.parsed.get? n = some (alias, mtime, tree)
  built : s.built.get? n = none
  borrowedM : s.borrowedM.get? n = none
  failed : s.failed.contains n = false
  noPut : ∀ x ∈ s.trace, ∀ d dr, x ≠ .put n d dr
  nodup : s.parsed.keys.Nodup

theorem waiting_needStep_ne (c : Cfg) (o : Opts) (s : St) (k n alias : Name) (mtime : Int) (tree : Nat) (hk : k ≠ n)
    (h : Waiting n alias mtime tree s) : Waiting n alias mtime tree (needStep c o s k) := by
  unfold needStep
  split
  · exact h
  · rename_i a mt t _
    simp only
    have hp := noPut_append h.noPut (searchLoop_noPut' k mt o.rebuild c.searchers 0 n)
    split
    · exact ⟨by simp only; rw [AList.get?_del_ne _ _ _ hk]; exact h.parsed, h.built, h.borrowedM, h.failed, hp,
        AList.nodup_keys_del _ _ h.nodup⟩
    · split
      · exact ⟨by simp only; rw [AList.get?_del_ne _ _ _ hk]; exact h.parsed, h.built, h.borrowedM, h.failed, hp,
          AList.nodup_keys_del _ _ h.nodup⟩
      · exact ⟨h.parsed, h.built, h.borrowedM, h.failed, hp, h.nodup⟩

theorem settled_needStep_self (c : Cfg) (o : Opts) (s : St) (n alias : Name) (mtime : Int) (tree : Nat)
    (h : Waiting n alias mtime tree s) (hfresh : ∃ sr ∈ c.searchers, sr n mtime o.rebuild = .notModified) :
    Settled n (needStep c o s n) := by
  have hf : (searchLoop n mtime o.rebuild c.searchers 0).1 = true := (C10_searchLoop_fresh n mtime o.rebuild c.searchers 0).mpr hfresh
  unfold needStep
  rw [h.parsed]
  simp only [hf, if_true]
  exact ⟨get?_del_self_none _ _ h.nodup, h.built, h.borrowedM, h.failed, AList.get?_set_eq _ _ _,
    noPut_append h.noPut (searchLoop_noPut' n mtime o.rebuild c.searchers 0 n)⟩

theorem settled_phaseNeed (c : Cfg) (o : Opts) (n alias : Name) (mtime : Int) (tree : Nat)
    (hfresh : ∃ sr ∈ c.searchers, sr n mtime o.rebuild = .notModified) :
    ∀ (l : List Name) (s : St), (Settled n s ∨ (Waiting n alias mtime tree s ∧ n ∈ l)) → Settled n (l.foldl (needStep c o) s) := by
  intro l
  induction l with
  | nil =>
    intro s h
    rcases h with h | ⟨_, h⟩
    · exact h
    · cases h
  | cons k l ih =>
    intro s h
    simp only [List.foldl_cons]
    apply ih
    rcases h with h | ⟨h, hm⟩
    · exact Or.inl (settled_needStep c o s k n h)
    · by_cases hk : k = n
      · subst hk; exact Or.inl (settled_needStep_self c o s k alias mtime tree h hfresh)
      · right
        refine ⟨waiting_needStep_ne c o s k n alias mtime tree hk h, ?_⟩
        rcases List.mem_cons.mp hm with e | e
        · exact absurd e.symm hk
        · exact e

end Pysmi.Compile

namespace Pysmi.Compile
open Pysmi

/-- discovery neither builds nor borrows, and keeps one record per parsed module -/
structure DI (s : St) : Prop where
  built : s.built = []
  borrowedM : s.borrowedM = []
  nodup : s.parsed.keys.Nodup

theorem di_log {s : St} (k : Call) (h : DI s) : DI (s.log k) := ⟨h.built, h.borrowedM, h.nodup⟩
theorem di_failSource {s : St} (m : Name) (e : Err) (h : DI s) : DI (failSource s m e) := ⟨h.built, h.borrowedM, h.nodup⟩
theorem di_clearStale {s : St} (k : Name) (h : DI s) : DI (clearStale s k) := by
  unfold clearStale; split
  · exact ⟨h.built, h.borrowedM, h.nodup⟩
  · exact h

theorem di_registerTree {s : St} (req : List Name) (m alias : Name) (mtime : Int) (tree : Nat) (name : Name) (imports : List Name)
    (h : DI s) : DI (registerTree req s m alias mtime tree name imports) := by
  unfold registerTree
  have h1 : DI ({ s with parsed := s.parsed.set name (alias, mtime, tree) } : St) :=
    ⟨h.built, h.borrowedM, AList.nodup_keys_set _ _ _ h.nodup⟩
  have h2 := di_clearStale name (di_clearStale m h1)
  simp only
  split
  · exact ⟨h2.built, h2.borrowedM, h2.nodup⟩
  · exact ⟨h2.built, h2.borrowedM, h2.nodup⟩

theorem di_symTrees (c : Cfg) (req : List Name) (m alias : Name) (mtime : Int) :
    ∀ (ts : List Nat) (s : St), DI s → DI (symTrees c req m alias mtime ts s).1 := by
  intro ts
  induction ts with
  | nil => intro s h; exact h
  | cons t ts ih =>
    intro s h
    unfold symTrees
    simp only
    split
    · exact di_log _ h
    · exact ih _ (di_registerTree req m alias mtime t _ _ (di_log _ h))

theorem di_trySources (c : Cfg) (req : List Name) (m : Name) :
    ∀ (srcs : List (Name → SrcAns)) (i : Nat) (s : St), DI s → DI (trySources c req m srcs i s) := by
  intro srcs
  induction srcs with
  | nil =>
    intro i s h
    unfold trySources
    simp only
    split <;> split <;> exact ⟨h.built, h.borrowedM, h.nodup⟩
  | cons src rest ih =>
    intro i s h
    unfold trySources
    simp only
    have h1 := di_log (.get i m) h
    split
    · exact ih _ _ h1
    · exact ih _ _ (di_failSource _ _ h1)
    · rename_i alias mtime text _
      have h2 := di_log (.parse text) h1
      split
      · exact ih _ _ (di_failSource _ _ h2)
      · exact ih _ _ (di_failSource _ _ h2)
      · rename_i ts _ _
        have h3 := di_symTrees c req m alias mtime ts _ h2
        split
        · rename_i hst
          rw [hst] at h3
          exact ih _ _ (di_failSource _ _ h3)
        · rename_i hst
          rw [hst] at h3
          exact h3

theorem di_discover (c : Cfg) (req : List Name) (fuel : Nat) (s s' : St) (h : DI s) (hd : discover c req fuel s = some s') : DI s' := by
  induction fuel generalizing s with
  | zero => simp [discover] at hd
  | succ fuel ih =>
    unfold discover at hd
    split at hd
    · injection hd with hd; rw [← hd]; exact h
    · rename_i m q _
      refine ih _ ?_ hd
      unfold discoverStep
      split
      · exact ⟨h.built, h.borrowedM, h.nodup⟩
      · split
        · exact ⟨h.built, h.borrowedM, h.nodup⟩
        · split
          · exact ⟨h.built, h.borrowedM, h.nodup⟩
          · exact di_trySources c req m _ _ _ ⟨h.built, h.borrowedM, h.nodup⟩

/-- **C10_fresh_untouched**: a module that was parsed, has no failure recorded against its name, and that some searcher
reports up to date (answers are asked with the source's modification time and the rebuild option) ends `untouched`, and
the writer is never called for it - whatever the rest of the request, the other searchers' answers, borrowers and options. -/
theorem C10_fresh_untouched (c : Cfg) (req : List Name) (o : Opts) (fuel : Nat) (s0 : St) (out : Out)
    (hd : discover c req fuel { queue := req } = some s0) (hr : run c req o fuel = some out)
    (n alias : Name) (mtime : Int) (tree : Nat) (hp : s0.parsed.get? n = some (alias, mtime, tree))
    (hnf : s0.failed.contains n = false)
    (hfresh : ∃ sr ∈ c.searchers, sr n mtime o.rebuild = .notModified) :
    out.processed.get? n = some { st := .untouched } ∧ ∀ x ∈ out.trace, ∀ d dr, x ≠ .put n d dr := by
  have hdi := di_discover c req fuel _ s0 ⟨rfl, rfl, by simp [AList.keys]⟩ hd
  have hinv := inv_discover c req fuel _ s0 (inv_init req) hd
  have hw : Waiting n alias mtime tree s0 :=
    ⟨hp, by rw [hdi.built]; rfl, by rw [hdi.borrowedM]; rfl, hnf,
      (fun x hx d dr hh => by
        have h' := hinv.noPut x hx
        rw [hh] at h'
        exact Bool.noConfusion h'), hdi.nodup⟩
  have hmem : n ∈ s0.parsed.keys := by
    apply Classical.byContradiction; intro hne
    have := (AList.get?_eq_none_iff _ _).mpr hne
    rw [this] at hp; cases hp
  have h1 : Settled n (phaseNeed c o s0) := by
    unfold phaseNeed
    exact settled_phaseNeed c o n alias mtime tree hfresh _ _ (Or.inr ⟨hw, hmem⟩)
  have h2 : Settled n (phaseGen c o (phaseNeed c o s0)) := by
    unfold phaseGen
    exact foldl_settled _ (fun s k => settled_genStep c o s k n) _ _ h1
  have h3 := settled_phaseBorrow c req o _ n h2
  have h4 : Settled n (phaseNeedBorrow c req o (phaseBorrow c req o (phaseGen c o (phaseNeed c o s0)))) := by
    unfold phaseNeedBorrow
    exact foldl_settled _ (fun s k => settled_needBorrowStep c req o s k n) _ _ h3
  unfold run beforeGate at hr
  rw [hd] at hr
  simp only [Option.map] at hr
  injection hr with hr
  rw [← hr]
  have h5 : Settled n (afterGate c o (phaseNeedBorrow c req o (phaseBorrow c req o (phaseGen c o (phaseNeed c o s0))))) := by
    unfold afterGate
    split
    · exact settled_markUnprocessed _ n h4
    · unfold phaseStore
      exact foldl_settled _ (fun s k => settled_storeStep c o s k n) _ _ h4
  exact ⟨h5.status, h5.noPut⟩

end Pysmi.Compile

namespace Pysmi.Compile
open Pysmi

/-- non-vacuity: two modules, a searcher that knows module 2 is up to date -/
def freshCfg : Cfg where
  sources := [fun n => if n = 1 then .ok 1 5 10 else if n = 2 then .ok 2 7 20 else .notFound]
  parse := fun t => .trees [t]
  sym := fun t => if t = 10 then .ok 1 [2] else if t = 20 then .ok 2 [] else .error
  gen := fun t _ => .ok (t + 1)
  searchers := [fun n mt _ => if n = 2 ∧ mt = 7 then .notModified else .notFound]
  borrowers := []
  put := fun _ _ _ => true

example : ((run freshCfg [1] {} 10).map fun out => (out.processed.map fun e => (e.1, e.2.st), out.trace.filter Call.isPut)) =
    some ([(2, .untouched), (1, .compiled)], [.put 1 11 false]) := by decide +kernel

end Pysmi.Compile
