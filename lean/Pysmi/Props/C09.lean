import Pysmi.Lemmas.Store
/-!
# C09 — nothing is written when any module fails, unless errors are ignored

Full statement: for every configuration of component outcomes, every import graph and every
option set, if after borrowing some module is still failed and `ignoreErrors` is off, the
writer is never called and every built module is reported `unprocessed`; with
`ignoreErrors` (or no failure) every built module is handed to the writer exactly once.

All theorems quantify over *every* `Cfg` (arbitrary functions for every component), every
request list, option set and fuel.
-/
namespace Pysmi.Compile
open Pysmi

theorem run_eq (c : Cfg) (req : List Name) (o : Opts) (fuel : Nat) (s : St)
    (hs : beforeGate c req o fuel = some s) :
    run c req o fuel = some ⟨(afterGate c o s).processed, (afterGate c o s).trace⟩ := by
  simp [run, hs]

/-- Phases 1–5 never call the writer. -/
theorem C09_no_put_before_gate (c : Cfg) (req : List Name) (o : Opts) (fuel : Nat) (s : St)
    (h : beforeGate c req o fuel = some s) : ∀ x ∈ s.trace, x.isPut = false :=
  (inv_beforeGate c req o fuel s h).noPut

/-- **C09_gate**: a failure that survives borrowing, with errors not ignored ⇒ no writer call at
all and every built module `unprocessed`. -/
theorem C09_gate (c : Cfg) (req : List Name) (o : Opts) (fuel : Nat) (s : St)
    (hs : beforeGate c req o fuel = some s) (hf : s.failed.isEmpty = false)
    (hi : o.ignoreErrors = false) :
    ∃ out, run c req o fuel = some out ∧ (∀ x ∈ out.trace, x.isPut = false) ∧
      ∀ n ∈ s.built.keys, out.processed.get? n = some { st := .unprocessed } := by
  refine ⟨_, run_eq c req o fuel s hs, ?_, ?_⟩
  · simp only [afterGate, hf, hi]
    simp only [Bool.false_eq_true, not_false_eq_true, and_self, if_true]
    exact C09_no_put_before_gate c req o fuel s hs
  · intro n hn
    simp only [afterGate, hf, hi]
    simp only [Bool.false_eq_true, not_false_eq_true, and_self, if_true]
    exact markUnprocessed_get s n hn

/-- **C09_ignore (writer calls)**: when the gate is passed (errors ignored, or nothing failed), the
writer calls of the whole run are exactly one `put` per built module, in order, carrying that
module's text (none at all with `writeMibs = False`). -/
theorem C09_store_calls (c : Cfg) (req : List Name) (o : Opts) (fuel : Nat) (s : St)
    (hs : beforeGate c req o fuel = some s) (hpass : s.failed.isEmpty = true ∨ o.ignoreErrors = true) :
    ∃ out, run c req o fuel = some out ∧ out.trace = s.trace ++ putCalls o s.built := by
  refine ⟨_, run_eq c req o fuel s hs, ?_⟩
  have : afterGate c o s = phaseStore c o s := by
    unfold afterGate
    rcases hpass with h | h <;> simp [h]
  simp only [this]
  exact phaseStore_trace c o s.built s rfl

/-- **C09_ignore (statuses)**: when the gate is passed every built module ends with the status the
store step gives it: `failed` (carrying the writer error) if the writer raised, else its earlier
status if it had one (`borrowed`), else `compiled`. -/
theorem C09_store_status (c : Cfg) (req : List Name) (o : Opts) (fuel : Nat) (s : St)
    (hs : beforeGate c req o fuel = some s) (hpass : s.failed.isEmpty = true ∨ o.ignoreErrors = true)
    (n alias : Name) (mtime : Int) (data : Nat) (hm : (n, alias, mtime, data) ∈ s.built) :
    ∃ out, run c req o fuel = some out ∧
      out.processed.get? n = storedEntry c o (s.processed.get? n) n alias data := by
  refine ⟨_, run_eq c req o fuel s hs, ?_⟩
  have : afterGate c o s = phaseStore c o s := by
    unfold afterGate
    rcases hpass with h | h <;> simp [h]
  simp only [this]
  exact phaseStore_status c o s.built s rfl (inv_beforeGate c req o fuel s hs).builtNodup n alias mtime data hm

/-! ### non-vacuity: a concrete run that is stopped at the gate, and one that passes it -/

/-- two modules 0 → 1, module 1 missing everywhere -/
def exCfg : Cfg :=
  { sources := [fun n => if n = 0 then .ok 0 10 1 else .notFound]
    parse := fun _ => .trees [1]
    sym := fun _ => .ok 0 [1]
    gen := fun t _ => .ok (1000 + t)
    searchers := [], borrowers := [], put := fun _ _ _ => true }

example : ((beforeGate exCfg [0] {} 10).map (fun s => (s.failed.keys, s.built.keys))) = some ([1], [0]) := by
  decide +kernel
example : ((run exCfg [0] {} 10).map (fun out => out.processed.map (fun e => (e.1, e.2.st)))) =
    some [(1, .missing), (0, .unprocessed)] := by decide +kernel
example : ((run exCfg [0] { ignoreErrors := true } 10).map (fun out => (out.processed.map (fun e => (e.1, e.2.st)),
    out.trace.filter Call.isPut))) = some ([(1, .missing), (0, .compiled)], [.put 0 1001 false]) := by
  decide +kernel

end Pysmi.Compile
