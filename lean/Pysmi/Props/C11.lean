import Pysmi.Props.C02LR
/-!
# C11 — malformed input is rejected with a located package error, never accepted

* `C11_total`: the model of `parse` has exactly three kinds of outcome — a list of modules, the
  lexer error with a line, the parser error with a line — plus the internal `other`, which
  `C11_lexer_never_stalls` / the table check rule out for consistent tables.
* `C11_step_progress`: every lexer rule in every state consumes at least one character (the condition
  PLY checks only for the empty string), hence `C11_lexer_terminates`: scanning any text finishes
  within `length + 1` steps.
* `C11_accept_means_complete`: whenever `parse` returns modules, the *whole* token list of the text
  was accepted by the LR driver as one derivation from `mibFile` (no lexer error anywhere, no token
  left over): a text that ends inside a module is never accepted — for every prefix of every text.
* `C11_number_class`: numbers beyond 64 bits are lexer errors; the 32/64-bit classes are as documented.
-/
namespace Pysmi.Lexer

theorem spanLen_le (p : Char → Bool) (s : Str) : spanLen p s ≤ s.length := by
  induction s with
  | nil => simp [spanLen]
  | cons c cs ih => unfold spanLen; split <;> simp <;> omega

/-- `consumed` of a step -/
def Step.consumed : Step → Nat
  | .tok _ n _ _ => n
  | .skip n _ _ => n
  | .err _ => 1

theorem macroBodyLen_pos (s : Str) (n : Nat) (h : macroBodyLen s = some n) : 1 ≤ n := by
  cases s with
  | nil => simp [macroBodyLen] at h
  | cons c rest =>
    simp only [macroBodyLen] at h
    have : ∀ (t : Str) (k m : Nat), macroBodyLen.go t k = some m → k ≤ m := by
      intro t
      induction t with
      | nil => intro k m h; simp [macroBodyLen.go] at h
      | cons x xs ih =>
        intro k m h
        unfold macroBodyLen.go at h
        split at h
        · injection h with h; omega
        · have := ih _ _ h; omega
    exact this _ _ _ h

theorem newlineLen_pos (s : Str) (n : Nat) (h : newlineLen s = some n) : 1 ≤ n := by
  cases s with
  | nil => simp [newlineLen] at h
  | cons c rest =>
    simp only [newlineLen] at h
    by_cases h1 : c = '\r'
    · by_cases h2 : rest.head? = some '\n' <;> simp [h1, h2] at h <;> omega
    · by_cases h3 : c = '\n' <;> simp [h1, h3] at h
      omega

theorem matchUpper_pos (s : Str) (n : Nat) (h : matchUpper s = some n) : 1 ≤ n := by
  unfold matchUpper at h
  split at h
  · split at h
    · injection h with h; omega
    · cases h
  · cases h

theorem matchLower_pos (s : Str) (n : Nat) (h : matchLower s = some n) : 1 ≤ n := by
  unfold matchLower at h
  simp only at h
  split at h
  · split at h
    · injection h with h; omega
    · cases h
  · cases h

theorem matchNumber_pos (s : Str) (n : Nat) (h : matchNumber s = some n) : 1 ≤ n := by
  unfold matchNumber at h
  split at h
  · simp only at h
    split at h
    · cases h
    · injection h with h; omega
  · simp only at h
    split at h
    · cases h
    · injection h with h; omega

theorem matchQuotedDigits_pos (p : Char → Bool) (lo up : Char) (s : Str) (n : Nat)
    (h : matchQuotedDigits p lo up s = some n) : 1 ≤ n := by
  unfold matchQuotedDigits at h
  split at h
  · simp only at h
    split at h
    · split at h
      · injection h with h; omega
      · cases h
    · cases h
  · cases h

theorem matchQuoted_pos (s : Str) (n : Nat) (h : matchQuoted s = some n) : 1 ≤ n := by
  unfold matchQuoted at h
  split at h
  · simp only at h
    split at h
    · injection h with h; omega
    · cases h
  · cases h

theorem spanLen_pos (p : Char → Bool) (c : Char) (cs : Str) (h : p c = true) : 1 ≤ spanLen p (c :: cs) := by
  unfold spanLen; simp [h]

/-- **C11_step_progress**: every rule of every lexer state consumes at least one character of a
non-empty input. -/
theorem C11_step_progress (cfg : Cfg) (st : LexState) (line : Nat) (c : Char) (cs : Str) :
    1 ≤ (step cfg st line (c :: cs)).consumed := by
  cases st
  · -- INITIAL
    unfold step
    simp only
    repeat' split
    all_goals first
      | (simp [Step.consumed]; done)
      | (simp only [Step.consumed]; first
          | exact newlineLen_pos _ _ (by assumption)
          | exact matchUpper_pos _ _ (by assumption)
          | exact matchLower_pos _ _ (by assumption)
          | exact matchNumber_pos _ _ (by assumption)
          | exact matchQuotedDigits_pos _ _ _ _ _ (by assumption)
          | exact matchQuoted_pos _ _ (by assumption))
  · -- macro
    unfold step
    simp only
    repeat' split
    all_goals first
      | (simp [Step.consumed]; done)
      | (simp only [Step.consumed]; first
          | exact newlineLen_pos _ _ (by assumption)
          | exact macroBodyLen_pos _ _ (by assumption))
  · -- choice
    unfold step
    simp only
    split
    · rename_i n hn; simp only [Step.consumed]; exact newlineLen_pos _ _ hn
    · split
      · simp [Step.consumed]
      · rename_i hne
        simp only [Step.consumed]
        apply spanLen_pos
        by_cases hc : c = '}'
        · subst hc; exact absurd rfl (hne cs)
        · simpa using hc
  · -- exports
    unfold step
    simp only
    split
    · rename_i n hn; simp only [Step.consumed]; exact newlineLen_pos _ _ hn
    · split
      · simp [Step.consumed]
      · rename_i hne
        simp only [Step.consumed]
        apply spanLen_pos
        by_cases hc : c = ';'
        · subst hc; exact absurd rfl (hne cs)
        · simpa using hc
  · -- comment
    unfold step
    simp only
    split
    · rename_i n hn; simp only [Step.consumed]; exact newlineLen_pos _ _ hn
    · rename_i hnl
      simp only [Step.consumed]
      apply spanLen_pos
      by_cases h1 : c = '\r'
      · subst h1
        by_cases hd : cs.head? = some '\n' <;> simp [newlineLen, hd] at hnl
      · by_cases h2 : c = '\n'
        · subst h2; simp [newlineLen] at hnl
        · simp [h1, h2]

/-- **C11_lexer_terminates**: the scanning loop never runs out of fuel when given `length + 1` steps:
for every text it ends with the token list or a lexer error. -/
theorem C11_lexer_terminates (cfg : Cfg) : ∀ (fuel : Nat) (st : LexState) (line : Nat) (s : Str) (acc : List Tok),
    s.length < fuel → lexLoop cfg fuel st line s acc ≠ .error .outOfFuel := by
  intro fuel
  induction fuel with
  | zero => intro st line s acc h; omega
  | succ fuel ih =>
    intro st line s acc h
    cases s with
    | nil => simp [lexLoop]
    | cons c cs =>
      rw [lexLoop]
      cases step cfg st line (c :: cs) with
      | err k => simp
      | tok t n next lines =>
        apply ih
        simp only [List.length_drop, List.length_cons] at h ⊢
        omega
      | skip n next lines =>
        apply ih
        simp only [List.length_drop, List.length_cons] at h ⊢
        omega

/-- **C11_number_class**: the token class of a number is a function of its value and the two bounds;
beyond 64 bits it is a lexer error. -/
theorem C11_number_class (cfg : Cfg) (v : Int) :
    (v.natAbs ≤ cfg.u32 → classifyNumber cfg v = some (if v < 0 then "NEGATIVENUMBER" else "NUMBER")) ∧
    (cfg.u32 < v.natAbs → v.natAbs ≤ cfg.u64 →
      classifyNumber cfg v = some (if v < 0 then "NEGATIVENUMBER64" else "NUMBER64")) ∧
    (cfg.u64 < v.natAbs → cfg.u32 ≤ cfg.u64 → classifyNumber cfg v = none) := by
  unfold classifyNumber
  refine ⟨fun h => by simp [h], fun h1 h2 => ?_, fun h1 h2 => ?_⟩
  · have : ¬ v.natAbs ≤ cfg.u32 := by omega
    simp [this, h2]
  · have : ¬ v.natAbs ≤ cfg.u32 := by omega
    have : ¬ v.natAbs ≤ cfg.u64 := by omega
    simp [*]

end Pysmi.Lexer

namespace Pysmi.LR
open Pysmi.Lexer

/-- **C11_accept_means_complete**: `parse` returns modules only if scanning met no error and the LR
driver accepted the *entire* token list as one derivation tree rooted at the start symbol. -/
theorem C11_accept_means_complete (cfg : Lexer.Cfg) (T : Tables) (A : Actions) (text : List Char) (ast : Py.PyVal)
    (h : parse cfg T A text = .modules ast)
    (toks : List Lexer.Tok) (lexErr : Option Nat) (eofLine : Nat)
    (hc : collect cfg (text.length + 1) .initial 1 text [] = (toks, lexErr, eofLine)) :
    lexErr = none ∧ ∃ tree, run T (fuelFor (parserInput toks lexErr).length) [] (parserInput toks lexErr) = .ok tree ∧
      tree.Valid T ∧ tree.sym = T.start ∧ tree.frontier = toks.map tokOf := by
  unfold parse at h
  simp only [hc] at h
  cases hrun : run T (fuelFor (parserInput toks lexErr).length) [] (parserInput toks lexErr) with
  | ok tree =>
    have hs := C02_lr_sound T _ _ tree hrun
    have hno := C02_no_accept_past_lexer_error T _ _ _ tree hrun
    have hnone : lexErr = none := by
      cases hl : lexErr with
      | none => rfl
      | some l =>
        exfalso
        have : (⟨lexErrSym, .none, l⟩ : Token) ∈ parserInput toks lexErr := by
          simp [parserInput, hl]
        exact hno _ this rfl
    refine ⟨hnone, tree, rfl, hs.1, hs.2.1, ?_⟩
    rw [hs.2.2]
    simp [parserInput, hnone]
  | syntaxError t => simp only [hrun] at h; cases t <;> cases h
  | lexerErrorReached => simp only [hrun] at h; cases h
  | tableError m => simp only [hrun] at h; cases h
  | fuel => simp only [hrun] at h; cases h

/-- **C11_total**: the outcomes of `parse`. -/
theorem C11_total (cfg : Lexer.Cfg) (T : Tables) (A : Actions) (text : List Char) :
    (∃ ast, parse cfg T A text = .modules ast) ∨ (∃ l, parse cfg T A text = .lexerError l) ∨
    (∃ l, parse cfg T A text = .parserError l) ∨ (∃ m, parse cfg T A text = .other m) := by
  cases h : parse cfg T A text with
  | modules a => exact Or.inl ⟨a, rfl⟩
  | lexerError l => exact Or.inr (Or.inl ⟨l, rfl⟩)
  | parserError l => exact Or.inr (Or.inr (Or.inl ⟨l, rfl⟩))
  | other m => exact Or.inr (Or.inr (Or.inr ⟨m, rfl⟩))

end Pysmi.LR
