import Pysmi.Model.LR
/-!
# C02 (parser half) — the parse tree accounts for every token, in order, under *any* tables

`C02_lr_sound`: whatever the LR tables are (PLY's, or anything else), if the driver accepts a token
list then the tree it built is a valid derivation tree of the grammar's productions, rooted at the
start symbol, whose frontier is exactly the input token list: no token is dropped, duplicated or
reordered by the parser, for every input length.
-/
namespace Pysmi.LR

mutual
def Tree.Valid (T : Tables) : Tree → Prop
  | .leaf _ => True
  | .node p l ks => (∃ pr, T.prods[p]? = some pr ∧ pr.lhs = l ∧ pr.rhs = ks.map Tree.sym) ∧ ValidL T ks
def ValidL (T : Tables) : List Tree → Prop
  | [] => True
  | k :: ks => k.Valid T ∧ ValidL T ks
end

theorem frontierL_append (a b : List Tree) : frontierL (a ++ b) = frontierL a ++ frontierL b := by
  induction a with
  | nil => simp [frontierL]
  | cons k ks ih => simp [frontierL, ih, List.append_assoc]

theorem validL_append (T : Tables) (a b : List Tree) : ValidL T (a ++ b) ↔ ValidL T a ∧ ValidL T b := by
  induction a with
  | nil => simp [ValidL]
  | cons k ks ih => simp [ValidL, ih, and_assoc]

theorem validL_reverse (T : Tables) (a : List Tree) : ValidL T a.reverse ↔ ValidL T a := by
  induction a with
  | nil => simp
  | cons k ks ih =>
    simp only [List.reverse_cons, validL_append, ih, ValidL, and_true]
    exact And.comm

def stackFrontier (st : Stack) : List Token := frontierL ((st.map (·.2)).reverse)
def stackValid (T : Tables) (st : Stack) : Prop := ValidL T (st.map (·.2))

theorem reduce_sound (T : Tables) (p : Nat) (st st' : Stack) (hv : stackValid T st)
    (h : reduce T p st = .ok st') : stackValid T st' ∧ stackFrontier st' = stackFrontier st := by
  unfold reduce at h
  split at h
  · cases h
  · rename_i pr hpr
    simp only at h
    split at h
    · split at h
      · rename_i hk
        split at h
        · cases h
        · rename_i g _
          injection h with h; subst h
          have hsplit : st = st.take pr.rhs.length ++ st.drop pr.rhs.length := (List.take_append_drop _ _).symm
          have hvs : stackValid T (st.take pr.rhs.length) ∧ stackValid T (st.drop pr.rhs.length) := by
            have : ValidL T ((st.take pr.rhs.length ++ st.drop pr.rhs.length).map (·.2)) := by
              rw [← hsplit]; exact hv
            rw [List.map_append, validL_append] at this
            exact this
          constructor
          · simp only [stackValid, List.map_cons, ValidL, Tree.Valid]
            refine ⟨⟨⟨pr, hpr, rfl, hk.symm⟩, ?_⟩, hvs.2⟩
            rw [validL_reverse]; exact hvs.1
          · conv => rhs; rw [stackFrontier, hsplit]
            simp only [stackFrontier, List.map_cons, List.reverse_cons, frontierL_append, frontierL, Tree.frontier,
              List.append_nil, List.map_append, List.reverse_append]
      · cases h
    · cases h

theorem run_sound (T : Tables) : ∀ (fuel : Nat) (st : Stack) (inp : List Token) (t : Tree),
    stackValid T st → run T fuel st inp = .ok t →
    t.Valid T ∧ t.sym = T.start ∧ t.frontier = stackFrontier st ++ inp := by
  intro fuel
  induction fuel with
  | zero => intro st inp t _ h; simp [run] at h
  | succ fuel ih =>
    intro st inp t hv h
    unfold run at h
    cases hact : chooseAction T (topState st) inp with
    | none =>
      simp only [hact] at h
      cases inp with
      | nil => cases h
      | cons tk rest => simp only at h; split at h <;> cases h
    | some a =>
      simp only [hact] at h
      by_cases hpos : a > 0
      · simp only [hpos, if_true] at h
        cases inp with
        | nil => cases h
        | cons tk rest =>
          simp only at h
          split at h
          · cases h
          · have hv' : stackValid T ((a.toNat, Tree.leaf tk) :: st) := by
              simp only [stackValid, List.map_cons, ValidL, Tree.Valid, true_and]; exact hv
            obtain ⟨h1, h2, h3⟩ := ih _ _ _ hv' h
            refine ⟨h1, h2, ?_⟩
            rw [h3]
            simp [stackFrontier, frontierL_append, frontierL, Tree.frontier, List.append_assoc]
      · simp only [hpos, if_false] at h
        by_cases hneg : a < 0
        · simp only [hneg, if_true] at h
          cases hr : reduce T (-a).toNat st with
          | error m => simp only [hr] at h; cases h
          | ok st' =>
            simp only [hr] at h
            obtain ⟨hv', hf⟩ := reduce_sound T _ st st' hv hr
            obtain ⟨h1, h2, h3⟩ := ih _ _ _ hv' h
            exact ⟨h1, h2, by rw [h3, hf]⟩
        · simp only [hneg, if_false] at h
          split at h
          · rename_i s tr
            split at h
            · rename_i hs
              injection h with h; subst h
              simp only [stackValid, List.map_cons, List.map_nil, ValidL, and_true] at hv
              exact ⟨hv, hs, by simp [stackFrontier, frontierL]⟩
            · cases h
          · cases h

/-- **C02_lr_sound**: for arbitrary tables, an accepted token list is exactly the frontier of the valid
derivation tree the driver returns. -/
theorem C02_lr_sound (T : Tables) (fuel : Nat) (inp : List Token) (t : Tree) (h : run T fuel [] inp = .ok t) :
    t.Valid T ∧ t.sym = T.start ∧ t.frontier = inp := by
  have := run_sound T fuel [] inp t (by simp [stackValid, ValidL]) h
  simpa [stackFrontier, frontierL] using this

/-- an accepted input never contains the lexer-failure sentinel: a text whose scanning fails is never
accepted -/
theorem C02_no_accept_past_lexer_error (T : Tables) : ∀ (fuel : Nat) (st : Stack) (inp : List Token) (t : Tree),
    run T fuel st inp = .ok t → ∀ tk ∈ inp, tk.ty ≠ lexErrSym := by
  intro fuel
  induction fuel with
  | zero => intro st inp t h; simp [run] at h
  | succ fuel ih =>
    intro st inp t h
    unfold run at h
    cases hact : chooseAction T (topState st) inp with
    | none =>
      simp only [hact] at h
      cases inp with
      | nil => cases h
      | cons tk rest => simp only at h; split at h <;> cases h
    | some a =>
      simp only [hact] at h
      by_cases hpos : a > 0
      · simp only [hpos, if_true] at h
        cases inp with
        | nil => cases h
        | cons tk rest =>
          simp only at h
          split at h
          · cases h
          · rename_i hne
            intro x hx
            rcases List.mem_cons.mp hx with rfl | hx
            · simpa using hne
            · exact ih _ _ _ h x hx
      · simp only [hpos, if_false] at h
        by_cases hneg : a < 0
        · simp only [hneg, if_true] at h
          cases hr : reduce T (-a).toNat st with
          | error m => simp only [hr] at h; cases h
          | ok st' => simp only [hr] at h; exact ih _ _ _ h
        · simp only [hneg, if_false] at h
          split at h
          · intro x hx; cases hx
          · cases h

end Pysmi.LR
