import Pysmi.Model.Reader
/-!
# C14 — readers return the right file for a module name, incl. sub-directories and nested ZIPs

For every module name (ASCII), every setting of the matching switches, every extension
list, every directory tree (any depth: the model receives the visiting order) and every
archive nesting.
-/
namespace Pysmi.Reader

/-! ### `str.find` -/

theorem find_spec (s p : Str) (k : Nat) (h : find s p = some k) : startsWith (s.drop k) p = true := by
  induction s generalizing k with
  | nil =>
    unfold find at h
    split at h
    · injection h with h; subst h; simpa
    · simp at h
  | cons c rest ih =>
    unfold find at h
    split at h
    · injection h with h; subst h; simpa
    · simp only [Option.map_eq_some_iff] at h
      obtain ⟨k', hk', rfl⟩ := h
      simpa using ih k' hk'

/-! ### what the documentation promises as a name variant -/

/-- the three documented spellings of the requested name -/
def cands (name : Str) : List Str := [name, upper name, lower name]

/-- `b` is a documented variant of `name` (before the extension): as given / upper / lower case;
with fuzzy matching also with `-MIB` / `-mib` appended, or cut where (some spelling of) the name has
its `-mib` part. -/
def DocBase (fuzzy : Bool) (name b : Str) : Prop :=
  b ∈ cands name ∨
  (fuzzy = true ∧ (b = upper (name ++ dashMib) ∨ b = lower (name ++ dashMib) ∨
    ∃ c ∈ cands name, ∃ c' ∈ cands name, ∃ k, b = c.take k ∧ startsWith (c'.drop k) dashMib = true))

theorem fs_sub_cands (o : Opts) (name : Str) : ∀ x ∈ spellings o name, x ∈ cands name := by
  intro x hx
  unfold spellings at hx
  simp only [List.mem_append] at hx
  unfold cands
  rcases hx with (hx | hx) | hx
  · split at hx <;> simp_all
  · split at hx <;> simp_all
  · split at hx <;> simp_all

/-- **C14_variants_total**: for every setting of the switches the variant list exists (no IndexError: the state of
the code before repair 634cb10 with all three spellings off and fuzzy matching on). -/
theorem C14_variants_total (o : Opts) (name : Str) : (variants o name).isSome = true := by
  unfold variants baseNames
  simp only
  cases o.fuzzy <;> simp
  cases find (lower name) dashMib <;> simp

/-- **C14_variants_sound**: for every setting of the three matching switches and fuzzy on/off, every
file name the reader tries is a documented variant of the requested name plus a configured
extension — never an unrelated name — and its alias is that variant. -/
theorem C14_variants_sound (o : Opts) (name : Str) (vs : List (Str × Str)) (h : variants o name = some vs) :
    ∀ v ∈ vs, DocBase o.fuzzy name v.1 ∧ ∃ ext ∈ o.exts, v.2 = v.1 ++ ext := by
  unfold variants at h
  cases hb : baseNames o name with
  | none => simp [hb] at h
  | some fs =>
    simp only [hb, Option.map_some, Option.some.injEq] at h
    subst h
    intro v hv
    simp only [List.mem_flatMap, List.mem_map] at hv
    obtain ⟨x, hx, ext, hext, rfl⟩ := hv
    refine ⟨?_, ext, hext, rfl⟩
    unfold baseNames at hb
    simp only at hb
    cases hf : o.fuzzy with
    | false =>
      simp only [hf, Bool.false_eq_true, if_false, Option.some.injEq] at hb
      subst hb
      exact Or.inl (fs_sub_cands o name x hx)
    | true =>
      simp only [hf, if_true] at hb
      have hlc : lower name ∈ cands name := by simp [cands]
      split at hb
      · rename_i part hpart
        injection hb with hb; subst hb
        rcases List.mem_append.mp hx with hx | hx
        · exact Or.inl (fs_sub_cands o name x hx)
        · simp only [List.mem_map] at hx
          obtain ⟨c, hc, rfl⟩ := hx
          exact Or.inr ⟨rfl, Or.inr (Or.inr ⟨c, fs_sub_cands o name c hc, lower name, hlc, part, rfl,
            find_spec (lower name) dashMib part hpart⟩)⟩
      · injection hb with hb; subst hb
        rcases List.mem_append.mp hx with hx | hx
        · exact Or.inl (fs_sub_cands o name x hx)
        · simp only [List.mem_cons, List.mem_nil_iff, or_false] at hx
          rcases hx with hx | hx
          · exact Or.inr ⟨rfl, Or.inl hx⟩
          · exact Or.inr ⟨rfl, Or.inr (Or.inl hx)⟩

/-- **C14_variants_complete_all** (every setting of the switches): every spelling that is switched on is tried with
every extension; with fuzzy matching, additionally the `-MIB` / `-mib` suffixed names when the lower-case name has
no `-mib`, and every switched-on spelling cut at that position when it has. -/
theorem C14_variants_complete_all (o : Opts) (name : Str) (vs : List (Str × Str)) (h : variants o name = some vs) :
      (∀ b ∈ spellings o name, ∀ ext ∈ o.exts, (b, b ++ ext) ∈ vs) ∧
      (o.fuzzy = true → find (lower name) dashMib = none →
        ∀ ext ∈ o.exts, (upper (name ++ dashMib), upper (name ++ dashMib) ++ ext) ∈ vs ∧
                        (lower (name ++ dashMib), lower (name ++ dashMib) ++ ext) ∈ vs) ∧
      (o.fuzzy = true → ∀ k, find (lower name) dashMib = some k →
        ∀ b ∈ spellings o name, ∀ ext ∈ o.exts, (b.take k, b.take k ++ ext) ∈ vs) := by
  unfold variants baseNames at h
  simp only at h
  cases hfz : o.fuzzy with
  | false =>
    simp only [hfz, Bool.false_eq_true, if_false, Option.map_some, Option.some.injEq] at h
    subst h
    refine ⟨?_, by simp, by simp⟩
    intro b hb ext hext
    simp only [List.mem_flatMap, List.mem_map]
    exact ⟨b, hb, ext, hext, rfl⟩
  | true =>
    simp only [hfz, if_true] at h
    cases hf : find (lower name) dashMib with
    | none =>
      simp only [hf, Option.map_some, Option.some.injEq] at h
      subst h
      refine ⟨?_, ?_, by simp⟩
      · intro b hb ext hext
        simp only [List.mem_flatMap, List.mem_map]
        exact ⟨b, List.mem_append_left _ hb, ext, hext, rfl⟩
      · intro _ _ ext hext
        constructor
        · simp only [List.mem_flatMap, List.mem_map]
          exact ⟨_, List.mem_append_right _ (by simp), ext, hext, rfl⟩
        · simp only [List.mem_flatMap, List.mem_map]
          exact ⟨_, List.mem_append_right _ (by simp), ext, hext, rfl⟩
    | some k =>
      simp only [hf, Option.map_some, Option.some.injEq] at h
      subst h
      refine ⟨?_, by simp, ?_⟩
      · intro b hb ext hext
        simp only [List.mem_flatMap, List.mem_map]
        exact ⟨b, List.mem_append_left _ hb, ext, hext, rfl⟩
      · intro _ k' hk' b hb ext hext
        injection hk' with hk'; subst hk'
        simp only [List.mem_flatMap, List.mem_map]
        exact ⟨b.take k, List.mem_append_right _ (List.mem_map.mpr ⟨b, hb, rfl⟩), ext, hext, rfl⟩

/-- **C14_variants_complete** (default switches: all three spellings on): every spelling with every
extension is tried; with fuzzy matching, additionally the `-MIB`/`-mib` suffixed names when the
lower-case name has no `-mib`, and the names cut at that position when it has. -/
theorem C14_variants_complete (fuzzy : Bool) (exts : List Str) (name : Str) (vs : List (Str × Str))
    (h : variants { fuzzy := fuzzy, exts := exts } name = some vs) :
      (∀ b ∈ cands name, ∀ ext ∈ exts, (b, b ++ ext) ∈ vs) ∧
      (fuzzy = true → find (lower name) dashMib = none →
        ∀ ext ∈ exts, (upper (name ++ dashMib), upper (name ++ dashMib) ++ ext) ∈ vs ∧
                      (lower (name ++ dashMib), lower (name ++ dashMib) ++ ext) ∈ vs) ∧
      (fuzzy = true → ∀ k, find (lower name) dashMib = some k →
        ∀ b ∈ cands name, ∀ ext ∈ exts, (b.take k, b.take k ++ ext) ∈ vs) := by
  have hs : spellings { fuzzy := fuzzy, exts := exts } name = cands name := by simp [spellings, cands]
  have := C14_variants_complete_all { fuzzy := fuzzy, exts := exts } name vs h
  rw [hs] at this
  exact this

/-- with the default switches the variant list always exists -/
theorem C14_variants_default_total (fuzzy : Bool) (exts : List Str) (name : Str) :
    (variants { fuzzy := fuzzy, exts := exts } name).isSome = true :=
  C14_variants_total _ name

/-- **C14_index_precedence**: an `.index` entry for the name is the only file tried - the entry of the last line that
names the module, as in a dictionary built from the lines in file order. -/
theorem C14_index_precedence (o : Opts) (index : List (Str × Str)) (name file : Str)
    (h : indexLookup index name = some file) :
    fileVariants o index true name = some [(name, file)] := by
  simp [fileVariants, h]

/-- without an entry for the name the index plays no role -/
theorem C14_index_absent (o : Opts) (index : List (Str × Str)) (name : Str) (h : indexLookup index name = none) :
    fileVariants o index true name = variants o name := by
  simp [fileVariants, h]

/-- **C14_index_last_wins**: a later line for the same module replaces an earlier one; lines for other modules change
nothing. -/
theorem C14_index_last_wins (index : List (Str × Str)) (name file : Str) :
    indexLookup (index ++ [(name, file)]) name = some file ∧
    (∀ other f', other ≠ name → indexLookup (index ++ [(other, f')]) name = indexLookup index name) := by
  constructor
  · simp [indexLookup, List.filter_append]
  · intro other f' hne
    have : ((other == name) = false) := by simpa using hne
    simp [indexLookup, List.filter_append, List.filter_cons, this]

/-- **C14_index_short_lines**: a line of `.index` that does not hold two fields (blank, one word) contributes nothing,
wherever it stands. -/
theorem C14_index_short_lines (l1 l2 : List (List Str)) (short : List Str) (h : short.length < 2) :
    loadIndex (l1 ++ short :: l2) = loadIndex (l1 ++ l2) := by
  have hs : indexLine short = none := by
    match short, h with
    | [], _ => rfl
    | [_], _ => rfl
  simp [loadIndex, List.filterMap_append, List.filterMap_cons, hs]

example : indexLookup (loadIndex [["IF-MIB".toList, "a.txt".toList], [], ["lone".toList], ["IF-MIB".toList, "b.txt".toList, "x".toList]])
    "IF-MIB".toList = some "b.txt".toList := by decide

/-! ### directory trees -/

/-- **C14_dir_lookup (sound)**: what is returned is a regular file of some directory of the tree
whose name is one of the variants tried. -/
theorem C14_dir_lookup_sound (dirs : List (Str → Option FileEnt)) (vs : List (Str × Str))
    (a f : Str) (e : FileEnt) (h : dirLookup dirs vs = some (a, f, e)) :
    (a, f) ∈ vs ∧ ∃ d ∈ dirs, d f = some e := by
  induction dirs with
  | nil => simp [dirLookup] at h
  | cons d rest ih =>
    unfold dirLookup at h
    split at h
    · rename_i r hr
      injection h with h; subst h
      obtain ⟨v, hv, hv2⟩ := List.exists_of_findSome?_eq_some hr
      simp only [Option.map_eq_some_iff] at hv2
      obtain ⟨e', he', heq⟩ := hv2
      injection heq with h1 h2
      injection h2 with h2 h3
      subst h1 h2 h3
      exact ⟨hv, d, by simp, he'⟩
    · obtain ⟨h1, d', hd', h2⟩ := ih h
      exact ⟨h1, d', List.mem_cons_of_mem _ hd', h2⟩

/-- **C14_dir_lookup (not found)**: not-found exactly when no directory holds any variant. -/
theorem C14_dir_lookup_none (dirs : List (Str → Option FileEnt)) (vs : List (Str × Str)) :
    dirLookup dirs vs = none ↔ ∀ d ∈ dirs, ∀ v ∈ vs, d v.2 = none := by
  induction dirs with
  | nil => simp [dirLookup]
  | cons d rest ih =>
    unfold dirLookup
    split
    · rename_i r hr
      obtain ⟨v, hv, hv2⟩ := List.exists_of_findSome?_eq_some hr
      simp only [Option.map_eq_some_iff] at hv2
      obtain ⟨e', he', _⟩ := hv2
      simp only [reduceCtorEq, List.mem_cons, forall_eq_or_imp, false_iff, not_and]
      intro hall
      have := hall v hv
      rw [he'] at this; cases this
    · rename_i hr
      rw [ih]
      simp only [List.mem_cons, forall_eq_or_imp]
      constructor
      · intro h
        refine ⟨?_, h⟩
        intro v hv
        have := List.findSome?_eq_none_iff.mp hr v hv
        simpa using this
      · intro h; exact h.2

/-- **C14_never_truncated**: data is returned only for a file below the size limit — an oversized
file is an error, never a silently truncated text. -/
theorem C14_never_truncated (dirs : List (Str → Option FileEnt)) (vs : List (Str × Str)) (tooLarge : Nat → Bool)
    (a f : Str) (e : FileEnt) (h : fileGetData dirs vs tooLarge = .found a f e) :
    tooLarge e.content = false ∧ dirLookup dirs vs = some (a, f, e) := by
  unfold fileGetData at h
  split at h
  · cases h
  · rename_i a' f' e' hl
    split at h
    · cases h
    · rename_i hn
      injection h with h1 h2 h3
      subst h1 h2 h3
      exact ⟨by simpa using hn, hl⟩

/-! ### ZIP archives -/

/-- **C14_zip_lookup (sound)**: what is returned is a member-table entry filed under one of the
variants tried, with non-empty content. -/
theorem C14_zip_lookup_sound (members : List (Str × FileEnt)) (emp : Nat → Bool) (vs : List (Str × Str))
    (a f : Str) (e : FileEnt) (h : zipLookup members emp vs = some (a, f, e)) :
    (a, f) ∈ vs ∧ (f, e) ∈ members ∧ emp e.content = false := by
  unfold zipLookup at h
  obtain ⟨v, hv, hv2⟩ := List.exists_of_findSome?_eq_some h
  split at hv2
  · rename_i m hm
    split at hv2
    · cases hv2
    · rename_i hne
      injection hv2 with hv2
      injection hv2 with h1 h2
      injection h2 with h2 h3
      subst h1 h2 h3
      have hk := List.find?_some hm
      have hmem := List.mem_of_find?_eq_some hm
      simp only [beq_iff_eq] at hk
      refine ⟨hv, ?_, by simpa using hne⟩
      rw [← hk]; exact hmem
  · cases hv2

/-- every leaf file of an archive tree, at any nesting depth -/
def leaves : List Member → List (Str × FileEnt)
  | [] => []
  | .file p e :: rest => (p, e) :: leaves rest
  | .dirEntry _ :: rest => leaves rest
  | .zip _ inner :: rest => leaves inner ++ leaves rest

/-- a table key is the base name of a leaf, possibly followed by `+` signs -/
def KeyOf (k : Str) (p : Str) : Prop := ∃ n, k = basename p ++ List.replicate n '+'

def FromLeaves (ms : List Member) (tbl : List (Str × FileEnt)) : Prop :=
  ∀ ke ∈ tbl, ∃ p, (p, ke.2) ∈ leaves ms ∧ KeyOf ke.1 p

theorem plusFree_keyOf (acc : List (Str × FileEnt)) (k : Str) (fuel : Nat) :
    ∃ n, plusFree acc k fuel = k ++ List.replicate n '+' := by
  induction fuel generalizing k with
  | zero => exact ⟨0, by simp [plusFree]⟩
  | succ fuel ih =>
    unfold plusFree
    split
    · obtain ⟨n, hn⟩ := ih (k ++ ['+'])
      exact ⟨n + 1, by rw [hn, List.append_assoc]; simp [List.replicate_succ]⟩
    · exact ⟨0, by simp⟩

theorem setKey_mem (tbl : List (Str × FileEnt)) (k : Str) (e : FileEnt) (x : Str × FileEnt)
    (h : x ∈ setKey tbl k e) : x = (k, e) ∨ x ∈ tbl := by
  unfold setKey at h
  split at h
  · simp only [List.mem_map] at h
    obtain ⟨m, hm, rfl⟩ := h
    split
    · exact Or.inl rfl
    · exact Or.inr hm
  · rcases List.mem_append.mp h with h | h
    · exact Or.inr h
    · simp at h; exact Or.inl h

/-- **C14_zip_members**: every entry of the member table, for archives nested to any depth, is the
content and modification time of an actual leaf file of the archive tree, filed under that file's
base name (plus `+` signs that disambiguate equal base names in nested archives). -/
theorem mergeInner_fromLeaves (all : List Member) (inner acc : List (Str × FileEnt))
    (hin : ∀ ke ∈ inner, ∃ p, (p, ke.2) ∈ leaves all ∧ KeyOf ke.1 p) (h : FromLeaves all acc) :
    FromLeaves all (mergeInner inner acc) := by
  induction inner generalizing acc with
  | nil => simpa [mergeInner] using h
  | cons ke rest ih =>
    obtain ⟨k, e⟩ := ke
    rw [mergeInner]
    apply ih _ (fun ke hke => hin ke (List.mem_cons_of_mem _ hke))
    intro ke hke
    rcases List.mem_append.mp hke with hke | hke
    · exact h ke hke
    · simp only [List.mem_singleton] at hke
      subst hke
      obtain ⟨p, hp, n, hn⟩ := hin (k, e) (by simp)
      obtain ⟨m, hm⟩ := plusFree_keyOf acc k (acc.length + 1)
      refine ⟨p, hp, n + m, ?_⟩
      have hn' : k = basename p ++ List.replicate n '+' := hn
      rw [hm, hn', List.append_assoc, List.replicate_append_replicate]

theorem C14_zip_members (ms : List Member) (acc : List (Str × FileEnt)) :
    ∀ (all : List Member),
      (∀ x ∈ leaves ms, x ∈ leaves all) → FromLeaves all acc → FromLeaves all (buildMembers ms acc) := by
  induction ms, acc using buildMembers.induct with
  | case1 acc => intro all _ h; simpa [buildMembers] using h
  | case2 path e rest acc fn hfn ih =>
    intro all hsub h
    rw [buildMembers]
    have hfn' : (basename path).isEmpty = true := hfn
    simp only [hfn', if_true]
    exact ih all (fun x hx => hsub x (by simp [leaves, hx])) h
  | case3 path e rest acc fn hfn ih =>
    intro all hsub h
    rw [buildMembers]
    have hfn' : ¬ (basename path).isEmpty = true := hfn
    simp only [hfn', if_false]
    apply ih all (fun x hx => hsub x (by simp [leaves, hx]))
    intro ke hke
    rcases setKey_mem acc (basename path) e ke hke with rfl | hke
    · exact ⟨path, hsub _ (by simp [leaves]), 0, by simp⟩
    · exact h ke hke
  | case4 path rest acc ih =>
    intro all hsub h
    rw [buildMembers]
    exact ih all (fun x hx => hsub x (by simpa [leaves] using hx)) h
  | case5 path inner rest acc fn hfn ih =>
    intro all hsub h
    rw [buildMembers]
    have hfn' : (basename path).isEmpty = true := hfn
    simp only [hfn', if_true]
    exact ih all (fun x hx => hsub x (by simp [leaves, hx])) h
  | case6 path inner rest acc fn hfn ih1 ih2 =>
    intro all hsub h
    rw [buildMembers]
    have hfn' : ¬ (basename path).isEmpty = true := hfn
    simp only [hfn', if_false]
    apply ih2 all (fun x hx => hsub x (by simp [leaves, hx]))
    apply mergeInner_fromLeaves all _ _ _ h
    exact ih1 all (fun x hx => hsub x (by simp [leaves, hx])) (by intro ke hke; cases hke)

/-- the member table of a whole archive (any nesting depth) only holds actual leaf files -/
theorem C14_zip_members_top (ms : List Member) : FromLeaves ms (buildMembers ms []) :=
  C14_zip_members ms [] ms (fun _ hx => hx) (by intro ke hke; cases hke)

/-! ### URL → reader kind -/

/-- **C14_url_kind**: the reader kind as a function of scheme and `.zip` extension. -/
theorem C14_url_kind (path : Str) :
    (urlKind "http".toList path = .http) ∧ (urlKind "https".toList path = .http) ∧
    (urlKind "ftp".toList path = .ftp) ∧ (urlKind "sftp".toList path = .ftp) ∧
    (urlKind "file".toList path = .file) ∧
    (urlKind [] path = if endsWith path ".zip".toList || endsWith path ".ZIP".toList then .zip else .file) ∧
    (urlKind "zip".toList path = if endsWith path ".zip".toList || endsWith path ".ZIP".toList then .zip else .file) := by
  refine ⟨?_, ?_, ?_, ?_, ?_, ?_, ?_⟩
  · simp only [urlKind]; rw [if_neg (by decide), if_pos (by decide)]
  · simp only [urlKind]; rw [if_neg (by decide), if_pos (by decide)]
  · simp only [urlKind]; rw [if_neg (by decide), if_neg (by decide), if_pos (by decide)]
  · simp only [urlKind]; rw [if_neg (by decide), if_neg (by decide), if_pos (by decide)]
  · simp [urlKind]
  · simp only [urlKind]; split <;> simp_all
  · simp only [urlKind]
    have : ("zip".toList : Str) ≠ "file".toList := by decide
    split <;> simp_all

example : urlKind "gopher".toList "/x".toList = .unsupported := by decide

/-- **C14_url_target**: only the scheme `zip` lets the place of the host name the archive; then the reader is made for
host part and path taken together, and its kind is decided on that; for every other scheme the host part plays no role
in the path. -/
theorem C14_url_target (scheme netloc path : Str) :
    (scheme ≠ "zip".toList → urlTarget scheme netloc path = (urlKind scheme path, path)) ∧
    (netloc = [] → urlTarget scheme netloc path = (urlKind scheme path, path)) ∧
    (scheme = "zip".toList → netloc ≠ [] →
      urlTarget scheme netloc path = (urlKind "zip".toList (netloc ++ path), netloc ++ path)) := by
  refine ⟨?_, ?_, ?_⟩
  · intro h
    unfold urlTarget urlPath
    rw [if_neg (fun hh => h hh.1)]
  · intro h
    unfold urlTarget urlPath
    rw [if_neg (fun hh => hh.2 h)]
  · intro h1 h2
    unfold urlTarget urlPath
    rw [if_pos ⟨h1, h2⟩, h1]

/-- **C14_plain_path_whole**: a source given without a scheme is a local path and denotes itself - the reader is made for the
whole string (`getReadersFromUrls` hands the string over as it stands: nothing is cut off it at `#`, `?` or `;`, no `%`-escape
is resolved), and it is an archive reader exactly when the string ends in `.zip` / `.ZIP`. -/
theorem C14_plain_path_whole (netloc src : Str) :
    urlTarget [] netloc src =
      (if endsWith src ".zip".toList || endsWith src ".ZIP".toList then Kind.zip else Kind.file, src) := by
  have h : urlPath [] netloc src = src := by
    unfold urlPath
    rw [if_neg (fun hh => by simp at hh)]
  unfold urlTarget
  rw [h]
  unfold urlKind
  simp

example : urlTarget [] [] "/tmp/mibs#2".toList = (.file, "/tmp/mibs#2".toList) := by decide
example : urlTarget [] [] "/data/a#b.zip".toList = (.zip, "/data/a#b.zip".toList) := by decide

/-- the example of the documentation -/
example : urlTarget "zip".toList "mymibs.zip".toList [] = (.zip, "mymibs.zip".toList) := by decide
example : urlTarget "file".toList "host".toList "/mibs".toList = (.file, "/mibs".toList) := by decide

/-! ### non-vacuity -/
example : (variants { exts := [[], ".txt".toList] } "IF-MIB".toList).map (·.map (fun v => String.ofList v.2)) =
    some ["IF-MIB", "IF-MIB.txt", "IF-MIB", "IF-MIB.txt", "if-mib", "if-mib.txt", "IF", "IF.txt", "IF", "IF.txt",
          "if", "if.txt"] := by decide

end Pysmi.Reader
